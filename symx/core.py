"""symx -- proxy-based symbolic execution of real Python code with z3.

The real functions of /repo are *executed*; integer inputs are `SInt` proxies
that wrap z3 `Int` terms.  Arithmetic builds terms, every comparison / truth
test asks the solver which outcomes are feasible under the current path
condition and forks when both are.  Exploration is depth-first re-execution
with a recorded decision prefix; the path tree is exhausted (or the run is
reported inconclusive).  Values that cross into C code (`__index__`,
`__hash__`, `str`, `float`) are *concretised*: the solver enumerates every
feasible value (one sub-path per value).

Python `int` is unbounded, so mathematical integers are the faithful sort.
Floats are never modelled as reals: anything producing a float concretises
its integer operands and then uses CPython's own IEEE arithmetic; only the
exact int-vs-constant-float comparison is encoded (as an integer bound).
"""
from __future__ import annotations

import math
import numbers
import time

import z3


class PathAbort(BaseException):
    """current path is infeasible (assumption unsatisfiable)"""


class Inconclusive(BaseException):
    """solver returned unknown / budget exhausted"""


class TwinReached(BaseException):
    """reachability twin: a property assertion was reached"""


class Violation(Exception):
    """the property's assertion failed on this path"""


class HarnessError(Exception):
    """the harness / encoding misbehaved (never a VIOLATION)"""


ENG = None  # the engine of the path being executed (per process)


def _z(x):
    """z3 Int term of x, or None"""
    if isinstance(x, SInt):
        return x.z
    if isinstance(x, bool):
        return z3.IntVal(int(x))
    if isinstance(x, int):
        return z3.IntVal(x)
    return None


def _pyfloordiv(a, b):
    q = a / b          # z3 Int div: a = b*q + r, 0 <= r < |b|
    r = a % b
    return z3.If(b > 0, q, z3.If(r == 0, q, q - 1))


def _pymod(a, b):
    r = a % b
    return z3.If(b > 0, r, z3.If(r == 0, r, r + b))


class SBool:
    """lazy symbolic bool (only produced inside Engine.lazy sections, or by
    explicit helper calls); truth-testing it forks like everything else."""

    __slots__ = ("z",)

    def __init__(self, zb):
        self.z = zb

    def __bool__(self):
        return ENG.branch(self.z)

    def __and__(self, o):
        return SBool(z3.And(self.z, _zb(o)))

    __rand__ = __and__

    def __or__(self, o):
        return SBool(z3.Or(self.z, _zb(o)))

    __ror__ = __or__

    def __invert__(self):
        return SBool(z3.Not(self.z))

    def __eq__(self, o):
        return SBool(self.z == _zb(o))

    def __ne__(self, o):
        return SBool(self.z != _zb(o))

    def __hash__(self):
        return hash(bool(self))

    def __repr__(self):
        return f"SBool({self.z})"


def _zb(x):
    if isinstance(x, SBool):
        return x.z
    if isinstance(x, (bool, int)):
        return z3.BoolVal(bool(x))
    if z3.is_bool(x):
        return x
    raise HarnessError(f"not a boolean: {x!r}")


def _float_bound(f, op):
    """exact integer reformulation of `n <op> f` for a concrete float f.
    returns (zop, intconst) or a constant bool"""
    if math.isnan(f):
        return op == "ne"
    if math.isinf(f):
        if op in ("eq",):
            return False
        if op == "ne":
            return True
        pos = f > 0
        return pos if op in ("lt", "le") else (not pos)
    fl, ce = math.floor(f), math.ceil(f)
    if op == "lt":      # n < f  <=> n < ceil(f)
        return ("lt", ce)
    if op == "le":      # n <= f <=> n <= floor(f)
        return ("le", fl)
    if op == "gt":      # n > f  <=> n > floor(f)
        return ("gt", fl)
    if op == "ge":
        return ("ge", ce)
    if op == "eq":
        return ("eq", fl) if fl == ce else False
    if op == "ne":
        return ("ne", fl) if fl == ce else True
    raise AssertionError(op)


_OPS = {
    "lt": lambda a, b: a < b,
    "le": lambda a, b: a <= b,
    "gt": lambda a, b: a > b,
    "ge": lambda a, b: a >= b,
    "eq": lambda a, b: a == b,
    "ne": lambda a, b: a != b,
}


class SInt:
    """symbolic Python int"""

    __slots__ = ("z",)

    def __init__(self, zt):
        self.z = zt

    # -- arithmetic -----------------------------------------------------
    def _bin(self, o, f, rev=False):
        oz = _z(o)
        if oz is None:
            if isinstance(o, float):
                if o.is_integer() and abs(o) < 2 ** 53:
                    # int (op) integral float: exact while below 2**53
                    r = SRatio.make(f(z3.IntVal(int(o)), self.z) if rev else f(self.z, z3.IntVal(int(o))), z3.IntVal(1))
                    if r is not None:
                        return r
                me = float(self)
                return f(o, me) if rev else f(me, o)
            return NotImplemented
        return SInt(f(oz, self.z) if rev else f(self.z, oz))

    def __add__(s, o): return s._bin(o, lambda a, b: a + b)
    def __radd__(s, o): return s._bin(o, lambda a, b: a + b, True)
    def __sub__(s, o): return s._bin(o, lambda a, b: a - b)
    def __rsub__(s, o): return s._bin(o, lambda a, b: a - b, True)

    def __mul__(s, o):
        if isinstance(o, (str, bytes, list, tuple)):
            return o * s.__index__()
        return s._bin(o, lambda a, b: a * b)

    def __rmul__(s, o):
        if isinstance(o, (str, bytes, list, tuple)):
            return o * s.__index__()
        return s._bin(o, lambda a, b: a * b, True)

    def __neg__(s): return SInt(-s.z)
    def __pos__(s): return s
    def __abs__(s): return SInt(z3.If(s.z >= 0, s.z, -s.z))
    def __invert__(s): return SInt(-s.z - 1)

    def _div(self, o, rev, f):
        oz = _z(o)
        if oz is None:
            if isinstance(o, float):
                me = float(self)
                return (o // me) if rev else (me // o)
            return NotImplemented
        a, b = (oz, self.z) if rev else (self.z, oz)
        if ENG.branch(b == 0):
            raise ZeroDivisionError("integer division or modulo by zero")
        return SInt(f(a, b))

    def __floordiv__(s, o): return s._div(o, False, _pyfloordiv)
    def __rfloordiv__(s, o): return s._div(o, True, _pyfloordiv)

    def __mod__(s, o):
        if isinstance(o, float):
            return float(s) % o
        return s._div(o, False, _pymod)

    def __rmod__(s, o):
        if isinstance(o, float):
            return o % float(s)
        return s._div(o, True, _pymod)

    def __divmod__(s, o): return (s // o, s % o)
    def __rdivmod__(s, o): return (o // s, o % s)

    def __truediv__(s, o):
        # int / int -> float.  Kept as the exact rational (SRatio) while both
        # operands are provably below 2**53 (then every use SRatio supports
        # -- ceil/floor/trunc/compare-with-int -- is exact, see SRatio);
        # anything else concretises and uses CPython's IEEE arithmetic.
        if isinstance(o, (SInt, int)) and not isinstance(o, bool):
            r = SRatio.make(s.z, _z(o))
            if r is not None:
                return r
        if isinstance(o, SInt):
            o = o.__index__()
        return s.__index__() / o

    def __rtruediv__(s, o):
        if isinstance(o, int) and not isinstance(o, bool):
            r = SRatio.make(_z(o), s.z)
            if r is not None:
                return r
        if isinstance(o, SInt):
            o = o.__index__()
        return o / s.__index__()

    def __pow__(s, o, mod=None):
        if mod is None and isinstance(o, int) and not isinstance(o, bool) and 0 <= o <= 3:
            r = z3.IntVal(1)
            for _ in range(o):
                r = r * s.z
            return SInt(r)
        if isinstance(o, SInt):
            o = o.__index__()
        return pow(s.__index__(), o, mod) if mod is not None else s.__index__() ** o

    def __rpow__(s, o):
        return o ** s.__index__()

    def __lshift__(s, o):
        if isinstance(o, SInt):
            o = o.__index__()
        if isinstance(o, int) and 0 <= o <= 64:
            return SInt(s.z * (1 << o))
        return s.__index__() << o

    def __rlshift__(s, o): return o << s.__index__()

    def __rshift__(s, o):
        if isinstance(o, SInt):
            o = o.__index__()
        if isinstance(o, int) and 0 <= o <= 64:
            return s // (1 << o)
        return s.__index__() >> o

    def __rrshift__(s, o): return o >> s.__index__()

    def _bitop(s, o, f):
        if isinstance(o, SInt):
            o = o.__index__()
        return f(s.__index__(), o)

    def __and__(s, o): return s._bitop(o, lambda a, b: a & b)
    __rand__ = __and__
    def __or__(s, o): return s._bitop(o, lambda a, b: a | b)
    __ror__ = __or__
    def __xor__(s, o): return s._bitop(o, lambda a, b: a ^ b)
    __rxor__ = __xor__

    # -- comparisons ----------------------------------------------------
    def _cmp(self, o, op):
        oz = _z(o)
        if oz is None:
            if isinstance(o, float):
                fb = _float_bound(o, op)
                if isinstance(fb, bool):
                    return fb
                op, c = fb
                oz = z3.IntVal(c)
            elif isinstance(o, SBool):
                oz = z3.If(o.z, z3.IntVal(1), z3.IntVal(0))
            else:
                return NotImplemented
        r = _OPS[op](self.z, oz)
        if ENG.lazy_depth:
            return SBool(r)
        return ENG.branch(r)

    def __eq__(s, o):
        r = s._cmp(o, "eq")
        return False if r is NotImplemented else r

    def __ne__(s, o):
        r = s._cmp(o, "ne")
        return True if r is NotImplemented else r

    def __lt__(s, o): return s._cmp(o, "lt")
    def __le__(s, o): return s._cmp(o, "le")
    def __gt__(s, o): return s._cmp(o, "gt")
    def __ge__(s, o): return s._cmp(o, "ge")

    def __bool__(s): return ENG.branch(s.z != 0)

    # -- C boundary: concretise -------------------------------------------
    def __index__(s): return ENG.concretize(s.z)
    def __hash__(s): return hash(ENG.concretize(s.z))
    def __float__(s): return float(ENG.concretize(s.z))
    def _len_faithful(s):
        """placeholder with the right number of characters: forks on the sign and the digit count only"""
        neg = ENG.branch(s.z < 0)
        a = -s.z if neg else s.z
        d = 1
        while d < 80 and ENG.branch(a >= 10 ** d):
            d += 1
        return ("-" if neg else "") + "9" * d

    def __str__(s):
        # harnesses whose code under test only formats numbers into messages set eng.opaque_str (listed as a stub);
        # opaque_str == "len" keeps the length of the decimal rendering faithful (for code whose result's length is the subject)
        mode = getattr(ENG, "opaque_str", False)
        if mode == "len":
            return s._len_faithful()
        if mode:
            return "<sym>"
        return str(ENG.concretize(s.z))

    def __format__(s, spec):
        mode = getattr(ENG, "opaque_str", False)
        if mode == "len" and spec == "":
            return s._len_faithful()
        if mode and mode != "len":
            return "<sym>"
        return format(ENG.concretize(s.z), spec)
    def __repr__(s): return f"SInt({z3.simplify(s.z)})"
    def bit_length(s): return ENG.concretize(s.z).bit_length()

    # -- int protocol that can stay symbolic ------------------------------
    def __int__(s): return s       # NB: int(x) needs a module-level shim
    def __trunc__(s): return s
    def __floor__(s): return s
    def __ceil__(s): return s
    def __round__(s, n=None):
        if n is None or (isinstance(n, int) and n >= 0):
            return s
        return round(s.__index__(), n)
    def conjugate(s): return s
    def is_integer(s): return True
    real = property(lambda s: s)
    imag = property(lambda s: 0)
    numerator = property(lambda s: s)
    denominator = property(lambda s: 1)

    def __reduce__(s):
        return (int, (s.__index__(),))

    def __deepcopy__(s, memo):
        return s

    def __copy__(s):
        return s


numbers.Integral.register(SInt)


_LIM53 = 2 ** 53


class SRatio:
    """a Python *float* known to equal fl(num/den) with |num|, |den| < 2**53.

    Lemma used (stated in DESIGN.md): for integers |a| < 2**53 and b != 0,
    a/b is either an integer (then fl(a/b) is exact) or at distance >= 1/|b|
    from every integer while |fl(a/b) - a/b| <= |a/b| * 2**-53 < 1/|b|; hence
    ceil, floor, trunc and comparison with an integer give the same answer on
    fl(a/b) as on the exact rational.  Those are the only operations kept
    symbolic; + and - with integers are kept only while den == 1 (integral
    float below 2**53: exact).  Everything else concretises num and den and
    continues with CPython's own float.
    """

    __slots__ = ("n", "d")

    def __init__(self, n, d):
        self.n, self.d = n, d

    @staticmethod
    def make(n, d):
        eng = ENG
        if eng is None or getattr(eng, "mode", "") != "sym":
            return None
        n = z3.simplify(n)
        d = z3.simplify(d)
        # provably small?
        big = z3.Or(n >= _LIM53, n <= -_LIM53, d >= _LIM53, d <= -_LIM53)
        if eng._check(big):
            return None
        if not z3.is_int_value(d) or d.as_long() == 0:
            if eng.branch(d == 0):
                raise ZeroDivisionError("division by zero")
        return SRatio(n, d)

    def _float(self):
        n = ENG.concretize(self.n)
        d = ENG.concretize(self.d)
        return n / d

    def __float__(self): return self._float()

    def _den1(self):
        return z3.is_int_value(self.d) and self.d.as_long() == 1

    def _addsub(self, o, sign, rev):
        oz = _z(o)
        if oz is None and isinstance(o, float) and o.is_integer() and abs(o) < _LIM53:
            oz = z3.IntVal(int(o))
        if oz is None and isinstance(o, SRatio) and o._den1():
            oz = o.n
        if oz is not None and self._den1():
            if rev:
                n = oz + self.n if sign > 0 else oz - self.n
            else:
                n = self.n + oz if sign > 0 else self.n - oz
            r = SRatio.make(n, z3.IntVal(1))
            if r is not None:
                return r
        me = self._float()
        if isinstance(o, (SInt, SRatio)):
            o = float(o)
        if rev:
            return o + me if sign > 0 else o - me
        return me + o if sign > 0 else me - o

    def __add__(s, o): return s._addsub(o, 1, False)
    def __radd__(s, o): return s._addsub(o, 1, True)
    def __sub__(s, o): return s._addsub(o, -1, False)
    def __rsub__(s, o): return s._addsub(o, -1, True)

    def __mul__(s, o):
        oz = _z(o)
        if oz is not None and s._den1():
            r = SRatio.make(s.n * oz, z3.IntVal(1))
            if r is not None:
                return r
        if isinstance(o, int) and not isinstance(o, bool) and o > 0 and (o & (o - 1)) == 0:
            # multiplying a double by a power of two is exact: fl(n/d) * 2**k == fl(2**k * n / d)
            r = SRatio.make(s.n * o, s.d)
            if r is not None:
                return r
        if isinstance(o, (SInt, SRatio)):
            o = float(o)
        return s._float() * o

    __rmul__ = __mul__

    def __truediv__(s, o):
        oz = _z(o)
        if oz is None and isinstance(o, SRatio) and o._den1():
            oz = o.n
        if oz is not None and s._den1():
            r = SRatio.make(s.n, oz)
            if r is not None:
                return r
        if isinstance(o, (SInt, SRatio)):
            o = float(o)
        return s._float() / o

    def __rtruediv__(s, o):
        if isinstance(o, (SInt, SRatio)):
            o = float(o)
        return o / s._float()

    def __pow__(s, o, mod=None):
        if mod is None and isinstance(o, (int, float)) and not isinstance(o, bool) and o == 1:
            return s            # x ** 1 and x ** 1.0 are exact
        if isinstance(o, (SInt, SRatio)):
            o = float(o)
        return s._float() ** o

    def __rpow__(s, o):
        if isinstance(o, (SInt, SRatio)):
            o = float(o)
        return o ** s._float()

    def _conc2(s, o, f, rev=False):
        if isinstance(o, SInt):
            o = o.__index__()
        elif isinstance(o, SRatio):
            o = o._float()
        me = s._float()
        return f(o, me) if rev else f(me, o)

    def __floordiv__(s, o): return s._conc2(o, lambda a, b: a // b)
    def __rfloordiv__(s, o): return s._conc2(o, lambda a, b: a // b, True)
    def __mod__(s, o): return s._conc2(o, lambda a, b: a % b)
    def __rmod__(s, o): return s._conc2(o, lambda a, b: a % b, True)
    def __divmod__(s, o): return s._conc2(o, divmod)
    def __rdivmod__(s, o): return s._conc2(o, divmod, True)

    def __neg__(s): return SRatio(-s.n, s.d)
    def __pos__(s): return s

    def __abs__(s):
        return SRatio(z3.If(s.n >= 0, s.n, -s.n), z3.If(s.d >= 0, s.d, -s.d))

    # exact integer roundings (see lemma)
    def __floor__(s): return SInt(_pyfloordiv(s.n, s.d))
    def __ceil__(s): return SInt(-_pyfloordiv(-s.n, s.d))

    def __trunc__(s):
        q = _pyfloordiv(s.n, s.d)
        qc = -_pyfloordiv(-s.n, s.d)
        neg = z3.Or(z3.And(s.n < 0, s.d > 0), z3.And(s.n > 0, s.d < 0))
        return SInt(z3.If(neg, qc, q))

    def __int__(s):
        # the builtin int() insists on a real int: concretise (modules whose int() should stay symbolic bind the name `int` to ShimInt,
        # which calls __trunc__ instead)
        return int(s._float())

    def is_integer(s):
        return ENG.branch(s.n % s.d == 0)

    def _cmp(self, o, op):
        oz = _z(o)
        if oz is None and isinstance(o, float) and o.is_integer() and abs(o) < _LIM53:
            oz = z3.IntVal(int(o))
        if oz is None and isinstance(o, SRatio) and o._den1():
            oz = o.n
        if oz is None:
            if isinstance(o, (float, SRatio)):
                return getattr(self._float(), f"__{op}__")(float(o))
            return NotImplemented
        pos = self.d > 0
        a, b = self.n, oz * self.d
        if op in ("eq", "ne"):
            r = _OPS[op](a, b)
        else:
            flip = {"lt": "gt", "le": "ge", "gt": "lt", "ge": "le"}[op]
            r = z3.If(pos, _OPS[op](a, b), _OPS[flip](a, b))
        if ENG.lazy_depth:
            return SBool(r)
        return ENG.branch(r)

    def __eq__(s, o):
        r = s._cmp(o, "eq")
        return False if r is NotImplemented else r

    def __ne__(s, o):
        r = s._cmp(o, "ne")
        return True if r is NotImplemented else r

    def __lt__(s, o): return s._cmp(o, "lt")
    def __le__(s, o): return s._cmp(o, "le")
    def __gt__(s, o): return s._cmp(o, "gt")
    def __ge__(s, o): return s._cmp(o, "ge")
    def __bool__(s): return ENG.branch(s.n != 0)
    def __hash__(s): return hash(s._float())
    def __repr__(s): return f"SRatio({z3.simplify(s.n)}/{z3.simplify(s.d)})"
    def __str__(s): return str(s._float())
    def __format__(s, spec): return format(s._float(), spec)

    def __round__(s, nd=None):
        if nd is None:
            return round(s._float())
        return round(s._float(), nd)


numbers.Real.register(SRatio)


def sym_int(x):
    """module-level shim for the builtin `int` (keeps SInt symbolic)"""
    if isinstance(x, SInt):
        return x
    if isinstance(x, SRatio):
        return x.__trunc__()
    return int(x)


class IntShim(type):
    """metaclass so that `isinstance(x, ShimInt)` accepts SInt and the shim can
    also be *called* like int"""

    def __instancecheck__(cls, obj):
        return isinstance(obj, (int, SInt))

    def __subclasscheck__(cls, sub):
        return issubclass(sub, int) or sub is SInt


class ShimInt(int, metaclass=IntShim):
    """drop-in replacement for the name `int` in a module under test"""

    def __new__(cls, x=0, *a):
        if isinstance(x, SInt):
            return x
        if isinstance(x, SRatio):
            return x.__trunc__()
        return int(x, *a)


# ----------------------------------------------------------------------------


class Engine:
    """one path of symbolic execution"""

    mode = "sym"

    def __init__(self, prefix=(), timeout_ms=20000):
        self.solver = z3.Solver()
        self.solver.set("timeout", timeout_ms)
        self.prefix = list(prefix)
        self.trail = []    # [(decision, alternative-or-None)]
        self.pos = 0
        self.nqueries = 0
        self.solver_s = 0.0
        self.vars = {}     # name -> z3 var (declaration order)
        self.bounds = {}
        self.lazy_depth = 0
        self._model = None
        self.nforks = 0
        self.nconc = 0
        self.notes = {}
        self.twin = False
        self.nchecks = 0

    # -- solver access ----------------------------------------------------
    def _check(self, *extra):
        t0 = time.perf_counter()
        self.nqueries += 1
        r = self.solver.check(*extra)
        self.solver_s += time.perf_counter() - t0
        if r == z3.unknown:
            raise Inconclusive(f"solver unknown: {self.solver.reason_unknown()}")
        return r == z3.sat

    def _get_model(self):
        if self._model is None:
            if not self._check():
                raise PathAbort()
            self._model = self.solver.model()
        return self._model

    def _add(self, c):
        self.solver.add(c)
        if self._model is not None:
            v = self._model.eval(c, model_completion=True)
            if not z3.is_true(v):
                self._model = None

    # -- declaring inputs -------------------------------------------------
    def int(self, name, lo=None, hi=None):
        if name in self.vars:
            raise HarnessError(f"duplicate variable {name}")
        v = z3.Int(name)
        self.vars[name] = v
        self.bounds[name] = (lo, hi)
        if lo is not None:
            self._add(v >= lo)
        if hi is not None:
            self._add(v <= hi)
        return SInt(v)

    def choice(self, name, n):
        """shape variable in range(n): declared symbolic, concretised at once
        (solver-driven enumeration; feasibility pruning only)"""
        if n <= 1:
            self.notes.setdefault("trivial_choices", 0)
            return 0
        return self.int(name, 0, n - 1).__index__()

    def flag(self, name):
        return bool(self.choice(name, 2))

    def pick(self, name, seq):
        seq = list(seq)
        return seq[self.choice(name, len(seq))]

    # -- lazy sections ------------------------------------------------------
    def _lazy_eval(self, fn):
        if not callable(fn):
            return fn
        self.lazy_depth += 1
        try:
            return fn()
        finally:
            self.lazy_depth -= 1

    def assume(self, cond):
        """cond: callable evaluated lazily (comparisons of SInt give SBool),
        or an already decided python bool"""
        c = self._lazy_eval(cond)
        if isinstance(c, SBool):
            c = z3.simplify(c.z)
            if z3.is_true(c):
                return
            if z3.is_false(c):
                raise PathAbort()
            if self.pos < len(self.prefix):
                self._add(c)       # known feasible: we are replaying
                return
            self._add(c)
            self._get_model()      # raises PathAbort if unsat
            return
        if not c:
            raise PathAbort()

    def check(self, cond, msg="assertion failed", **info):
        """property assertion.  callable => decided without forking: if the
        negation is feasible the path is a violation (with that model)."""
        self.nchecks += 1
        if self.twin:
            raise TwinReached()
        c = self._lazy_eval(cond)
        if isinstance(c, SBool):
            c = z3.simplify(c.z)
            if z3.is_true(c):
                return
            neg = z3.Not(c)
            if z3.is_false(c) or self._check(neg):
                self._add(neg)
                self._model = None
                raise Violation(msg)
            self._add(c)
            return
        if not c:
            raise Violation(msg)

    def equal(self, a, b):
        """structural deep equality as an SBool (no forking)"""
        return SBool(_deep_eq(a, b))

    def implies(self, a, b):
        return SBool(z3.Implies(_zb(a), _zb(b)))

    def ite(self, c, a, b):
        c = self._lazy_eval(c)
        if isinstance(c, SBool):
            return SInt(z3.If(c.z, _z(a), _z(b)))
        return a if c else b

    # -- forking ------------------------------------------------------------
    def branch(self, cond):
        cond = z3.simplify(cond)
        if z3.is_true(cond):
            return True
        if z3.is_false(cond):
            return False
        if self.pos < len(self.prefix):
            kind, d = self.prefix[self.pos]
            if kind != "b":
                raise HarnessError(f"non-deterministic replay: expected branch, prefix has {kind}")
            self.pos += 1
            self.trail.append((("b", d), None))
            self._add(cond if d else z3.Not(cond))
            return d
        m = self._get_model()
        d = z3.is_true(m.eval(cond, model_completion=True))
        other = z3.Not(cond) if d else cond
        alt = ("b", (not d)) if self._check(other) else None
        self.trail.append((("b", d), alt))
        self.pos += 1
        if alt is not None:
            self.nforks += 1
        self.solver.add(cond if d else z3.Not(cond))   # model stays valid
        return d

    def concretize(self, e):
        e = z3.simplify(e)
        if z3.is_int_value(e):
            return e.as_long()
        while True:
            if self.pos < len(self.prefix):
                kind, v = self.prefix[self.pos]
                self.pos += 1
                self.trail.append(((kind, v), None))
                if kind == "eq":
                    self._add(e == v)
                    return v
                if kind != "ne":
                    raise HarnessError(f"non-deterministic replay: expected concretise, prefix has {kind}")
                self._add(e != v)
                continue
            m = self._get_model()
            v = m.eval(e, model_completion=True).as_long()
            alt = ("ne", v) if self._check(e != v) else None
            self.trail.append((("eq", v), alt))
            self.pos += 1
            if alt is not None:
                self.nconc += 1
            self.solver.add(e == v)
            return v

    # -- results --------------------------------------------------------------
    def model(self):
        m = self._get_model()
        out = {}
        for name, v in self.vars.items():
            out[name] = m.eval(v, model_completion=True).as_long()
        return out

    def second_model(self, first):
        """a model differing from `first` in at least one variable, if any"""
        if not self.vars:
            return None
        diff = z3.Or([v != first[n] for n, v in self.vars.items()])
        self.solver.push()
        try:
            self.solver.add(diff)
            # prefer extremes: try to push every variable away
            if not self._check():
                return None
            m = self.solver.model()
            return {n: m.eval(v, model_completion=True).as_long() for n, v in self.vars.items()}
        finally:
            self.solver.pop()

    def extreme_model(self, first):
        """model maximising the number of variables that differ from `first`
        (greedy) -- used for per-path native validation diversity"""
        if not self.vars:
            return None
        self.solver.push()
        try:
            got = None
            for n, v in self.vars.items():
                self.solver.push()
                self.solver.add(v != first[n])
                if self._check():
                    got = self.solver.model()
                    # keep constraint
                    self.solver.pop()
                    self.solver.add(v != first[n])
                else:
                    self.solver.pop()
            if got is None:
                return None
            if not self._check():
                return None
            m = self.solver.model()
            return {n: m.eval(v, model_completion=True).as_long() for n, v in self.vars.items()}
        finally:
            self.solver.pop()

    def concretise_obs(self, obs, model=None):
        m = self._get_model()
        return _conc(obs, m)


def _conc(o, m):
    if isinstance(o, SInt):
        return m.eval(o.z, model_completion=True).as_long()
    if isinstance(o, SBool):
        return z3.is_true(m.eval(o.z, model_completion=True))
    if isinstance(o, SRatio):
        return m.eval(o.n, model_completion=True).as_long() / m.eval(o.d, model_completion=True).as_long()
    if isinstance(o, tuple):
        return tuple(_conc(x, m) for x in o)
    if isinstance(o, list):
        return [_conc(x, m) for x in o]
    if isinstance(o, dict):
        return {_conc(k, m): _conc(v, m) for k, v in o.items()}
    if isinstance(o, (set, frozenset)):
        return sorted((_conc(x, m) for x in o), key=repr)
    if isinstance(o, slice):
        return ("slice", _conc(o.start, m), _conc(o.stop, m), _conc(o.step, m))
    return o


def normalise_obs(o):
    """native side of _conc (same canonical forms)"""
    if isinstance(o, bool) or o is None:
        return o
    if isinstance(o, tuple):
        return tuple(normalise_obs(x) for x in o)
    if isinstance(o, list):
        return [normalise_obs(x) for x in o]
    if isinstance(o, dict):
        return {normalise_obs(k): normalise_obs(v) for k, v in o.items()}
    if isinstance(o, (set, frozenset)):
        return sorted((normalise_obs(x) for x in o), key=repr)
    if isinstance(o, slice):
        return ("slice", normalise_obs(o.start), normalise_obs(o.stop), normalise_obs(o.step))
    return o


def _deep_eq(a, b):
    za, zb = _z(a), _z(b)
    if za is not None and zb is not None:
        return za == zb
    if isinstance(a, SBool) or isinstance(b, SBool):
        return _zb(a) == _zb(b)
    if isinstance(a, (tuple, list)) and isinstance(b, (tuple, list)):
        if type(a) is not type(b) or len(a) != len(b):
            return z3.BoolVal(False)
        return z3.And([_deep_eq(x, y) for x, y in zip(a, b)]) if a else z3.BoolVal(True)
    if isinstance(a, dict) and isinstance(b, dict):
        if len(a) != len(b):
            return z3.BoolVal(False)
        # keys must be concrete
        try:
            if set(a) != set(b):
                return z3.BoolVal(False)
        except TypeError:
            return z3.BoolVal(False)
        return z3.And([_deep_eq(a[k], b[k]) for k in a]) if a else z3.BoolVal(True)
    if isinstance(a, (set, frozenset)) and isinstance(b, (set, frozenset)):
        return z3.BoolVal(a == b)
    if isinstance(a, slice) and isinstance(b, slice):
        return z3.And(_deep_eq(a.start, b.start), _deep_eq(a.stop, b.stop), _deep_eq(a.step, b.step))
    if (za is None) != (zb is None):
        # int vs non-int
        if isinstance(a, float) or isinstance(b, float):
            f, other = (a, zb) if isinstance(a, float) else (b, za)
            if f == int(f):
                return other == int(f)
        return z3.BoolVal(False)
    try:
        return z3.BoolVal(bool(a == b))
    except Exception:
        return z3.BoolVal(False)


class NativeEngine:
    """replays one model with plain Python ints on the unpatched code"""

    mode = "native"
    lazy_depth = 0

    def __init__(self, model):
        self.m = dict(model)
        self.used = set()
        self.notes = {}

    def int(self, name, lo=None, hi=None):
        if name not in self.m:
            raise HarnessError(f"native replay diverged: variable {name} not in model")
        v = self.m[name]
        if (lo is not None and v < lo) or (hi is not None and v > hi):
            raise HarnessError(f"model value {name}={v} outside [{lo},{hi}]")
        self.used.add(name)
        return v

    def choice(self, name, n):
        if n <= 1:
            return 0
        return self.int(name, 0, n - 1)

    def flag(self, name):
        return bool(self.choice(name, 2))

    def pick(self, name, seq):
        seq = list(seq)
        return seq[self.choice(name, len(seq))]

    def assume(self, cond):
        c = cond() if callable(cond) else cond
        if not c:
            raise HarnessError("native replay: assumption false under the solver's model")

    def check(self, cond, msg="assertion failed", **info):
        c = cond() if callable(cond) else cond
        if not c:
            raise Violation(msg)

    def equal(self, a, b):
        return normalise_obs(a) == normalise_obs(b)

    def implies(self, a, b):
        return (not a) or bool(b)

    def ite(self, c, a, b):
        c = c() if callable(c) else c
        return a if c else b
