"""patch table helpers: module-global shims and AST rewrites, applied only for
the duration of a symbolic path and restored afterwards.  Nothing is written
to /repo; rewritten functions are re-read from the current source each run."""
from __future__ import annotations

import ast
import contextlib
import inspect
import math
import textwrap

from .core import SInt, ShimInt, sym_int


def py_indices(s, n):
    """PySlice_Unpack + PySlice_AdjustIndices (CPython Objects/sliceobject.c)
    re-implemented in Python so that operands stay symbolic"""
    step = 1 if s.step is None else s.step
    if step == 0:
        raise ValueError("slice step cannot be zero")
    if s.start is None:
        start = n - 1 if step < 0 else 0
    else:
        start = s.start
        if start < 0:
            start = start + n
            if start < 0:
                start = -1 if step < 0 else 0
        elif start >= n:
            start = n - 1 if step < 0 else n
    if s.stop is None:
        stop = -1 if step < 0 else n
    else:
        stop = s.stop
        if stop < 0:
            stop = stop + n
            if stop < 0:
                stop = -1 if step < 0 else 0
        elif stop >= n:
            stop = n - 1 if step < 0 else n
    return start, stop, step


def slice_len(start, stop, step):
    """len(range(start, stop, step)) for adjusted indices (symbolic-friendly)"""
    if step > 0:
        return (stop - start + step - 1) // step if start < stop else 0
    return (start - stop - step - 1) // (-step) if stop < start else 0


class _IndicesRewriter(ast.NodeTransformer):
    def visit_Call(self, node):
        self.generic_visit(node)
        if (isinstance(node.func, ast.Attribute) and node.func.attr == "indices"
                and len(node.args) == 1 and not node.keywords):
            return ast.Call(func=ast.Name(id="__symx_indices", ctx=ast.Load()),
                            args=[node.func.value, node.args[0]], keywords=[])
        return node


def rewritten(mod, fname, transformer=_IndicesRewriter):
    """re-read fname's source from the module's file and return the rewritten
    function object (compiled in the module's globals)"""
    f = getattr(mod, fname)
    f0 = inspect.unwrap(f)
    src = textwrap.dedent(inspect.getsource(f0))
    tree = ast.parse(src)
    # drop decorators (we re-wrap nothing: callers patch the plain function)
    for node in tree.body:
        if isinstance(node, ast.FunctionDef):
            node.decorator_list = []
    tree = transformer().visit(tree)
    ast.fix_missing_locations(tree)
    ns = {}
    g = dict(mod.__dict__)
    g["__symx_indices"] = py_indices
    code = compile(tree, f"<symx-rewrite:{mod.__name__}.{fname}>", "exec")
    # exec in the *module's* globals so later patches of module globals are seen
    mod.__dict__["__symx_indices"] = py_indices
    exec(code, mod.__dict__, ns)
    return ns[fname]


class ModuleShim:
    """stands in for a module object (e.g. `math`, `np`) inside a module under
    test; selected attributes are overridden, the rest delegated"""

    def __init__(self, real, **over):
        self.__dict__["_real"] = real
        self.__dict__["_over"] = over

    def __getattr__(self, k):
        o = self.__dict__["_over"]
        if k in o:
            return o[k]
        return getattr(self.__dict__["_real"], k)


def _isnan(real):
    def isnan(x):
        if isinstance(x, SInt):
            return False
        return real(x)
    return isnan


def math_shim():
    def ceil(x):
        return x if isinstance(x, SInt) else math.ceil(x)

    def floor(x):
        return x if isinstance(x, SInt) else math.floor(x)

    return ModuleShim(math, isnan=_isnan(math.isnan), ceil=ceil, floor=floor)


def np_shim():
    import numpy as np
    return ModuleShim(np, isnan=_isnan(np.isnan))


@contextlib.contextmanager
def patched(*triples):
    """triples: (module_or_object, attribute, replacement)"""
    saved = []
    missing = object()
    try:
        for obj, attr, new in triples:
            d = obj.__dict__ if hasattr(obj, "__dict__") else None
            old = d.get(attr, missing) if isinstance(d, dict) else getattr(obj, attr, missing)
            saved.append((obj, attr, old))
            setattr(obj, attr, new)
        yield
    finally:
        for obj, attr, old in reversed(saved):
            if old is missing:
                try:
                    delattr(obj, attr)
                except AttributeError:
                    pass
            else:
                setattr(obj, attr, old)


INT_SHIM = ShimInt
