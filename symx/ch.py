"""CrossHair driver for free-form `str` kernels (symx has no string theory).

A contract module holds functions `c_<name>(...) -> bool` whose PEP-316
postcondition is `_` (the function returns the verdict of the property), and
for each a reachability twin `t_<name>` with postcondition `not _` that must
come back with a counterexample.  Each condition runs in its own
`crosshair check --report_all` process under a fixed per-condition timeout.
"Confirmed over all paths" = discharged; a counterexample is replayed natively
(the call is evaluated in the contract module) before it counts; anything
else is inconclusive and reported as such.
"""
from __future__ import annotations

import ast
import importlib
import os
import re
import subprocess
import sys
import time
from concurrent.futures import ThreadPoolExecutor

ROOT = os.path.dirname(os.path.dirname(os.path.abspath(__file__)))


def _lines(pyfile):
    tree = ast.parse(open(pyfile).read())
    return {n.name: n.lineno + 1 for n in tree.body if isinstance(n, ast.FunctionDef)}


def _run_one(pyfile, name, line, timeout):
    exe = os.path.join(os.path.dirname(sys.executable), "crosshair")
    env = dict(os.environ)
    env["PYTHONPATH"] = f"{ROOT}:{os.environ.get('VERIF_REPO', '/repo')}:" + env.get("PYTHONPATH", "")
    cmd = [exe, "check", "--report_all", "--per_condition_timeout", str(timeout),
           "--per_path_timeout", str(max(2.0, timeout / 4)), f"{pyfile}:{line}"]
    t0 = time.time()
    try:
        p = subprocess.run(cmd, capture_output=True, text=True, env=env, timeout=timeout * 3 + 60)
        out = p.stdout + p.stderr
    except subprocess.TimeoutExpired:
        out = "TIMEOUT"
    return name, out, time.time() - t0


def classify(out):
    if "Confirmed over all paths" in out:
        return "confirmed", None
    m = re.search(r"error: (false|.*?) when calling (.*?)(?: \(which returns|$)", out, re.M)
    if m and "error:" in out:
        m2 = re.search(r"when calling (.*?)(?: \(which returns .*\))?\s*$", out, re.M)
        return "counterexample", (m2.group(1).strip() if m2 else m.group(2).strip())
    if "Unable to meet precondition" in out:
        return "unreachable", None
    return "unknown", None


def run_contracts(modname, names, timeout, known=(), property_id="", hunt_only=False):
    """returns the `extra` dict merged into the evidence by symx.cli"""
    mod = importlib.import_module(modname)
    pyfile = mod.__file__
    lines = _lines(pyfile)
    jobs = []
    for n in names:
        jobs.append((f"c_{n}", lines[f"c_{n}"]))
        jobs.append((f"t_{n}", lines[f"t_{n}"]))
    res = {}
    t0 = time.time()
    with ThreadPoolExecutor(max_workers=min(16, len(jobs))) as ex:
        for name, out, dt in ex.map(lambda j: _run_one(pyfile, j[0], j[1], timeout), jobs):
            res[name] = (out, dt)
    extra = dict(violations=[], known=[], errors=[], obligations=len(names), discharged=0, inconclusive=[],
                 samples=[], evaluations=0, distinct_nontrivial=0, solver_s=round(sum(dt for _, dt in res.values()), 2),
                 coverage=dict(engine="crosshair-tool (z3), one process per condition", per_condition_timeout_s=timeout, conditions={}))
    for n in names:
        st, call = classify(res[f"c_{n}"][0])
        tst, tcall = classify(res[f"t_{n}"][0])
        info = dict(status=st, twin=tst, seconds=round(res[f"c_{n}"][1], 1))
        extra["coverage"]["conditions"][n] = info
        if tst != "counterexample":
            info["note"] = "reachability twin did not produce a witness: result treated as inconclusive"
        if st == "confirmed" and tst == "counterexample":
            extra["discharged"] += 1
            extra["samples"].append(dict(condition=n, twin_witness=tcall))
        elif st == "counterexample":
            # replay natively: evaluate the reported call in the contract module
            try:
                ok = eval(call, dict(mod.__dict__))
            except Exception as ex:
                ok = f"{type(ex).__name__}: {ex}"
            info["counterexample"] = call
            if ok is True:
                extra["errors"].append(dict(obligation=f"crosshair:{n}", msg=f"counterexample does not reproduce natively: {call}"))
                continue
            rec = dict(obligation=f"crosshair:{n}", model=dict(call=call), msg=f"{n}: property false for {call} (native replay: {ok})",
                       kind="crosshair", module=modname)
            kf = None
            for k in known:
                if k.get("obligation") == f"crosshair:{n}":
                    try:
                        args = _call_args(mod, call)
                        if eval(k["pred"], {"__builtins__": {"len": len}}, args):
                            kf = k
                    except Exception:
                        pass
            if kf is not None:
                rec["known"] = kf["id"]
                extra["known"].append(rec)
                # CrossHair stops at its first counterexample; the rest of the space stays unexplored,
                # so this condition is inconclusive beyond the listed finding
                extra["inconclusive"].append(f"crosshair:{n} (stopped at a listed known finding)")
            else:
                extra["violations"].append(rec)
        else:
            extra["inconclusive"].append(f"crosshair:{n} ({st})")
    extra["evaluations"] = len(names)
    extra["distinct_nontrivial"] = extra["discharged"]
    if hunt_only:
        # time-boxed counterexample search over free strings: reported, but not counted as obligations
        # (a condition that comes back 'Confirmed' is still listed under coverage.conditions)
        extra["coverage"]["role"] = "bug-hunt only: not counted among the obligations"
        extra["coverage"]["not_confirmed"] = list(extra["inconclusive"])
        extra["obligations"] = 0
        extra["discharged"] = 0
        extra["inconclusive"] = []
    return extra


def _call_args(mod, call):
    """{'argname': value} of a reported call string like  c_x('a', 'b')"""
    tree = ast.parse(call, mode="eval").body
    fn = getattr(mod, tree.func.id)
    import inspect
    params = list(inspect.signature(fn).parameters)
    vals = [ast.literal_eval(a) for a in tree.args]
    d = dict(zip(params, vals))
    for kw in tree.keywords:
        d[kw.arg] = ast.literal_eval(kw.value)
    return d


def replay(rec):
    mod = importlib.import_module(rec["module"])
    call = rec["model"]["call"]
    try:
        ok = eval(call, dict(mod.__dict__))
    except Exception as ex:
        return False, f"{type(ex).__name__}: {ex}"
    return ok is True, f"{call} -> {ok}"
