"""check <property-id> --tier quick|thorough [--replay path]

exit 0  property held on everything explored (KNOWN-FINDING lines allowed)
exit 1  VIOLATION property=<id> replay=<path>   (replayed natively first)
exit 2  harness error (encoding disagreement, crash) -- never a violation
"""
from __future__ import annotations

import argparse
import hashlib
import importlib
import json
import os
import sys
import time

ROOT = os.path.dirname(os.path.dirname(os.path.abspath(__file__)))


def load_known(pid):
    p = os.path.join(ROOT, "known_findings.json")
    if not os.path.exists(p):
        return []
    data = json.load(open(p))
    return [k for k in data.get("findings", []) if k["property"] == pid and k.get("status", "open") == "open"]


def write_replay(pid, rec):
    d = os.path.join(ROOT, "replays")
    os.makedirs(d, exist_ok=True)
    h = hashlib.sha256(json.dumps(rec, sort_keys=True, default=str).encode()).hexdigest()[:10]
    path = os.path.join(d, f"{pid}-{h}.json")
    rec = dict(rec)
    rec["property"] = pid
    rec["replay_cmd"] = f"./check {pid} --replay {path}"
    with open(path, "w") as f:
        json.dump(rec, f, indent=1, default=str)
    return path


def main(argv=None):
    ap = argparse.ArgumentParser()
    ap.add_argument("pid")
    ap.add_argument("--tier", default=os.environ.get("VERIF_TIER", "quick"), choices=["quick", "thorough"])
    ap.add_argument("--replay")
    ap.add_argument("--jobs", type=int, default=int(os.environ.get("VERIF_JOBS", "0")) or None)
    ap.add_argument("--only", help="substring filter on obligation names (debugging; evidence not written)")
    ap.add_argument("--budget", type=float, help="override time budget (s)")
    a = ap.parse_args(argv)
    pid = a.pid.upper()
    seed = int(os.environ.get("VERIF_SEED", "0") or 0)
    os.environ.setdefault("DASK_VERIF", "1")
    sys.path.insert(0, ROOT)
    sys.setrecursionlimit(10000)
    from symx import run as R, core
    mod = importlib.import_module(f"props.{pid.lower()}")

    if a.replay:
        rec = json.load(open(a.replay))
        if hasattr(mod, "replay") and rec.get("kind") not in (None, "symx"):
            ok, msg = mod.replay(rec)
        else:
            obs = {o.name: o for t in ("quick", "thorough") for o in mod.obligations(t)}
            ob = obs[rec["obligation"]]
            model = {k: int(v) for k, v in rec["model"].items()}
            if rec.get("e2e"):
                try:
                    ob.e2e(model)
                    ok, msg = True, "e2e ok"
                except Exception as ex:
                    ok, msg = False, f"{type(ex).__name__}: {ex}"
            else:
                st, msg = R.native_run(ob, model)
                ok = st == "ok"
        print(("REPLAY-OK " if ok else "REPLAY-FAILS ") + str(msg))
        return 0 if ok else 1

    t0 = time.time()
    if hasattr(mod, "PATH_TIMEOUT_S") and not os.environ.get("VERIF_PATH_TIMEOUT"):
        R.PATH_TIMEOUT_S = float(mod.PATH_TIMEOUT_S)
    known = load_known(pid)
    obligations = mod.obligations(a.tier)
    if a.only:
        obligations = [o for o in obligations if a.only in o.name]
    budget = a.budget or getattr(mod, "BUDGET", {}).get(a.tier, 120 if a.tier == "quick" else 900)
    res = R.run_all(obligations, known, budget_s=budget, jobs=a.jobs, seed=seed,
                    chunk_paths=getattr(mod, "CHUNK_PATHS", 200),
                    timeout_ms=getattr(mod, "SOLVER_TIMEOUT_MS", 20000))
    extra = None
    if hasattr(mod, "extra") and not a.only:
        extra = mod.extra(a.tier, known, seed)      # non-symx obligations (CrossHair, direct z3)

    violations, knowns, errors, inconcl = [], [], [], []
    n_obl = len(res["obligations"])
    discharged = 0
    for o in res["obligations"]:
        violations += o["violations"]
        knowns += o["known"]
        errors += [dict(obligation=o["name"], **e) for e in o["errors"]]
        if o["twin"] is not None and not o["twin"]["reached"] and o["ok"] == 0 and not o["known"] and not o["violations"]:
            errors.append(dict(obligation=o["name"], msg="vacuous: reachability twin never reached a property assertion"))
        if o["exhausted"] and o["paths"] == 0 and not o["violations"] and not o["known"] and not o["errors"]:
            errors.append(dict(obligation=o["name"], msg="vacuous: every path was aborted by an assumption, no path completed"))
            o["errors"] = o["errors"] + [dict(msg="vacuous")]
        if o["exhausted"] and not o["violations"] and not o["errors"]:
            discharged += 1
        elif not o["violations"] and not o["errors"]:
            inconcl.append(o["name"])
    if extra:
        violations += extra.get("violations", [])
        knowns += extra.get("known", [])
        errors += extra.get("errors", [])
        n_obl += extra.get("obligations", 0)
        discharged += extra.get("discharged", 0)
        inconcl += extra.get("inconclusive", [])

    level = getattr(mod, "LEVEL", "other")
    paths = sum(o["paths"] for o in res["obligations"])
    nontriv = sum(o["nontrivial"] for o in res["obligations"])
    samples = []
    for o in res["obligations"]:
        for s in o["samples"][:1]:
            samples.append(dict(obligation=o["name"], **s))
    samples = samples[:12]
    if extra:
        samples += extra.get("samples", [])[:6]
    cov = dict(
        explanation=mod.EXPLANATION,
        evaluations=paths + (extra or {}).get("evaluations", 0),
        distinct_nontrivial=nontriv + (extra or {}).get("distinct_nontrivial", 0),
        rule=("one evaluation = one completed symbolic path (a distinct decision sequence, i.e. a distinct class of "
              "inputs); non-trivial = its path condition contains at least one solver-decided fork or concretisation"),
        samples=samples or [dict(note="no completed path")],
        obligations=n_obl,
        discharged=discharged,
        exhaustive=(discharged == n_obl),
        inconclusive=inconcl,
        paths_aborted_by_assumptions=sum(o["aborted"] for o in res["obligations"]),
        property_assertions_evaluated=sum(o["checks"] for o in res["obligations"]),
        solver_queries=sum(o["queries"] for o in res["obligations"]) + (extra or {}).get("solver_queries", 0),
        solver_s=round(sum(o["solver_s"] for o in res["obligations"]) + (extra or {}).get("solver_s", 0.0), 2),
        cpu_s=round(sum(o["cpu_s"] for o in res["obligations"]), 2),
        solver_forks=sum(o["forks"] for o in res["obligations"]),
        concretised_decisions=sum(o["concretised"] for o in res["obligations"]),
        traces_validated_against_impl=sum(o["validated"] for o in res["obligations"]),
        e2e_witnesses=sum(o["e2e"] for o in res["obligations"]) + (extra or {}).get("e2e", 0),
        reachability_twins=dict(reached=sum(1 for o in res["obligations"] if o["twin"] and o["twin"]["reached"]),
                                total=len(res["obligations"])),
        functions_encoded=[R.fn_fingerprint(f) for f in mod.functions()],
        bounds=mod.BOUNDS[a.tier] if isinstance(mod.BOUNDS, dict) and a.tier in mod.BOUNDS else mod.BOUNDS,
        stubs_and_patches=getattr(mod, "STUBS", []),
        enumerated_dimensions=getattr(mod, "ENUM", []),
        outside_claim=getattr(mod, "OUTSIDE", []),
        per_obligation=[dict(name=o["name"], paths=o["paths"], ok=o["ok"], aborted=o["aborted"], queries=o["queries"],
                             solver_s=round(o["solver_s"], 2), exhausted=o["exhausted"], twin=o["twin"],
                             validated=o["validated"], e2e=o["e2e"], known=len(o["known"]),
                             violations=len(o["violations"])) for o in res["obligations"]],
        known_findings_hit=sorted({k.get("known") for k in knowns if k.get("known")}),
        jobs=res["jobs"],
    )
    if extra:
        cov["extra"] = extra.get("coverage", {})
    if level == "model_checking" and hasattr(mod, "mc_counts"):
        cov.update(mod.mc_counts(res))
    ev = dict(property_id=pid, tier=a.tier, seed=seed, level=level, coverage=cov,
              assumptions=mod.ASSUMPTIONS, wall_s=round(time.time() - t0, 2), violations=len(violations))
    if not a.only and not os.environ.get("VERIF_NOEVIDENCE"):
        os.makedirs(os.path.join(ROOT, "evidence"), exist_ok=True)
        with open(os.path.join(ROOT, "evidence", f"{pid}.json"), "w") as f:
            json.dump(ev, f, indent=1, default=str)

    seen = set()
    for k in knowns:
        if k.get("known") in seen:
            continue
        seen.add(k.get("known"))
        kf = next((x for x in known if x["id"] == k.get("known")), {})
        print(f"KNOWN-FINDING: property={pid} {kf.get('what', k.get('msg'))} [e.g. {k['obligation']} {json.dumps(k.get('model'), default=str)[:200]}]")
    print(f"{pid} tier={a.tier} obligations={n_obl} discharged={discharged} paths={paths} "
          f"queries={cov['solver_queries']} solver_s={cov['solver_s']} validated={cov['traces_validated_against_impl']} "
          f"e2e={cov['e2e_witnesses']} known={len(knowns)} wall={ev['wall_s']}s")
    if inconcl:
        print(f"INCONCLUSIVE (not counted as discharged): {inconcl[:8]}{'...' if len(inconcl) > 8 else ''}")
    if errors:
        for e in errors[:4]:
            print("HARNESS-ERROR", json.dumps(e, default=str)[:900])
        print(f"({len(errors)} harness errors)")
        return 2
    if violations:
        for v in violations[:int(os.environ.get("VERIF_ALLV") or 5)]:
            path = write_replay(pid, v)
            print(f"VIOLATION property={pid} replay={path}")
            print("   ", v["obligation"], json.dumps(v.get("model"), default=str)[:300], "::", str(v["msg"])[:300])
        return 1
    return 0


if __name__ == "__main__":
    sys.exit(main())
