"""exploration driver: DFS over decision prefixes, per-path native validation,
counterexample replay, known-finding matching, parallel work distribution."""
from __future__ import annotations

import contextlib
import hashlib
import inspect
import json
import os
import random
import sys
import time
import traceback
from concurrent.futures import ProcessPoolExecutor, wait, FIRST_COMPLETED
import multiprocessing as mp

import z3

from . import core
from .core import (Engine, NativeEngine, PathAbort, Inconclusive, Violation,
                   HarnessError, SInt, SBool, normalise_obs)


class Obligation:
    """one solver obligation: a harness around real functions.

    setup(e)        -> args      declare symbolic inputs / assumptions
    run(e, *args)   -> obs       call the real code, assert with e.check(...)
    patches()       -> context manager active only in symbolic mode
    e2e(model)      -> None      optional native end-to-end witness through the
                                 public API (raises Violation on mismatch)
    """

    def __init__(self, name, setup, run, patches=None, e2e=None, functions=(),
                 bounds=None, stubs=(), enum=(), outside=(), e2e_every=1, group=None,
                 expect_violation=False):
        self.name = name
        self.setup = setup
        self.run = run
        self.patches = patches or contextlib.nullcontext
        self.e2e = e2e
        self.functions = list(functions)
        self.bounds = bounds or {}
        self.stubs = list(stubs)
        self.enum = list(enum)
        self.outside = list(outside)
        self.e2e_every = e2e_every
        self.group = group or name.split("[")[0]
        self.expect_violation = expect_violation


class PathTimeout(Exception):
    """the code under test did not return within PATH_TIMEOUT_S (reported as a hang)"""


PATH_TIMEOUT_S = float(os.environ.get("VERIF_PATH_TIMEOUT", "150"))


def _alarm_handler(signum, frame):
    raise PathTimeout(f"no result within {PATH_TIMEOUT_S:.0f} s: the code under test appears to hang")


@contextlib.contextmanager
def watchdog():
    import signal
    try:
        old = signal.signal(signal.SIGALRM, _alarm_handler)
    except ValueError:      # not in the main thread
        yield
        return
    signal.setitimer(signal.ITIMER_REAL, PATH_TIMEOUT_S)
    try:
        yield
    finally:
        signal.setitimer(signal.ITIMER_REAL, 0)
        signal.signal(signal.SIGALRM, old)


OBLIGATIONS: list[Obligation] = []
KNOWN: list[dict] = []      # known findings for the property under check
SEED = 0


# -- known findings --------------------------------------------------------


class _Missing(Exception):
    pass


class _NS(dict):
    def __missing__(self, k):
        raise _Missing(k)


def _pred_ns(values, sym):
    if sym:
        def And(*a): return SBool(z3.And([core._zb(x) for x in a]))
        def Or(*a): return SBool(z3.Or([core._zb(x) for x in a]))
        def Not(a): return SBool(z3.Not(core._zb(a)))
    else:
        def And(*a): return all(a)
        def Or(*a): return any(a)
        def Not(a): return not a
    ns = _NS(values)
    ns.update(And=And, Or=Or, Not=Not, __builtins__={"abs": abs, "min": min, "max": max, "len": len, "sum": sum, "True": True, "False": False, "None": None})
    return ns


def known_match(ob, model, tags=None):
    """first known finding whose predicate holds for this concrete model"""
    tags = tags or {}
    for kf in KNOWN:
        if kf.get("obligation") and not ob.name.startswith(kf["obligation"]):
            continue
        vals = dict(model)
        vals.update(tags)
        try:
            if eval(kf["pred"], _pred_ns(vals, False)):
                return kf
        except (_Missing, TypeError):
            continue
    return None


def known_z3(ob, eng, kf, tags=None):
    vals = {n: SInt(v) for n, v in eng.vars.items()}
    vals.update(tags or {})
    eng.lazy_depth += 1
    saved = core.ENG
    core.ENG = eng
    try:
        r = eval(kf["pred"], _pred_ns(vals, True))
    except (_Missing, TypeError):
        return z3.BoolVal(False)
    finally:
        eng.lazy_depth -= 1
        core.ENG = saved
    if isinstance(r, SBool):
        return r.z
    return z3.BoolVal(bool(r))


# -- single path -------------------------------------------------------------


def _alts(trail, plen):
    out = []
    for i in range(plen, len(trail)):
        d, alt = trail[i]
        if alt is not None:
            out.append([x[0] for x in trail[:i]] + [alt])
    return out


def native_run(ob, model):
    """run the harness natively (plain ints, unpatched code).
    returns ("ok", obs) | ("violation", msg) | ("error", msg)"""
    e = NativeEngine(model)
    core.ENG = e
    try:
        with watchdog():
            args = ob.setup(e)
            obs = ob.run(e, *args)
        return "ok", normalise_obs(obs)
    except Violation as v:
        return "violation", str(v)
    except HarnessError as h:
        return "error", f"HarnessError: {h}"
    except Exception as ex:  # unexpected exception out of the real code
        return "violation", f"unexpected {type(ex).__name__}: {ex}"


def run_path(ob, prefix, timeout_ms, twin=False):
    eng = Engine(prefix, timeout_ms)
    eng.twin = twin
    core.ENG = eng
    res = dict(status=None, alts=[], queries=0, solver_s=0.0)
    tags = {}
    eng.tags = tags
    try:
        with ob.patches():
            try:
                with watchdog():
                    args = ob.setup(eng)
                    obs = ob.run(eng, *args)
                res["status"] = "ok"
                res["obs"] = obs
            except Violation as v:
                res["status"] = "violation"
                res["msg"] = str(v)
            except PathAbort:
                res["status"] = "abort"
            except Inconclusive as i:
                res["status"] = "inconclusive"
                res["msg"] = str(i)
            except HarnessError as h:
                res["status"] = "error"
                res["msg"] = f"HarnessError: {h}"
            except Exception as ex:
                res["status"] = "violation"
                res["msg"] = f"unexpected {type(ex).__name__}: {ex}"
                res["tb"] = traceback.format_exc(limit=8)
    finally:
        core.ENG = None
    res["alts"] = _alts(eng.trail, len(prefix))
    res["eng"] = eng
    res["forks"] = sum(1 for d, a in eng.trail if d[0] == "b")
    res["concs"] = sum(1 for d, a in eng.trail if d[0] == "eq")
    return res


def explore_chunk(oi, stack, max_paths, max_s, timeout_ms, validate=True):
    """explore up to max_paths completed paths from the given prefixes"""
    ob = OBLIGATIONS[oi]
    t0 = time.time()
    out = dict(oi=oi, paths=0, aborted=0, ok=0, violations=[], known=[], errors=[],
               inconclusive=[], queries=0, solver_s=0.0, validated=0, e2e=0,
               samples=[], nontrivial=0, checks=0, max_depth=0, leftover=[], concretised=0,
               forks=0, notes={})
    stack = list(stack)
    n = 0
    while stack:
        if out["paths"] + out["aborted"] >= max_paths or time.time() - t0 > max_s:
            break
        prefix = stack.pop()
        r = run_path(ob, prefix, timeout_ms)
        eng = r["eng"]
        out["queries"] += eng.nqueries
        out["solver_s"] += eng.solver_s
        stack.extend(r["alts"])
        st = r["status"]
        if st == "abort":
            out["aborted"] += 1
            continue
        if st == "inconclusive":
            out["inconclusive"].append(dict(prefix_len=len(prefix), msg=r["msg"]))
            continue
        if st == "error":
            out["errors"].append(dict(msg=r["msg"], prefix=prefix))
            continue
        out["paths"] += 1
        _merge_notes(out["notes"], eng.notes)
        out["max_depth"] = max(out["max_depth"], len(eng.trail))
        out["forks"] += r["forks"]
        out["concretised"] += r["concs"]
        if eng.trail:
            out["nontrivial"] += 1
        out["checks"] += getattr(eng, "nchecks", 0)
        try:
            model = eng.model()
        except (Inconclusive, PathAbort) as ex:
            out["inconclusive"].append(dict(msg=f"model: {ex}"))
            continue
        if st == "ok":
            out["ok"] += 1
            if len(out["samples"]) < 3:
                out["samples"].append(dict(model=model, decisions=len(eng.trail)))
            if validate:
                try:
                    obs_c = eng.concretise_obs(r["obs"])
                except Exception as ex:
                    out["errors"].append(dict(msg=f"cannot evaluate observation: {ex!r}", model=model))
                    continue
                nst, nobs = native_run(ob, model)
                if nst != "ok" or nobs != obs_c:
                    out["errors"].append(dict(msg="native validation disagrees with symbolic path",
                                              model=model, native=[nst, repr(nobs)[:500]], symbolic=repr(obs_c)[:500]))
                    continue
                out["validated"] += 1
                # a second, maximally different model of the same path
                try:
                    m2 = eng.extreme_model(model)
                except Inconclusive:
                    m2 = None
                if m2 is not None and m2 != model:
                    nst, nobs = native_run(ob, m2)
                    if nst != "ok":
                        out["errors"].append(dict(msg="second model of an ok-path fails natively (path condition too wide)",
                                                  model=m2, native=[nst, repr(nobs)[:500]]))
                        continue
                    out["validated"] += 1
            if ob.e2e is not None and (n % ob.e2e_every == 0):
                try:
                    ob.e2e(model)
                    out["e2e"] += 1
                except Violation as v:
                    _record_violation(ob, out, eng, model, f"e2e witness: {v}", e2e=True)
                except Exception as ex:
                    _record_violation(ob, out, eng, model, f"e2e witness: unexpected {type(ex).__name__}: {ex}", e2e=True)
            n += 1
        else:  # violation candidate: replay natively before it counts
            nst, nmsg = native_run(ob, model)
            if nst != "violation":
                out["errors"].append(dict(msg=f"counterexample does not reproduce natively ({nst}): {r['msg']}",
                                          model=model, tb=r.get("tb")))
                continue
            _record_violation(ob, out, eng, model, nmsg, sym_msg=r["msg"])
    out["leftover"] = stack
    out["wall"] = time.time() - t0
    return out


def _merge_notes(dst, src):
    for k, v in src.items():
        if isinstance(v, (set, frozenset)):
            dst.setdefault(k, set()).update(v)
        elif isinstance(v, (int, float)):
            dst[k] = dst.get(k, 0) + v


def _record_violation(ob, out, eng, model, msg, sym_msg=None, e2e=False):
    kf = known_match(ob, model)
    rec = dict(obligation=ob.name, model=model, msg=msg)
    if kf is None:
        out["violations"].append(rec)
        return
    rec["known"] = kf["id"]
    out["known"].append(rec)
    if e2e:
        return
    # is the whole failing path inside listed findings?  ask the solver for a
    # model of this path outside every listed predicate.
    try:
        excl = [z3.Not(known_z3(ob, eng, k)) for k in KNOWN
                if not k.get("obligation") or ob.name.startswith(k["obligation"])]
        eng.solver.push()
        eng.solver.add(*excl)
        sat = eng._check()
        if sat:
            m = eng.solver.model()
            m2 = {n: m.eval(v, model_completion=True).as_long() for n, v in eng.vars.items()}
        eng.solver.pop()
    except Inconclusive as i:
        out["inconclusive"].append(dict(msg=f"known-region exclusion: {i}"))
        return
    if sat:
        nst, nmsg = native_run(ob, m2)
        if nst == "violation":
            if known_match(ob, m2) is None:
                out["violations"].append(dict(obligation=ob.name, model=m2, msg=nmsg))
        else:
            out["errors"].append(dict(msg="failing path has a model outside the known region that passes natively",
                                      model=m2))


# -- parallel driver ---------------------------------------------------------


def _worker(task):
    oi, stack, max_paths, max_s, timeout_ms = task
    try:
        return explore_chunk(oi, stack, max_paths, max_s, timeout_ms)
    except BaseException as ex:  # never lose a chunk silently
        return dict(oi=oi, fatal=f"{type(ex).__name__}: {ex}\n{traceback.format_exc(limit=6)}", leftover=[])


def _twin(oi, timeout_ms, max_s=60):
    """reachability twin: same harness, the first property assertion reached
    is replaced by `False`; must come back violated."""
    ob = OBLIGATIONS[oi]
    stack = [[]]
    t0 = time.time()
    n = 0
    while stack and time.time() - t0 < max_s:
        prefix = stack.pop()
        eng = Engine(prefix, timeout_ms)
        eng.twin = True
        core.ENG = eng
        reached = False
        try:
            with ob.patches():
                try:
                    args = ob.setup(eng)
                    ob.run(eng, *args)
                except core.TwinReached:
                    reached = True
                except (PathAbort, Inconclusive, Violation, Exception):
                    pass
        finally:
            core.ENG = None
        n += 1
        if reached:
            return dict(oi=oi, reached=True, paths=n)
        stack.extend(_alts(eng.trail, len(prefix)))
    return dict(oi=oi, reached=False, paths=n)


def _twin_worker(args):
    try:
        return _twin(*args)
    except BaseException as ex:
        return dict(oi=args[0], reached=False, paths=0, fatal=repr(ex))


def run_all(obligations, known, budget_s, jobs=None, chunk_paths=200, chunk_s=20,
            timeout_ms=20000, seed=0, log=print):
    """explore every obligation to exhaustion (or budget).  returns summary"""
    global OBLIGATIONS, KNOWN, SEED
    OBLIGATIONS = list(obligations)
    KNOWN = list(known)
    SEED = seed
    jobs = jobs or min(16, os.cpu_count() or 4)
    t0 = time.time()
    deadline = t0 + budget_s
    agg = {}
    for i, ob in enumerate(OBLIGATIONS):
        agg[i] = dict(name=ob.name, paths=0, aborted=0, ok=0, violations=[], known=[], errors=[],
                      inconclusive=[], queries=0, solver_s=0.0, validated=0, e2e=0, samples=[],
                      nontrivial=0, checks=0, max_depth=0, concretised=0, forks=0,
                      exhausted=False, twin=None, cpu_s=0.0, notes={})
    ctx = mp.get_context("fork")
    rnd = random.Random(seed)
    with ProcessPoolExecutor(max_workers=jobs, mp_context=ctx) as pool:
        # reachability twins first
        twin_futs = [pool.submit(_twin_worker, (i, timeout_ms)) for i in range(len(OBLIGATIONS))]
        pending = {}
        outstanding = {i: 0 for i in agg}
        queue = [(i, [[]]) for i in range(len(OBLIGATIONS))]
        if seed:
            rnd.shuffle(queue)

        def submit_some():
            while queue and len(pending) < jobs * 2:
                oi, stack = queue.pop(0)
                # the first chunk of an obligation is small so that work spreads quickly
                first = stack == [[]]
                mp_ = 25 if first else chunk_paths
                f = pool.submit(_worker, (oi, stack, mp_, chunk_s, timeout_ms))
                pending[f] = oi
                outstanding[oi] += 1

        submit_some()
        stopped = False
        while pending:
            done, _ = wait(list(pending), timeout=1.0, return_when=FIRST_COMPLETED)
            for f in done:
                oi = pending.pop(f)
                outstanding[oi] -= 1
                r = f.result()
                a = agg[oi]
                if "fatal" in r:
                    a["errors"].append(dict(msg="worker crashed: " + r["fatal"]))
                    continue
                for k in ("paths", "aborted", "ok", "queries", "solver_s", "validated", "e2e",
                          "nontrivial", "checks", "concretised", "forks"):
                    a[k] += r[k]
                a["cpu_s"] += r["wall"]
                _merge_notes(a["notes"], r["notes"])
                a["max_depth"] = max(a["max_depth"], r["max_depth"])
                for k in ("violations", "known", "errors", "inconclusive"):
                    a[k].extend(r[k])
                for s in r["samples"]:
                    if len(a["samples"]) < 4:
                        a["samples"].append(s)
                left = r["leftover"]
                if a["violations"] and not OBLIGATIONS[oi].expect_violation and not os.environ.get("VERIF_ALLV"):
                    left = []     # an unlisted violation ends this obligation early
                    a["stopped_on_violation"] = True
                if left and not stopped:
                    # split leftover prefixes into several tasks
                    nsplit = max(1, min(len(left), jobs))
                    if seed:
                        rnd.shuffle(left)
                    for k in range(nsplit):
                        part = left[k::nsplit]
                        if part:
                            queue.append((oi, part))
                elif left:
                    a["unexplored_prefixes"] = a.get("unexplored_prefixes", 0) + len(left)
            if time.time() > deadline and not stopped:
                stopped = True
                for oi, stack in queue:
                    agg[oi]["unexplored_prefixes"] = agg[oi].get("unexplored_prefixes", 0) + len(stack)
                queue.clear()
            submit_some()
        for f in twin_futs:
            r = f.result()
            agg[r["oi"]]["twin"] = dict(reached=r["reached"], paths=r["paths"])
    for oi, a in agg.items():
        a["exhausted"] = (not a.get("unexplored_prefixes") and not a["inconclusive"]
                          and not a["errors"] and not a.get("stopped_on_violation"))
    return dict(obligations=[agg[i] for i in range(len(OBLIGATIONS))], wall=time.time() - t0, jobs=jobs)


# -- misc helpers --------------------------------------------------------------


def fn_fingerprint(f):
    try:
        f0 = inspect.unwrap(f)
        src = inspect.getsource(f0)
        file = inspect.getsourcefile(f0)
        line = inspect.getsourcelines(f0)[1]
        return dict(function=f"{getattr(f0, '__module__', '?')}.{getattr(f0, '__qualname__', repr(f0))}",
                    where=f"{os.path.relpath(file, os.environ.get('VERIF_REPO', '/repo'))}:{line}",
                    sha256=hashlib.sha256(src.encode()).hexdigest()[:16])
    except Exception as ex:
        return dict(function=repr(f), where="?", sha256="?", note=repr(ex))
