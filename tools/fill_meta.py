#!/usr/bin/env python3
"""fills the descriptive fields of seeded/<name>/meta.json from notes.md (summary, needs_to_manifest) without touching check results"""
import json, os, re
ROOT = "/verif/seeded"
for n in sorted(os.listdir(ROOT)):
    d = os.path.join(ROOT, n)
    if not os.path.isdir(d):
        continue
    mp = os.path.join(d, "meta.json")
    m = json.load(open(mp)) if os.path.exists(mp) else {}
    m.setdefault("property", n.split("-")[0])
    notes = os.path.join(d, "notes.md")
    if os.path.exists(notes):
        txt = open(notes).read()
        lines = [l for l in txt.splitlines()]
        title = next((l.strip().lstrip("# ").strip() for l in lines if l.strip()), "")
        m["summary"] = title
        # section whose heading / bold lead mentions "manifest" or "needed" / "trigger"
        sec = None
        pat = re.compile(r"(needed|manifest|trigger)", re.I)
        for i, l in enumerate(lines):
            if (l.startswith("#") or l.startswith("**") or l.startswith("- **")) and pat.search(l):
                body = [l]
                for k in lines[i + 1:]:
                    if k.startswith("#") or (k.startswith("**") and not pat.search(k) and len(body) > 3):
                        break
                    body.append(k)
                sec = "\n".join(body).strip()
                break
        if sec:
            m["needs_to_manifest"] = sec[:1500]
    m.setdefault("needs_to_manifest", "see notes.md")
    m.setdefault("files", dict(patch="patch.diff", demo="demo.py", notes="notes.md"))
    json.dump(m, open(mp, "w"), indent=1)
    print(n, "|", m.get("summary", "")[:80], "|", m["needs_to_manifest"][:60].replace("\n", " "))
