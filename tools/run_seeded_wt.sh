#!/bin/bash
# usage: run_seeded_wt.sh <tier> <seeded-dir>...
# development helper: tries each seeded change in its own scratch worktree of /repo (VERIF_REPO), so /repo itself stays
# clean and several can run side by side; the worktree is removed afterwards.  (tools/run_seeded.sh is the by-the-book
# variant that applies the patch to /repo and reverts it.)
TIER=$1; shift
cd /verif
for d in "$@"; do
  name=$(basename $d); pid=${name%%-*}
  d=$(realpath $d)
  wt=/tmp/seedwt_$name
  git -C /repo worktree remove --force $wt 2>/dev/null
  git -C /repo worktree add -q --detach $wt HEAD || { echo "$name: cannot create worktree"; continue; }
  if ! git -C $wt apply $d/patch.diff 2>/dev/null; then echo "$name: patch does not apply to /repo HEAD"; git -C /repo worktree remove --force $wt; continue; fi
  t0=$(date +%s)
  out=$(VERIF_REPO=$wt VERIF_NOEVIDENCE=1 timeout 3000 ./check $pid --tier $TIER 2>&1); rc=$?
  t1=$(date +%s)
  git -C /repo worktree remove --force $wt
  viol=$(echo "$out" | grep -c "^VIOLATION")
  echo "$name tier=$TIER exit=$rc violations=$viol wall=$((t1-t0))s :: $(echo "$out" | grep -A1 '^VIOLATION' | head -2 | tail -1 | cut -c1-260)"
  mkdir -p /tmp/seedlogs; echo "$out" > /tmp/seedlogs/$name.$TIER.log
done
