#!/usr/bin/env python3
"""reseed.py [--tier quick] [--jobs 3] [--only C01-1,C02-2] [--checks-from-meta]

Runs, for every kept seeded change under /verif/seeded/<name>/, the check(s) of its property against a scratch worktree
of /repo HEAD carrying patch.diff (VERIF_REPO), several at a time, and records the outcome in meta.json
(check_results, detected).  Prints one line per seeded change.  /repo itself is never modified."""
import argparse
import json
import os
import re
import subprocess
import sys
import time
from concurrent.futures import ThreadPoolExecutor

ap = argparse.ArgumentParser()
ap.add_argument("--tier", default="quick")
ap.add_argument("--jobs", type=int, default=3)
ap.add_argument("--only")
a = ap.parse_args()

ROOT = "/verif/seeded"
names = sorted(d for d in os.listdir(ROOT) if os.path.isdir(os.path.join(ROOT, d)))
if a.only:
    sel = set(a.only.split(","))
    names = [n for n in names if n in sel or n.split("-")[0] in sel]


def sh(cmd, cwd=None, timeout=4000, env=None):
    p = subprocess.run(cmd, shell=True, cwd=cwd, capture_output=True, text=True, timeout=timeout, env=env)
    return p.returncode, p.stdout + p.stderr


def one(name):
    d = os.path.join(ROOT, name)
    metap = os.path.join(d, "meta.json")
    meta = json.load(open(metap)) if os.path.exists(metap) else {}
    pid = meta.get("property", name.split("-")[0])
    checks = meta.get("checks") or [pid]
    res = {}
    for c in checks:
        wt = f"/tmp/seedwt_{name}_{c}"
        sh(f"git -C /repo worktree remove --force {wt}")
        sh(f"rm -rf {wt}; git -C /repo worktree prune")
        rc, out = sh(f"git -C /repo worktree add -q --detach {wt} HEAD")
        rc, out = sh(f"git -C {wt} apply {d}/patch.diff")
        if rc:
            sh(f"git -C /repo worktree remove --force {wt}")
            res[c] = dict(tier=a.tier, exit=None, violations=0, note="patch does not apply to /repo HEAD: " + out[:200])
            continue
        t0 = time.time()
        env = dict(os.environ, VERIF_REPO=wt, VERIF_NOEVIDENCE="1", VERIF_JOBS=str(max(4, 16 // a.jobs)))
        rc, out = sh(f"timeout 3600 ./check {c} --tier {a.tier}", "/verif", env=env)
        dt = time.time() - t0
        sh(f"git -C /repo worktree remove --force {wt}")
        viol = [l for l in out.splitlines() if l.startswith("VIOLATION")]
        m = re.search(r"^VIOLATION.*\n(.*)$", out, re.M)
        first = m.group(1).strip()[:400] if m else ""
        res[c] = dict(tier=a.tier, exit=rc, violations=len(viol), wall_s=round(dt), first=first)
        os.makedirs("/tmp/seedlogs", exist_ok=True)
        open(f"/tmp/seedlogs/{name}.{c}.{a.tier}.log", "w").write(out)
    meta = json.load(open(metap)) if os.path.exists(metap) else {}
    meta.setdefault("property", pid)
    cr = meta.setdefault("check_results", {})
    for c, r in res.items():
        cr[c if a.tier == "quick" else f"{c}:{a.tier}"] = r
    meta["detected"] = any(r.get("exit") == 1 and r.get("violations", 0) > 0 for r in cr.values())
    meta["repo_head_when_last_run"] = subprocess.check_output("git -C /repo rev-parse --short HEAD", shell=True, text=True).strip()
    json.dump(meta, open(metap, "w"), indent=1)
    return name, res


with ThreadPoolExecutor(a.jobs) as ex:
    for name, res in ex.map(one, names):
        for c, r in res.items():
            print(f"{name:8s} check={c} tier={r['tier']} exit={r.get('exit')} violations={r.get('violations')} wall={r.get('wall_s')}s :: {r.get('first', r.get('note', ''))[:220]}", flush=True)
