#!/bin/bash
# usage: run_seeded.sh <tier> <seeded-dir>...   applies each patch to /repo, runs the property's check, reverts.
TIER=$1; shift
cd /verif
for d in "$@"; do
  name=$(basename $d); pid=${name%%-*}
  if ! git -C /repo diff --quiet; then echo "$name: /repo dirty, abort"; exit 2; fi
  d=$(realpath $d)
  if ! git -C /repo apply --check $d/patch.diff 2>/dev/null; then echo "$name: patch does not apply to /repo HEAD"; continue; fi
  git -C /repo apply $d/patch.diff
  t0=$(date +%s)
  out=$(timeout 1500 ./check $pid --tier $TIER 2>&1); rc=$?
  t1=$(date +%s)
  git -C /repo checkout -- .
  viol=$(echo "$out" | grep -c "^VIOLATION")
  echo "$name tier=$TIER exit=$rc violations=$viol wall=$((t1-t0))s :: $(echo "$out" | grep -A1 '^VIOLATION' | head -2 | tail -1 | cut -c1-260)"
  echo "$out" > /tmp/seeded_$name.$TIER.log
done
