#!/usr/bin/env python
"""regenerates MANIFEST.json from tools/claims.py (single source of truth)"""
import json, os, sys
HERE = os.path.dirname(os.path.dirname(os.path.abspath(__file__)))
sys.path.insert(0, os.path.join(HERE, "tools"))
import claims

checks = []
for pid, c in claims.CLAIMED.items():
    checks.append(dict(
        property_id=pid,
        quick_cmd=f"./check {pid} --tier quick",
        thorough_cmd=f"./check {pid} --tier thorough",
        evidence_file=f"/verif/evidence/{pid}.json",
        replay_cmd_template=f"./check {pid} --replay {{path}}",
        engine=c.get("engine", "symx"),
        level_claimed=dict(category=c.get("level", "other"), text=c["text"], design_ref=c.get("design_ref", "DESIGN.md sec. 3")),
        level_note=c["note"],
        technique=c.get("technique", "bounded symbolic execution of the real Python functions with z3 (symx), per-path native replay"),
    ))
ids = [json.loads(l)["id"] for l in open(os.path.join(HERE, "properties.jsonl"))]
na = [dict(property_id=p, reason=claims.NOT_APPLICABLE[p]) for p in ids if p not in claims.CLAIMED]
m = dict(
    version=1,
    setup_cmd="./setup.sh",
    hooks=dict(guard="DASK_VERIF", enable="checks export DASK_VERIF=1; no hook commits exist in /repo (all patching is done in-process by the harnesses and restored afterwards)",
               baseline_off_cmd="cd /repo && env -u DASK_VERIF /venv/bin/python -m pytest -ra -q -p no:cacheprovider --timeout=900 --continue-on-collection-errors",
               source_commits=[], add_only=True),
    engines=[dict(name="symx", path="/verif/symx", serves_properties=[p for p, c in claims.CLAIMED.items() if c.get("engine", "symx") == "symx"],
                  kind_free_text="proxy-based symbolic execution of the real Python code over z3 Int; DFS over decision prefixes until exhaustion; per-path native replay"),
             dict(name="crosshair", path="/verif/.venv/bin/crosshair", serves_properties=[p for p, c in claims.CLAIMED.items() if "crosshair" in c.get("engine", "") or c.get("crosshair")],
                  kind_free_text="CrossHair 0.0.110 for free-form str kernels")],
    checks=checks,
    notes=claims.NOTES,
    not_applicable=na,
)
json.dump(m, open(os.path.join(HERE, "MANIFEST.json"), "w"), indent=1)
print("claimed", len(checks), "n/a", len(na))
