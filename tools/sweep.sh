#!/bin/bash
# usage: tools/sweep.sh [tier]   -- runs every claimed check once on /repo and prints one line each (exit code, summary)
TIER=${1:-quick}
cd /verif
IDS=${IDS:-$(python3 -c "import json; print(' '.join(c['property_id'] for c in json.load(open('MANIFEST.json'))['checks']))")}
for id in $IDS; do
  t0=$(date +%s)
  out=$(./check $id --tier $TIER 2>&1); rc=$?
  t1=$(date +%s)
  echo "$id exit=$rc wall=$((t1-t0))s :: $(echo "$out" | grep "tier=$TIER" | cut -c1-170) $(echo "$out" | grep -c '^INCONCLUSIVE') inconclusive-lines $(echo "$out" | grep -c '^VIOLATION') violations"
  echo "$out" | grep -E "^HARNESS-ERROR|^VIOLATION" | head -3 | cut -c1-300
done
