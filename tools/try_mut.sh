#!/bin/bash
# usage: try_mut.sh <pid> <tier> <file-relative-to-repo> <python-regex-old> <new>   (development helper: one ad-hoc mutant in a scratch worktree)
PID=$1; TIER=$2; FILE=$3; OLD=$4; NEW=$5
WT=/tmp/trymut_$$
git -C /repo worktree add -q --detach $WT HEAD || exit 2
python3 - "$WT/$FILE" "$OLD" "$NEW" <<'PY'
import sys,re
p,old,new=sys.argv[1:4]
s=open(p).read()
n=s.count(old)
if n!=1:
    print(f"pattern occurs {n} times"); sys.exit(3)
open(p,'w').write(s.replace(old,new))
PY
rc=$?
if [ $rc -eq 0 ]; then
  cd /verif; VERIF_REPO=$WT VERIF_NOEVIDENCE=1 timeout 3000 ./check $PID --tier $TIER ${EXTRA_ARGS} 2>&1 | grep -v "^    " | tail -${TAILN:-4}
fi
git -C /repo worktree remove --force $WT
