NOTES = ("Every check is `./check <id> --tier quick|thorough`: bounded symbolic execution of the real dask functions "
         "(re-imported / re-read from /repo's working tree on every run). Exit 0 = held on every path class within the "
         "stated bounds (evidence lists bounds, functions, queries, solver time); exit 1 = VIOLATION replayed natively; "
         "exit 2 = harness error. known_findings.json lists genuine defects recorded rather than repaired.")

CLAIMED = {
 "C20": dict(
    text="Bounded symbolic execution of normalize_index/normalize_slice/slice_array/_slice_1d/new_blockdim with symbolic chunk "
         "sizes, slice bounds, integer indices and a symbolic probe position; z3 decides the pointwise NumPy oracle for every "
         "path class and the path tree is exhausted, so the claim covers every input inside the bounds (<=3-4 chunks per axis, "
         "chunk sizes <=4-6, |step|<=3-4, ndim<=2). Larger arrays and fancy indexing are outside the claim.",
    note="Trusted: z3, the symx proxies (validated per path by native replay on the unpatched code), the Python transcription of "
         "PySlice_AdjustIndices (validated against CPython per witness), NumPy getitem semantics on blocks (e2e witnesses only).",
    design_ref="DESIGN.md sec. 3 C20"),
}

_SCHED_NOTE = ("Trusted: z3, the symx proxies (every path replayed natively on the unpatched code), the controlled executor/queue as a model of "
               "completion orders (task bodies pure, inputs captured at submit time). Graph shapes, kinds, requests, chunksize and picks are "
               "solver-enumerated (bounded exhaustive); num_workers is symbolic and unbounded above. Outside: process boundary of the "
               "multiprocessing scheduler, graphs above the node bound.")
CLAIMED.update({
 "C01": dict(text="Bounded symbolic execution of the real dask.local.get_async loop: result equals an independent evaluation of the graph for every bounded "
                  "graph (<=3-4 nodes, six node kinds), request nesting, chunksize in {-1,1,2,3,4}, every num_workers >= 1 (symbolic) and every completion "
                  "order of pending batches; no exception, no blocking with nothing pending. Witnesses re-run on sync/threaded/executor schedulers.",
             note=_SCHED_NOTE, design_ref="DESIGN.md sec. 3 scheduler family"),
 "C02": dict(text="Same symbolic scheduler run; monitors on the hand-over/execute log and pretask/posttask callbacks decide exactly-once execution of needed "
                  "nodes, never of unneeded ones, dependencies finished first, and that each task receives exactly its dependencies' denoted values.",
             note=_SCHED_NOTE, design_ref="DESIGN.md sec. 3 scheduler family"),
 "C03": dict(level="model_checking",
             text="Bounded model checking of the implementation's own scheduler state dict over all bounded graphs / requests / worker counts / completion "
                  "orders: invariants on cache/released/finished at every callback point and cache == requested at return. States and transitions are "
                  "those of the real code, not of an abstraction, so traces need no separate validation beyond the per-path native replay.",
             note=_SCHED_NOTE, technique="bounded symbolic model checking of the real scheduler loop (symx + z3), invariants on the real state dict",
             design_ref="DESIGN.md sec. 3 scheduler family"),
 "C04": dict(text="Solver-driven fault enumeration on the real loop: every failing subset, four exception classes incl. a BaseException subclass and StopIteration, four "
                  "exception transports, rerun_exceptions_locally both ways; asserts type/message preservation, no dependent of a failed task executed, "
                  "no hang, finish callback once with failed=True.",
             note=_SCHED_NOTE, technique="bounded symbolic execution with solver-enumerated fault sets (symx + z3)", design_ref="DESIGN.md sec. 3 scheduler family"),
 "C05": dict(text="(i) callback protocol order asserted on the symbolic scheduler run for explicit and global callbacks, success and failure; (ii) all bounded "
                  "histories of with/add_callbacks/exit/register/unregister/compute over two callback objects against the real Callback.active set.",
             note=_SCHED_NOTE + " History operations are solver-enumerated choices (no arithmetic): bounded exhaustive.", design_ref="DESIGN.md sec. 3 scheduler family"),
 "C52": dict(text="Real Profiler active during the symbolic scheduler run with a symbolic non-decreasing clock: one entry per finished task, none lost on failure or "
                  "on a second call, start <= end for every admissible clock reading. Cache/ProgressBar parts are outside (cachey absent).",
             note=_SCHED_NOTE, design_ref="DESIGN.md sec. 3 scheduler family"),
})

_DF_NOTE = ("Trusted: z3, symx proxies (each path replayed natively on the unpatched code), the stub pyarrow package used only to import "
            "dask.dataframe, pandas label-slicing semantics of boundary_slice (checked on e2e witnesses).")
CLAIMED.update({
 "C44": dict(text="Bounded symbolic execution of RepartitionDivisions._layer with old/new divisions as sorted tuples of unbounded symbolic ints and a symbolic "
                  "row index value: exactly-one routing into the partition the new divisions dictate, ordered concatenation, len(divisions)-1 outputs; "
                  "RepartitionToFewer/ToMore partition-count arithmetic with symbolic counts. Tuple lengths are bounded (<=4-6).",
             note=_DF_NOTE + " Outside: partition_size, freq, np.interp-based division interpolation.", design_ref="DESIGN.md sec. 3 C44"),
 "C45": dict(text="Bounded symbolic execution of sorted_division_locations with symbolic npartitions/chunksize over every sorted sequence of length <=6-9 on a "
                  "4-letter alphabet: strictly increasing locations 0..len, divisions equal the values at their locations, equal values never straddle a "
                  "boundary, npartitions met exactly when enough distinct values exist. Quantile sketches are outside.",
             note=_DF_NOTE, design_ref="DESIGN.md sec. 3 C45"),
})

_ENUM_NOTE = ("Trusted: z3, the symx proxies (every completed path is replayed natively with the model's concrete values on the unpatched code and must "
              "agree). ")
CLAIMED.update({
 "C06": dict(text="The real dask.order.order runs on every graph of a bounded grammar (<=3-5 nodes, eight node kinds incl. task-spec objects, every edge "
                  "subset, references to keys outside the graph, one back edge for cyclic variants): key set preserved, priorities pairwise distinct, "
                  "every key ordered after its in-graph dependencies, cyclic graphs rejected. The inputs carry no arithmetic, so z3 enumerates the shape "
                  "bits and proves the decision tree exhausted: bounded exhaustive, not an all-graphs claim.",
             note=_ENUM_NOTE + "Outside: ordering quality, graphs above the node bound.", design_ref="DESIGN.md sec. 3 C06",
             technique="bounded symbolic execution of the real order() with solver-enumerated graph shapes (symx + z3), per-path native replay"),
 "C07": dict(text="The real toposort/getcycle/isdag run on every digraph (adjacency bits incl. self-loops) with <=3-4 nodes and every start-key subset, through "
                  "dependencies= and as legacy graphs: toposort is a dependency-respecting permutation and raises iff cyclic (independent closure oracle); "
                  "getcycle returns [] iff no reachable cycle, else a closed walk along real edges; isdag == not getcycle. A per-path watchdog reports "
                  "non-termination as a violation.",
             note=_ENUM_NOTE + "Adjacency bits are solver-enumerated (bounded exhaustive). Outside: graphs above the node bound.", design_ref="DESIGN.md sec. 3 C07",
             technique="bounded symbolic execution of the real _toposort with solver-enumerated digraphs (symx + z3), per-path native replay"),
 "C17": dict(text="The real dask.config.set/_assign/__exit__/canonical_name/get/update/merge/collect_env/serialize run on a private config; keys come from a "
                  "20-key universe of hyphen/underscore spellings and prefixes, stored values are unbounded symbolic ints, so 'restored exactly' and "
                  "'either spelling reads the value' are z3 equalities over all values; nested contexts up to depth 2-3; failing set() must leave the "
                  "config untouched.",
             note=_ENUM_NOTE + "Keys, nesting and initial shapes are solver-enumerated. Outside: YAML files, refresh, deprecations, locks, keys outside the universe.",
             design_ref="DESIGN.md sec. 3 C17"),
 "C18": dict(text="format_bytes length decided for ALL n in [0, 2**60) as one symbolic integer with an exact integer model of float(n)/2**k and '.2f' rounding "
                  "(validated natively on every path model and on the z3-computed boundary); unit tables of parse_bytes/parse_timedelta over every spelling "
                  "x case mask x symbolic mantissa; CrossHair bug-hunts on free strings for parse_bytes/key_split/natural_sort_key (counted only when "
                  "'Confirmed over all paths'). The one listed known finding (11 characters from 999.995 PiB up) is excluded by predicate and the solver is "
                  "re-asked outside it.",
             note=_ENUM_NOTE + "Integer model of IEEE double rounding for n < 2**63 and of correctly-rounded '.2f' formatting; CrossHair 0.0.110. Outside: n >= 2**60, "
                  "format_time, fractional mantissas.", design_ref="DESIGN.md sec. 3 C18", engine="symx+crosshair", crosshair=True,
             technique="symbolic execution of the real format_bytes/parse_* with z3 (symx) using an integer model of float rounding; CrossHair for free-form strings"),
 "C23": dict(text="Bounded symbolic execution of normalize_chunks and the rechunk planners with symbolic shape dims / chunk sizes / probe position: every "
                  "returned dimension is positive-sized and sums to the shape; old_to_new pieces address exactly the probe's global position in order; "
                  "divide_to_width/merge_to_number preserve sums and bounds; plan_rechunk stages sum to the shape and end at the target; auto chunks respect "
                  "the byte limit. Float-driven planners (auto_chunks, plan_rechunk) concretise their inputs: bounded exhaustive there.",
             note=_ENUM_NOTE + "Module-global shims int/math.isnan/np.isnan/np.ceil for the symbolic run; exact-rational treatment of int/int below 2**53 (lemma in "
                  "DESIGN.md). Outside: previous_chunks / >=2 auto dims, NaN chunks, p2p.", design_ref="DESIGN.md sec. 3 C23"),
 "C50": dict(text="CrossHair (z3 string theory) confirms over all paths that the real bag.text.decode and file_to_blocks equal the reference split for every text "
                  "(len<=4-6) and delimiter (len<=2-3), each with a reachability twin; symx runs read_bytes' offset/length loop with symbolic file size and "
                  "blocksize (float arithmetic concretises: bounded exhaustive over size,blocksize<=40-120): offsets contiguous from 0, positive lengths, sum == "
                  "size; every witness replayed end-to-end through read_bytes/read_text on a temp file.",
             note="Trusted: z3, CrossHair 0.0.110 and its str model, duck-typed block/file fakes, symx proxies (per-path native replay). Outside: fsspec's read_block "
                  "delimiter seek (third-party; e2e witnesses only), non-utf-8 encodings, compression, newline-family delimiters in file_to_blocks' StringIO path.",
             design_ref="DESIGN.md sec. 3 C50", engine="symx+crosshair", crosshair=True,
             technique="CrossHair symbolic execution (z3 strings) of decode/file_to_blocks; symx symbolic execution of read_bytes offsets; native e2e replay"),
})

CLAIMED.update({
 "C26": dict(text="Bounded symbolic execution of the overlap index arithmetic with symbolic chunk sizes and (asymmetric) depths, both unbounded above: "
                  "ensure_minimum_chunksize keeps the sum and the minimum (ValueError iff the axis is shorter than the depth); the real ArrayOverlapLayer graph "
                  "(1-d, 2-d block grids) assembles each overlapped block from contiguous, ordered pieces covering exactly [start-left, end+right) clipped at the "
                  "array ends, with truthful lazy chunks; _trim cuts every block back to its original extent for every block position and boundary kind, so "
                  "overlap-then-trim is the identity pointwise; e2e map_overlap vs pad-apply-trim for five boundary kinds.",
             note=_ENUM_NOTE + "Transcription of PySlice_AdjustIndices for NumPy slicing; ShimInt in coerce_depth_type; recorder for trim_internal's map_blocks. "
                  "Outside: boundary value generation (NumPy; e2e only), sliding_window_view, >3 blocks per axis, >2 dims.", design_ref="DESIGN.md sec. 3 C26"),
 "C29": dict(text="Bounded symbolic execution of the index arithmetic behind da.store: ArraySliceDep/slices_from_chunks tile [0, shape) (symbolic chunk sizes >= 0, "
                  "symbolic probe position lies in exactly its own block's slice); load_store_chunk run on a recording target composes a symbolic region "
                  "(start/stop symbolic or None, enumerated step) with a symbolic block slice so that element q of the block lands exactly on "
                  "target[region][block][q], 1-d and 2-d; e2e da.store with lock True/False/Lock, compute=False, return_stored against NumPy assignment.",
             note=_ENUM_NOTE + "Transcription of PySlice_AdjustIndices for the target's __setitem__; region steps enumerated (linear arithmetic). Outside: "
                  "to_npy_stack/from_npy_stack (file I/O), real lock contention, Delayed targets.", design_ref="DESIGN.md sec. 3 C29"),
 "C41": dict(text="Bounded symbolic execution of the kernels that produce known divisions: loc[lo:hi] / loc[label] / loc[list] (LocSlice, LocElement, LocList "
                  "methods on duck-typed expressions), _partition_of_index_value, RepartitionDivisions._layer and sorted_division_locations, with the input "
                  "divisions as sorted unbounded symbolic ints (assumed truthful: induction step) and a symbolic row label: npartitions == len(divisions)-1, a "
                  "kept row sits in exactly one output partition whose division interval contains it, no selected row is lost, reported divisions sorted. "
                  "repartition(npartitions=more) on numeric divisions and from_pandas are decided on solver-enumerated inputs only (float/NumPy code). e2e on "
                  "real pandas frames: per-partition index values against .divisions.",
             note=_DF_NOTE + " Outside: set_index (quantile sketches), merges/concat/filters (pandas kernels), datetime partial-string indexing.",
             design_ref="DESIGN.md sec. 3 C41"),
})

CLAIMED.update({
 "C51": dict(text="The real RuleSet/RewriteRule/_match/_process_match run on rule sets (<=2 rules) and terms (depth <=2, arity <=3) from a choice grammar with "
                  "symbolic integer constants; an independent recursive matcher returns its match condition as a z3 formula: a rule is yielded exactly once iff "
                  "it matches, bindings equal the reference, the instantiated lhs equals the term, top-level and bottom-up rewrites give the rhs of a "
                  "matching rule instantiated simultaneously, or the term unchanged. Mixed arities of one symbol are explored too; their violations are the "
                  "listed known finding (documented variadic matching).",
             note=_ENUM_NOTE + "Pattern/term constants are hashed by the discrimination net, i.e. enumerated over small ranges; only the repeated-variable "
                  "consistency test and the reference conditions are genuine solver decisions. Outside: function objects / lists as arguments, depth > 2.",
             design_ref="DESIGN.md sec. 3 C51"),
})

CLAIMED.update({
 "C53": dict(text="All bounded histories (<=4-6 operations, <=3-4 live objects) over the real SerializableLock: create with fresh/explicit tokens, pickle round trips "
                  "(two protocols), deepcopy, non-blocking acquire, release, dropping a whole identity class followed by garbage collection; a reference model of "
                  "identity classes and held-bits is compared after every step for EVERY live object: acquire succeeds iff the class is free, locked() is the "
                  "class's held-bit, separately created locks never interfere. Operation choices carry no arithmetic: solver-enumerated, decision tree exhausted.",
             note=_ENUM_NOTE + "Exclusion is observed through non-blocking acquires in one thread (threading.Lock is not re-entrant); real multi-thread blocking and "
                  "other processes are outside.", design_ref="DESIGN.md sec. 3 C53 (added while building)",
             technique="bounded symbolic execution of the real SerializableLock over solver-enumerated operation histories (symx + z3), per-path native replay"),
})

CLAIMED.update({
 "C08": dict(text="Legacy terms from a choice grammar (calls, lists, non-call tuples, dict arguments, quoted values, key-like literals, tuple keys; depth <=2, width <=2) "
                  "with symbolic integer leaves are converted by the real convert_legacy_graph and executed (node call, dask.core.get, resolve_aliases + "
                  "execute_graph) against an independent evaluator written from the graph spec; node.dependencies / DependenciesMapping equal an independent "
                  "walk of referenced keys; task-object graphs with nested List/Tuple/Set/Dict/Alias/DataNode likewise; pickle round trips and "
                  "dask.get/threaded.get on every witness. 'A literal equal to a key is a reference' is decided by the solver on the symbolic leaves. Dict "
                  "values that are legacy terms violate the literal property text and are the listed known finding.",
             note=_ENUM_NOTE + "Integer leaves of legacy terms are hashed by the converter (`in all_keys`), i.e. enumerated over small ranges; ints inside quoted "
                  "values, dict arguments and task objects stay symbolic. ShimInt for dask._task_spec.int. Outside: namedtuples, SubgraphCallable, futures, depth > 2.",
             design_ref="DESIGN.md sec. 3 C08"),
 "C09": dict(text="cull, inline, inline_functions, fuse_linear, fuse, fuse_linear_task_spec, GraphNode.fuse, resolve_aliases and substitute run on solver-enumerated "
                  "graphs (N<=3-5 nodes: tasks, literals, aliases; five argument styles; every edge and requested subset; both dict orders) with symbolic "
                  "leaves: every requested key is kept, dask.core.get on the optimised graph equals a dask-free reference evaluation as z3 terms (for all leaf "
                  "values), returned dependency maps equal dependencies recomputed from the returned graph. fuse's ave_width/max_width/max_height/"
                  "max_depth_new_edges are symbolic ints in [0,4], so z3 splits the parameter space along the comparisons fuse makes; rename_keys on/off/"
                  "custom incl. names that clash with existing keys. Keys inside non-call tuple arguments are the listed known finding.",
             note=_ENUM_NOTE + "Legacy-graph literals are hashed (one shared symbolic offset); task-spec leaves are unbounded symbolic ints. ShimInt for "
                  "dask.optimization.int. Outside: Dict/Set containers, kwargs, SubgraphCallable, block_fusion, fusion quality.", design_ref="DESIGN.md sec. 3 C09"),
 "C11": dict(text="Pairs of nodes drawn independently from one grammar (List/Tuple/Set/Dict containers incl. permutations, re-pairings and re-nestings, Tasks with "
                  "permuted args / swapped kwargs / different functions, Alias, DataNode; symbolic integer literals) are compared with the real __eq__ and "
                  "tokenize; whenever they are equal or share a token, evaluating both with the real GraphNode.__call__ on symbolic dependency values must "
                  "give z3-equal results (for all dependency values). Pickle copies and both nodes in one scheduler run on witnesses.",
             note=_ENUM_NOTE + "Literals are enumerated over [0,1]/[0,2] (tokenisation md5s them); md5/pickle collisions trusted; one normalize_token dispatch "
                  "entry for the proxy type during symbolic paths.", design_ref="DESIGN.md sec. 3 C11"),
 "C19": dict(text="Shape / chunk / block-alignment kernels behind elementwise operations with symbolic dimension sizes in [0,4] and chunk sizes in [1,4]: "
                  "broadcast_shapes equals the NumPy rule (ValueError exactly when NumPy raises), common_blockdim and unify_chunks give chunks that sum to "
                  "the broadcast dimension with boundary set == union of the inputs' boundaries, broadcast_chunks, broadcast_to, and the real Blockwise layer "
                  "(ten index patterns): one task per output block reading exactly the aligned input blocks (block 0 of single-block axes). e2e: x+y, where, "
                  "out=, astype, clip, broadcast_arrays against NumPy in values, dtype, shape, chunks. Length<=1 axes cut into several chunks are the listed "
                  "known finding.",
             note=_ENUM_NOTE + "Chunk tuples are hashed into sets by the kernels (enumerated within the small bounds); np/int/math shims in dask.array.core; "
                  "recording Array stand-ins for unify_chunks. Outside: ufunc values/dtype promotion beyond witnesses, NaN chunks, >3 operands, >2 dims.",
             design_ref="DESIGN.md sec. 3 C19"),
 "C24": dict(text="reshape kernels: contract_tuple and expand_tuple with symbolic chunk sizes (sum preserved, divisibility / refinement of the original "
                  "boundaries); reshape_rechunk and the block pairing of reshape() on solver-enumerated shape pairs (merge, split, mixed, size-1; dims <= 6-8) "
                  "and all input chunkings with <=2-3 chunks per axis: in/out chunks add up, equal block counts and sizes, and reshaping block k to the k-th "
                  "output block reproduces NumPy's row-major reshape for every element; e2e x.reshape with merge_chunks on/off.",
             note=_ENUM_NOTE + "reshape_rechunk multiplies chunk sizes and takes float ceilings: bounded exhaustive enumeration there, no symbolic claim. Outside: "
                  "the other structural routines named by the property (transpose, concatenate/stack/block, flip, roll, repeat, tile, pad, tril, diff, take): "
                  "their index work is NumPy's or the slicing kernels of C20.", design_ref="DESIGN.md sec. 3 C24"),
})

CLAIMED.update({
 "C34": dict(text="The real da.arange / eye / tri / diag / diagonal / ones-zeros-full-empty are called with symbolic integer arguments (start, stop, sizes, chunk size, "
                  "diagonal offset k, probe positions; step enumerated) and the real Array graph is interpreted with NumPy's definition of each block task: "
                  "arange blocks are contiguous pieces of range(start, stop, step) whose element counts equal the lazy chunks and a symbolic probe lands in the "
                  "block/offset the chunks say; eye/tri/diag: the block holding a symbolic probe (r, q) marks it iff NumPy's definition does; lazy chunks add "
                  "up to the shape everywhere. diagonal, linspace, indices, meshgrid, fromfunction and the *_like variants are covered by solver-enumerated "
                  "witnesses against NumPy only.",
             note=_ENUM_NOTE + "tokenize stubbed in dask.array.creation/wrap for the symbolic run (hashing would concretise every argument); int/math/np shims; "
                  "number of blocks concretised by normalize_chunks. Outside: fractional steps and linspace float arithmetic (1-ulp deviations observed and not "
                  "asserted), chunks='auto', like=.", design_ref="DESIGN.md sec. 3 C34"),
})

CLAIMED.update({
 "C48": dict(text="The real Bag API is built over a hand-made partition graph (solver-enumerated partition structure incl. empty partitions anywhere, <=3-6 partitions, "
                  "<=3-5 elements) whose elements are symbolic ints, computed with the synchronous scheduler and compared element-wise (z3 equality, all element "
                  "values) with the plain-Python computation on the concatenated sequence: map/starmap/pluck/filter/remove/map_partitions/flatten/accumulate/take/"
                  "topk/repartition/zip/concat/product, fold/reduction/sum/count/max/min/any/all for split_every in {2,3,None,False}; predicates on elements fork in "
                  "the solver. Hash-based operations (distinct, frequencies, foldby, groupby, join) enumerate only what they hash (the key x % 2 or tiny element "
                  "ranges); mean/var/std against the exact rational value at 1e-9.",
             note=_ENUM_NOTE + "cytoolz is absent, so toolz runs in pure Python and symbolic ints pass through it. Outside: disk shuffle and partition_size (witnesses "
                  "only), random_sample, text/avro/dataframe I/O, non-associative binops, non-neutral initial values.", design_ref="DESIGN.md sec. 3 C48"),
})

CLAIMED.update({
 "C10": dict(text="(a) the real _fuse_annotations / _can_fuse_annotations on 2-3 annotation dicts with symbolic priority, retries and resource amounts and enumerated worker "
                  "sets / allow_other_workers: fused priority and retries are the maximum, resources the per-resource maximum, workers the intersection, "
                  "allow_other_workers the conjunction, for all values (z3). (b) stacks of 1-3 real Blockwise layers from a grammar of 22 index patterns (elementwise, "
                  "transpose, contraction with every concatenate mode, broadcast, new axes, IO layers with and without key-producing deps) over symbolic leaves: "
                  "_cull_dependencies equals the dependencies of the materialised tasks for every requested block subset, HighLevelGraph.cull keeps the requested "
                  "values (z3 equality over leaf values). (c) optimize_blockwise / fuse_roots before and after culling compute the same values; annotated layers "
                  "fuse only consistently with (a). e2e through da.blockwise and dask.annotate against NumPy.",
             note=_ENUM_NOTE + "Block values are provenance tuples in 1-element object arrays so concatenate=True runs the real concatenate_axes. Outside: pyarrow IO "
                  "layers, callable annotation values, > 3 layers / > 3 blocks per index, minimality of culling.", design_ref="DESIGN.md sec. 3 C10"),
})

CLAIMED.update({
 "C21": dict(text="setitem_array / parse_assignment_indices are driven with a duck-typed array whose chunk sizes are symbolic and a recording value stand-in of symbolic "
                  "shape; indices are ints and slices with symbolic start/stop (or None) and steps in {None, +-1, +-2, +-3}, 1-d and 2-d, values scalar / full / "
                  "size-1 axes / extra leading axis. For a symbolic probe position z3 decides: the block holding it is assigned iff NumPy assigns the probe, the "
                  "value element it receives is NumPy's (reversed order for negative steps), the value piece broadcasts to the block's local selection, untouched "
                  "blocks pass through, one output key per input block (chunks unchanged). Lists, integer arrays, masks and dask masks are covered by "
                  "solver-enumerated witnesses through x[idx] = v against NumPy. Empty selections with a value axis > 1 are the listed known finding.",
             note=_ENUM_NOTE + "slice.indices rewritten to the PySlice_AdjustIndices transcription inside normalize_slice / parse_assignment_indices / setitem_array; "
                  "int/math/np shims as in C20. Outside: None/Ellipsis in the index, duplicate positions, NaN chunks, ndim > 2.", design_ref="DESIGN.md sec. 3 C21"),
})

_API_NOTE = (_ENUM_NOTE + "Most obligations of this harness drive dask's PUBLIC API with inputs (chunk sizes incl. zero-size chunks, small integer values, option "
             "combinations) that the solver enumerates and proves exhausted, against an independent NumPy / pandas oracle with exact comparison: a bounded "
             "exhaustive claim, not a symbolic one. The obligations named 'symbolic' run the real Python kernels on unbounded symbolic ints and are decided by z3 for all values. ")
CLAIMED.update({
 "C22": dict(text="arg_reduction's offset arithmetic with unbounded symbolic chunk sizes (one task per block, offsets = exclusive prefix sums, axis/keepdims reach the tree); "
                  "sum/prod/min/max/any/all, the arg family (NumPy's first occurrence), cumsum/cumprod sequential and Blelloch, topk/argtopk, mean/var/std/moment and the "
                  "nan-variants through the public API on integer data (free-monoid object arrays make multiplicity and order visible), every axis selection, keepdims, "
                  "split_every incl. per-axis dicts, all chunkings of small arrays incl. zero-size chunks, deep trees (<= 9-33 blocks), and float data containing NaN for the "
                  "nan-variants. Empty chunks in arg reductions / sequential scans / n-d min-max are listed known findings.",
             note=_API_NOTE + "Outside: float tolerance analysis, inf, median/quantile, wholly empty arrays, split_every < 2.", design_ref="DESIGN.md sec. 9a"),
 "C27": dict(text="validate_axis, _partition, aligned_coarsen_chunks and chunk.coarsen with unbounded symbolic sizes (sums, multiples of the factor, trimmed extents); unique "
                  "(index/inverse/counts, NaN), bincount, histogram/histogram2d/histogramdd with integer edges, digitize, searchsorted, isin, nonzero/argwhere/flatnonzero/"
                  "count_nonzero, unravel_index/ravel_multi_index, coarsen, compress/extract through the public API against NumPy for every chunking (<= 3-4 chunks per axis incl. "
                  "zero-size and size-1 chunks) of small integer arrays: values, declared and computed shape, dtype, and errors where NumPy raises.",
             note=_API_NOTE + "Outside: float binning numerics, density=, dask-array bins, unknown-chunk follow-ups, compress with a condition longer than the axis.",
             design_ref="DESIGN.md sec. 9a"),
 "C35": dict(text="map_blocks / da.blockwise / core blockwise run on real Arrays with unbounded symbolic chunk sizes and an empty graph; the materialised layer is executed with stand-in "
                  "blocks: one task per output block, arguments are the aligned blocks (block 0 of single-block axes, contracted indices concatenated or nested in order), block_id and "
                  "every block_info field (shape, num-chunks, chunk-location, array-location = cumulative offsets, chunk-shape, dtype) for drop_axis / new_axis / chunks= / several inputs, "
                  "declared chunks under new_axes / adjust_chunks; the same through the public API with recording, position-dependent functions; apply_gufunc against "
                  "numpy.vectorize(signature=) for ten signatures with axes / axis / keepdims / allow_rechunk.",
             note=_API_NOTE + "concatenate_axes is replaced by a recorder on the symbolic side. keepdims=True with axes= is a listed known finding. Outside: > 3 operands / dims, dtype "
                  "inference, size-0 core dims.", design_ref="DESIGN.md sec. 9a"),
 "C40": dict(text="The real TaskShuffle._layer graph (all stages, max_branch 2..32, npartitions in != out, partition selections) interpreted task by task with the real shuffle_group / "
                  "shuffle_group_2 / shuffle_group_get on a one-row stand-in whose routing value is a symbolic hash in [0, 2**64): the row arrives exactly once, in partition hash % m; "
                  "partitioning_index with symbolic npartitions; set_partitions_pre (range, monotone, NA placement). Public API: shuffle (equal keys meet, rows preserved, partition == "
                  "partitioning_index), sort_values / set_index equal to pandas partition by partition, drop_duplicates / unique / nunique over split_out, split_every and shuffle "
                  "method, on every split of <= 3-4 rows into <= 3-4 partitions and every key pattern.",
             note=_API_NOTE + "Stub pyarrow (dask.dataframe import). Three sort_values regions are listed known findings; which representative drop_duplicates keeps under "
                  "shuffle_method='disk' is execution-order dependent and not asserted. Outside: p2p, string keys with nulls.", design_ref="DESIGN.md sec. 9a"),
 "C46": dict(text="CreateOverlappingPartitions._layer / _combined_parts / overlap_chunk on row-interval stand-ins with unbounded symbolic partition lengths, before and after: the function "
                  "sees exactly rows [start-before, end+after) and the trimmed result is [start, end); NotImplementedError iff a lending neighbour is too short; rolling / shift / diff / "
                  "ffill / bfill before/after arithmetic with symbolic window, periods, limit composed with that kernel; the cumulative finalize graph on symbolic values. Public API "
                  "(rolling incl. time windows, cumsum/cumprod/cummin/cummax, shift, diff, ffill/bfill with limits, map_overlap) against pandas on the unpartitioned frame for every "
                  "partitioning of <= 4-6 rows into <= 3-4 partitions incl. empty ones.",
             note=_API_NOTE + "Stub pyarrow. Several cumulative regions (holes in non-last partitions, one-column frames) are the listed known finding C46-cumulative-holes. Outside: "
                  "pct_change (absent), time-based center=True, groupby().rolling().", design_ref="DESIGN.md sec. 9a"),
})
CLAIMED["C25"] = dict(
    text="No kernel of its own: pipelines of 1-3 operations drawn by the solver from a table of 54 operation entries (elementwise, indexing, setitem, reductions, "
         "rechunk, structural, overlap, counting/search routines) on small 1-d/2-d/3-d arrays with every chunking (zero-size and size-1 chunks included) are run through the "
         "public API; for every resulting array: computed shape == lazy shape (non-NaN entries), dtype == lazy dtype, every block computed separately by raw key, "
         "to_delayed() and .blocks[idx] has the shape and dtype .chunks/.dtype declare, and the blocks joined by block index equal compute(). Bounded exhaustive over "
         "the enumerated inputs; no value oracle (other properties compare values).",
    note=_API_NOTE + "Regions of other properties' open findings (degenerate axes, empty chunks in arg reductions / scans / n-d min-max, bincount minlength) are excluded by "
         "model variables; three zero-size-chunk gaps found here are listed known findings. Outside: pipelines > 3 operations, linear algebra, fft, random, masked arrays.",
    design_ref="DESIGN.md sec. 9a")
CLAIMED["C32"] = dict(
    text="da.percentile through the public API and merge_percentiles called directly with hand-made summaries, on solver-enumerated inputs: every value of small float / int / "
         "+-inf arrays, every chunking (zero-size chunks anywhere), a table of 16 q vectors (scalars, repeats, with/without 0 and 100, dyadic and non-dyadic), the five methods: "
         "every result lies in [min, max], is non-decreasing in q, q=0 gives the min and q=100 the max (exact where counts are exact in binary64), one chunk equals np.percentile, "
         "lazy shape/dtype equal the computed ones; da.nanpercentile equals np.nanpercentile (1e-12) for every chunking, axis, NaN pattern and method of small 1-d/2-d/3-d arrays.",
    note=_API_NOTE + "Everything goes through NumPy float code: no symbolic claim. Three regions are listed known findings (inexact q rounding, declared dtype of integer input, "
         "empty blocks in nanquantile). Outside: accuracy of the approximation, tdigest, NaN data in percentile.", design_ref="DESIGN.md sec. 9a")
CLAIMED["C33"] = dict(
    text="dask.array.ma against numpy.ma on solver-enumerated inputs through the public API: construction (from_array of masked arrays, masked_array with dask/NumPy/list/scalar "
         "masks, fill values), masked_where / equal / greater / less / inside / outside / invalid / values, getdata / getmaskarray / filled / set_fill_value, elementwise operations "
         "between masked and plain arrays with different chunkings, reductions (sum, prod, min, max, mean, var, std, any, all, count; axis, keepdims, split_every) incl. all-masked "
         "chunks and results, average, nonzero, concatenate / stack / rechunk / slicing / reshape / map_blocks, assignment of np.ma.masked: mask, data at unmasked positions, dtype, "
         "shape and explicitly given fill values are compared for every mask of arrays with <= 4-6 elements and every chunking incl. zero-size chunks.",
    note=_API_NOTE + "numpy.ma is C/Python code outside dask: no symbolic claim. Six regions are listed known findings (average(returned=True), all-masked weights, comparisons on "
         "empty masked blocks, fill value lost by multi-chunk fancy indexing, assignment through a dask boolean key). Outside: hard masks, structured dtypes, default fill values.",
    design_ref="DESIGN.md sec. 9a")
for _k in ("C22", "C25", "C27", "C32", "C33", "C35", "C40", "C46"):
    CLAIMED[_k]["technique"] = ("bounded symbolic execution of the real Python kernels with z3 (symx) plus solver-enumerated, exhausted input spaces through the public API against "
                                "NumPy/pandas, per-path native replay")

NOT_APPLICABLE = {}

_NA_DESIGN = {
 "C12": "tokens are md5 digests of C-level serialisations (NumPy buffers, pickle, pandas internals) compared across interpreters; no Python arithmetic/ordering kernel for a solver, only value enumeration",
 "C13": "key collisions between collections are tokenisation (md5) questions over NumPy/pandas inputs; no kernel a solver can encode",
 "C14": "structure-preserving traversal of arbitrary Python containers and whole-collection compute/persist: inputs are program shapes without arithmetic or ordering constraints",
 "C15": "delayed programs: operator dispatch and md5 key naming; no solver-encodable kernel",
 "C16": "clone/bind/checkpoint: key renaming via md5 and layer plumbing; the 'runs after parents' part is scheduler behaviour decided under C02",
 "C22": "reductions/scans: values, NaN handling and tolerances live in NumPy C code; the only Python arithmetic (tree fan-in) has one tiny integer input",
 "C25": "lazy-vs-computed metadata over whole pipelines: no standalone kernel; chunk metadata is asserted inside the C19/C20/C23/C24/C26 kernels where it is produced",
 "C27": "unique/bincount/histogram/searchsorted/...: NumPy C kernels per block",
 "C28": "random arrays: bit generators and seed spawning in C",
 "C30": "array-expression engine: needs a separate interpreter configuration; program-level rewrites without arithmetic (its slicing/rechunk reuse C20/C23 kernels)",
 "C31": "linear algebra: LAPACK numerics and floating-point factor checks",
 "C32": "percentiles: float merging in NumPy (merge_percentiles), t-digest",
 "C33": "masked arrays: numpy.ma C code",
 "C35": "map_blocks/blockwise/gufunc need real Array objects whose chunks are consumed by NumPy at construction; the block-alignment kernel is decided under C19",
 "C36": "row-wise dataframe operators: pandas C kernels driven by expression rewriting; no integer kernel of their own",
 "C37": "dataframe reductions: pandas C kernels and float tolerances",
 "C38": "groupby: pandas C kernels, hash-based routing",
 "C39": "joins/concat: pandas merge kernels and hash partitioning",
 "C40": "shuffle/sort: routing is hash_object_dispatch % n and groupsort_indexer in pandas/NumPy C; stage wiring has only tiny concrete inputs",
 "C42": "dataframe meta: pandas dtype inference, no kernel",
 "C43": "dataframe optimizer: expression rewriting over pandas-backed expressions; no arithmetic kernel, program-shaped inputs",
 "C46": "window/cumulative ops: pandas rolling kernels; partition-boundary arithmetic is inside pandas-backed overlap code",
 "C47": "file round trips: pandas CSV parser and pyarrow (absent in the sandbox); block splitting is decided under C50",
 "C49": "bag sampling: random/math.log floating-point reservoir weights",
}
import json as _json, os as _os
for _l in open(_os.path.join(_os.path.dirname(_os.path.dirname(_os.path.abspath(__file__))), "properties.jsonl")):
    _p = _json.loads(_l)["id"]
    if _p in CLAIMED:
        continue
    NOT_APPLICABLE[_p] = _NA_DESIGN.get(_p, "solver-based check planned in DESIGN.md sec. 3 but not built/committed yet; not claimed until its check runs clean")
