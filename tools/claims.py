NOTES = ("Every check is `./check <id> --tier quick|thorough`: bounded symbolic execution of the real dask functions "
         "(re-imported / re-read from /repo's working tree on every run). Exit 0 = held on every path class within the "
         "stated bounds (evidence lists bounds, functions, queries, solver time); exit 1 = VIOLATION replayed natively; "
         "exit 2 = harness error. known_findings.json lists genuine defects recorded rather than repaired.")

CLAIMED = {
 "C20": dict(
    text="Bounded symbolic execution of normalize_index/normalize_slice/slice_array/_slice_1d/new_blockdim with symbolic chunk "
         "sizes, slice bounds, integer indices and a symbolic probe position; z3 decides the pointwise NumPy oracle for every "
         "path class and the path tree is exhausted, so the claim covers every input inside the bounds (<=3-4 chunks per axis, "
         "chunk sizes <=4-6, |step|<=3-4, ndim<=2). Larger arrays and fancy indexing are outside the claim.",
    note="Trusted: z3, the symx proxies (validated per path by native replay on the unpatched code), the Python transcription of "
         "PySlice_AdjustIndices (validated against CPython per witness), NumPy getitem semantics on blocks (e2e witnesses only).",
    design_ref="DESIGN.md sec. 3 C20"),
}

NOT_APPLICABLE = {}

_NA_DESIGN = {
 "C12": "tokens are md5 digests of C-level serialisations (NumPy buffers, pickle, pandas internals) compared across interpreters; no Python arithmetic/ordering kernel for a solver, only value enumeration",
 "C13": "key collisions between collections are tokenisation (md5) questions over NumPy/pandas inputs; no kernel a solver can encode",
 "C14": "structure-preserving traversal of arbitrary Python containers and whole-collection compute/persist: inputs are program shapes without arithmetic or ordering constraints",
 "C15": "delayed programs: operator dispatch and md5 key naming; no solver-encodable kernel",
 "C16": "clone/bind/checkpoint: key renaming via md5 and layer plumbing; the 'runs after parents' part is scheduler behaviour decided under C02",
 "C22": "reductions/scans: values, NaN handling and tolerances live in NumPy C code; the only Python arithmetic (tree fan-in) has one tiny integer input",
 "C25": "lazy-vs-computed metadata over whole pipelines: no standalone kernel; chunk metadata is asserted inside the C19/C20/C23/C24/C26 kernels where it is produced",
 "C27": "unique/bincount/histogram/searchsorted/...: NumPy C kernels per block",
 "C28": "random arrays: bit generators and seed spawning in C",
 "C30": "array-expression engine: needs a separate interpreter configuration; program-level rewrites without arithmetic (its slicing/rechunk reuse C20/C23 kernels)",
 "C31": "linear algebra: LAPACK numerics and floating-point factor checks",
 "C32": "percentiles: float merging in NumPy (merge_percentiles), t-digest",
 "C33": "masked arrays: numpy.ma C code",
 "C35": "map_blocks/blockwise/gufunc need real Array objects whose chunks are consumed by NumPy at construction; the block-alignment kernel is decided under C19",
 "C36": "row-wise dataframe operators: pandas C kernels driven by expression rewriting; no integer kernel of their own",
 "C37": "dataframe reductions: pandas C kernels and float tolerances",
 "C38": "groupby: pandas C kernels, hash-based routing",
 "C39": "joins/concat: pandas merge kernels and hash partitioning",
 "C40": "shuffle/sort: routing is hash_object_dispatch % n and groupsort_indexer in pandas/NumPy C; stage wiring has only tiny concrete inputs",
 "C42": "dataframe meta: pandas dtype inference, no kernel",
 "C43": "dataframe optimizer: expression rewriting over pandas-backed expressions; no arithmetic kernel, program-shaped inputs",
 "C46": "window/cumulative ops: pandas rolling kernels; partition-boundary arithmetic is inside pandas-backed overlap code",
 "C47": "file round trips: pandas CSV parser and pyarrow (absent in the sandbox); block splitting is decided under C50",
 "C49": "bag sampling: random/math.log floating-point reservoir weights",
 "C53": "SerializableLock: pickling and real thread contention; no arithmetic or ordering kernel",
}
import json as _json, os as _os
for _l in open(_os.path.join(_os.path.dirname(_os.path.dirname(_os.path.abspath(__file__))), "properties.jsonl")):
    _p = _json.loads(_l)["id"]
    if _p in CLAIMED:
        continue
    NOT_APPLICABLE[_p] = _NA_DESIGN.get(_p, "solver-based check planned in DESIGN.md sec. 3 but not built/committed yet; not claimed until its check runs clean")
