NOTES = ("Every check is `./check <id> --tier quick|thorough`: bounded symbolic execution of the real dask functions "
         "(re-imported / re-read from /repo's working tree on every run). Exit 0 = held on every path class within the "
         "stated bounds (evidence lists bounds, functions, queries, solver time); exit 1 = VIOLATION replayed natively; "
         "exit 2 = harness error. known_findings.json lists genuine defects recorded rather than repaired.")

CLAIMED = {
 "C20": dict(
    text="Bounded symbolic execution of normalize_index/normalize_slice/slice_array/_slice_1d/new_blockdim with symbolic chunk "
         "sizes, slice bounds, integer indices and a symbolic probe position; z3 decides the pointwise NumPy oracle for every "
         "path class and the path tree is exhausted, so the claim covers every input inside the bounds (<=3-4 chunks per axis, "
         "chunk sizes <=4-6, |step|<=3-4, ndim<=2). Larger arrays and fancy indexing are outside the claim.",
    note="Trusted: z3, the symx proxies (validated per path by native replay on the unpatched code), the Python transcription of "
         "PySlice_AdjustIndices (validated against CPython per witness), NumPy getitem semantics on blocks (e2e witnesses only).",
    design_ref="DESIGN.md sec. 3 C20"),
}

_SCHED_NOTE = ("Trusted: z3, the symx proxies (every path replayed natively on the unpatched code), the controlled executor/queue as a model of "
               "completion orders (task bodies pure, inputs captured at submit time). Graph shapes, kinds, requests, chunksize and picks are "
               "solver-enumerated (bounded exhaustive); num_workers is symbolic and unbounded above. Outside: process boundary of the "
               "multiprocessing scheduler, graphs above the node bound.")
CLAIMED.update({
 "C01": dict(text="Bounded symbolic execution of the real dask.local.get_async loop: result equals an independent evaluation of the graph for every bounded "
                  "graph (<=3-4 nodes, six node kinds), request nesting, chunksize in {-1,1,2,3,4}, every num_workers >= 1 (symbolic) and every completion "
                  "order of pending batches; no exception, no blocking with nothing pending. Witnesses re-run on sync/threaded/executor schedulers.",
             note=_SCHED_NOTE, design_ref="DESIGN.md sec. 3 scheduler family"),
 "C02": dict(text="Same symbolic scheduler run; monitors on the hand-over/execute log and pretask/posttask callbacks decide exactly-once execution of needed "
                  "nodes, never of unneeded ones, dependencies finished first, and that each task receives exactly its dependencies' denoted values.",
             note=_SCHED_NOTE, design_ref="DESIGN.md sec. 3 scheduler family"),
 "C03": dict(level="model_checking",
             text="Bounded model checking of the implementation's own scheduler state dict over all bounded graphs / requests / worker counts / completion "
                  "orders: invariants on cache/released/finished at every callback point and cache == requested at return. States and transitions are "
                  "those of the real code, not of an abstraction, so traces need no separate validation beyond the per-path native replay.",
             note=_SCHED_NOTE, technique="bounded symbolic model checking of the real scheduler loop (symx + z3), invariants on the real state dict",
             design_ref="DESIGN.md sec. 3 scheduler family"),
 "C04": dict(text="Solver-driven fault enumeration on the real loop: every failing subset, three exception classes incl. a BaseException subclass, three "
                  "exception transports, rerun_exceptions_locally both ways; asserts type/message preservation, no dependent of a failed task executed, "
                  "no hang, finish callback once with failed=True.",
             note=_SCHED_NOTE, technique="bounded symbolic execution with solver-enumerated fault sets (symx + z3)", design_ref="DESIGN.md sec. 3 scheduler family"),
 "C05": dict(text="(i) callback protocol order asserted on the symbolic scheduler run for explicit and global callbacks, success and failure; (ii) all bounded "
                  "histories of with/add_callbacks/exit/register/unregister/compute over two callback objects against the real Callback.active set.",
             note=_SCHED_NOTE + " History operations are solver-enumerated choices (no arithmetic): bounded exhaustive.", design_ref="DESIGN.md sec. 3 scheduler family"),
 "C52": dict(text="Real Profiler active during the symbolic scheduler run with a symbolic non-decreasing clock: one entry per finished task, none lost on failure or "
                  "on a second call, start <= end for every admissible clock reading. Cache/ProgressBar parts are outside (cachey absent).",
             note=_SCHED_NOTE, design_ref="DESIGN.md sec. 3 scheduler family"),
})

_DF_NOTE = ("Trusted: z3, symx proxies (each path replayed natively on the unpatched code), the stub pyarrow package used only to import "
            "dask.dataframe, pandas label-slicing semantics of boundary_slice (checked on e2e witnesses).")
CLAIMED.update({
 "C44": dict(text="Bounded symbolic execution of RepartitionDivisions._layer with old/new divisions as sorted tuples of unbounded symbolic ints and a symbolic "
                  "row index value: exactly-one routing into the partition the new divisions dictate, ordered concatenation, len(divisions)-1 outputs; "
                  "RepartitionToFewer/ToMore partition-count arithmetic with symbolic counts. Tuple lengths are bounded (<=4-6).",
             note=_DF_NOTE + " Outside: partition_size, freq, np.interp-based division interpolation.", design_ref="DESIGN.md sec. 3 C44"),
 "C45": dict(text="Bounded symbolic execution of sorted_division_locations with symbolic npartitions/chunksize over every sorted sequence of length <=6-9 on a "
                  "4-letter alphabet: strictly increasing locations 0..len, divisions equal the values at their locations, equal values never straddle a "
                  "boundary, npartitions met exactly when enough distinct values exist. Quantile sketches are outside.",
             note=_DF_NOTE, design_ref="DESIGN.md sec. 3 C45"),
})

NOT_APPLICABLE = {}

_NA_DESIGN = {
 "C12": "tokens are md5 digests of C-level serialisations (NumPy buffers, pickle, pandas internals) compared across interpreters; no Python arithmetic/ordering kernel for a solver, only value enumeration",
 "C13": "key collisions between collections are tokenisation (md5) questions over NumPy/pandas inputs; no kernel a solver can encode",
 "C14": "structure-preserving traversal of arbitrary Python containers and whole-collection compute/persist: inputs are program shapes without arithmetic or ordering constraints",
 "C15": "delayed programs: operator dispatch and md5 key naming; no solver-encodable kernel",
 "C16": "clone/bind/checkpoint: key renaming via md5 and layer plumbing; the 'runs after parents' part is scheduler behaviour decided under C02",
 "C22": "reductions/scans: values, NaN handling and tolerances live in NumPy C code; the only Python arithmetic (tree fan-in) has one tiny integer input",
 "C25": "lazy-vs-computed metadata over whole pipelines: no standalone kernel; chunk metadata is asserted inside the C19/C20/C23/C24/C26 kernels where it is produced",
 "C27": "unique/bincount/histogram/searchsorted/...: NumPy C kernels per block",
 "C28": "random arrays: bit generators and seed spawning in C",
 "C30": "array-expression engine: needs a separate interpreter configuration; program-level rewrites without arithmetic (its slicing/rechunk reuse C20/C23 kernels)",
 "C31": "linear algebra: LAPACK numerics and floating-point factor checks",
 "C32": "percentiles: float merging in NumPy (merge_percentiles), t-digest",
 "C33": "masked arrays: numpy.ma C code",
 "C35": "map_blocks/blockwise/gufunc need real Array objects whose chunks are consumed by NumPy at construction; the block-alignment kernel is decided under C19",
 "C36": "row-wise dataframe operators: pandas C kernels driven by expression rewriting; no integer kernel of their own",
 "C37": "dataframe reductions: pandas C kernels and float tolerances",
 "C38": "groupby: pandas C kernels, hash-based routing",
 "C39": "joins/concat: pandas merge kernels and hash partitioning",
 "C40": "shuffle/sort: routing is hash_object_dispatch % n and groupsort_indexer in pandas/NumPy C; stage wiring has only tiny concrete inputs",
 "C42": "dataframe meta: pandas dtype inference, no kernel",
 "C43": "dataframe optimizer: expression rewriting over pandas-backed expressions; no arithmetic kernel, program-shaped inputs",
 "C46": "window/cumulative ops: pandas rolling kernels; partition-boundary arithmetic is inside pandas-backed overlap code",
 "C47": "file round trips: pandas CSV parser and pyarrow (absent in the sandbox); block splitting is decided under C50",
 "C49": "bag sampling: random/math.log floating-point reservoir weights",
 "C53": "SerializableLock: pickling and real thread contention; no arithmetic or ordering kernel",
}
import json as _json, os as _os
for _l in open(_os.path.join(_os.path.dirname(_os.path.dirname(_os.path.abspath(__file__))), "properties.jsonl")):
    _p = _json.loads(_l)["id"]
    if _p in CLAIMED:
        continue
    NOT_APPLICABLE[_p] = _NA_DESIGN.get(_p, "solver-based check planned in DESIGN.md sec. 3 but not built/committed yet; not claimed until its check runs clean")
