#!/usr/bin/env python3
"""Regenerate the two generated blocks of DESIGN.md section 10 (repaired table, open findings list) from known_findings.json."""
import json
import os
import re

ROOT = os.path.dirname(os.path.dirname(os.path.abspath(__file__)))
k = json.load(open(os.path.join(ROOT, "known_findings.json")))
rows = ["| property | commit | what failed |", "|---|---|---|"]
for f in k["fixed"]:
    m = re.match(r"fixed: property=(\S+) (\S+) (.*)", f, re.S)
    rows.append(f"| {m.group(1)} | {m.group(2)} | {m.group(3).replace('|', '/')} |")
table = "\n".join(rows)
items = []
for f in k["findings"]:
    ob = f" in obligation `{f['obligation']}`" if f.get("obligation") else ""
    items.append(f"* **{f['property']}** (`{f['id']}`, predicate `{f['pred']}`{ob}): {f['what']}")
flist = "\n".join(items)
p = os.path.join(ROOT, "DESIGN.md")
s = open(p).read()
a = s.index("| property | commit | what failed |")
b = s.index("\n\n", a)
s = s[:a] + table + s[b:]
a = s.index("re-asked with the listed region excluded):\n\n") + len("re-asked with the listed region excluded):\n\n")
b = s.index("\n\n## 11.", a)
s = s[:a] + flist + s[b:]
open(p, "w").write(s)
print(len(k["fixed"]), "fixed,", len(k["findings"]), "open")
