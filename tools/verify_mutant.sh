#!/bin/bash
# usage: verify_mutant.sh <worktree> <k>   -- demo passes clean, fails patched (in the worktree)
WT=$1; K=$2
cd $WT || exit 2
git checkout -q -- . 2>/dev/null
timeout 300 /venv/bin/python MUTATION/demo$K.py >/tmp/vm_clean.log 2>&1; C=$?
git apply MUTATION/patch$K.diff || { echo "$WT $K: patch does not apply"; exit 2; }
timeout 300 /venv/bin/python MUTATION/demo$K.py >/tmp/vm_patched.log 2>&1; P=$?
git checkout -q -- .
echo "$WT patch$K: clean_exit=$C patched_exit=$P"
