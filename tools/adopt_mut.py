#!/usr/bin/env python3
"""adopt_mut.py <PID> <k> <seeded-name> [--tier quick|thorough] [--checks C01,C02]

Confirms a sub-agent's seeded change in its scratch worktree /tmp/mut/<PID> (demo passes on the clean tree, fails with
the patch, patch applies to /repo HEAD), copies it to /verif/seeded/<seeded-name>/ (patch.diff, demo.py, notes.md),
runs the property's check(s) against a scratch worktree carrying the patch, and writes meta.json."""
import argparse
import json
import os
import re
import shutil
import subprocess
import sys
import time

ap = argparse.ArgumentParser()
ap.add_argument("pid")
ap.add_argument("k")
ap.add_argument("name")
ap.add_argument("--tier", default="quick")
ap.add_argument("--checks")
ap.add_argument("--src")
a = ap.parse_args()

WT = a.src or f"/tmp/mut/{a.pid}"
M = os.path.join(WT, "MUTATION")
patch = os.path.join(M, f"patch{a.k}.diff")
demo = f"MUTATION/demo{a.k}.py"


def sh(cmd, cwd=None, timeout=3000):
    p = subprocess.run(cmd, shell=True, cwd=cwd, capture_output=True, text=True, timeout=timeout)
    return p.returncode, (p.stdout + p.stderr)


ran = []
sh("git checkout -q -- . ", WT)
rc_clean, out_clean = sh(f"timeout 600 /venv/bin/python {demo}", WT)
ran.append(f"cd {WT} && /venv/bin/python {demo}   (clean tree) -> exit {rc_clean}")
rc, out = sh(f"git apply {patch}", WT)
if rc:
    print("patch does not apply in the agent worktree:", out)
    sys.exit(2)
rc_pat, out_pat = sh(f"timeout 600 /venv/bin/python {demo}", WT)
ran.append(f"git apply patch{a.k}.diff && /venv/bin/python {demo}   (patched) -> exit {rc_pat}")
sh("git checkout -q -- . ", WT)
print(f"demo: clean exit={rc_clean} patched exit={rc_pat}")
if rc_clean != 0 or rc_pat == 0:
    print("NOT CONFIRMED (demo must pass clean and fail patched)")
    print(out_clean[-600:], "\n---\n", out_pat[-600:])
    sys.exit(1)

# applies to /repo HEAD?
rc, out = sh(f"git -C /repo apply --check {patch}")
if rc:
    print("patch does not apply to /repo HEAD:", out)
    sys.exit(2)

dst = f"/verif/seeded/{a.name}"
os.makedirs(dst, exist_ok=True)
shutil.copy(patch, os.path.join(dst, "patch.diff"))
shutil.copy(os.path.join(WT, demo), os.path.join(dst, "demo.py"))
notes = os.path.join(M, f"notes{a.k}.md")
if os.path.exists(notes):
    shutil.copy(notes, os.path.join(dst, "notes.md"))

checks = (a.checks.split(",") if a.checks else [a.pid])
results = {}
for c in checks:
    wt = f"/tmp/seedwt_{a.name}_{c}"
    sh(f"git -C /repo worktree remove --force {wt}")
    sh(f"git -C /repo worktree add -q --detach {wt} HEAD")
    sh(f"git -C {wt} apply {dst}/patch.diff")
    t0 = time.time()
    rc, out = sh(f"VERIF_REPO={wt} VERIF_NOEVIDENCE=1 timeout 3000 ./check {c} --tier {a.tier}", "/verif", timeout=3100)
    dt = time.time() - t0
    sh(f"git -C /repo worktree remove --force {wt}")
    viol = [l for l in out.splitlines() if l.startswith("VIOLATION")]
    first = ""
    m = re.search(r"^VIOLATION.*\n(.*)$", out, re.M)
    if m:
        first = m.group(1).strip()[:400]
    results[c] = dict(tier=a.tier, exit=rc, violations=len(viol), wall_s=round(dt), first=first)
    ran.append(f"VERIF_REPO=<scratch worktree of /repo HEAD + patch.diff> ./check {c} --tier {a.tier} -> exit {rc}, {len(viol)} VIOLATION lines")
    print(c, results[c])
    os.makedirs("/tmp/seedlogs", exist_ok=True)
    open(f"/tmp/seedlogs/{a.name}.{c}.{a.tier}.log", "w").write(out)

head = subprocess.check_output("git -C /repo rev-parse --short HEAD", shell=True, text=True).strip()
title = ""
if os.path.exists(os.path.join(dst, "notes.md")):
    for l in open(os.path.join(dst, "notes.md")):
        if l.strip():
            title = l.strip().lstrip("# ")
            break
metap = os.path.join(dst, "meta.json")
meta = json.load(open(metap)) if os.path.exists(metap) else {}
meta.update(dict(property=a.pid, summary=title, needs_to_manifest=meta.get("needs_to_manifest", "see notes.md ('needed to manifest')"),
                 demo=dict(clean_exit=rc_clean, patched_exit=rc_pat), repo_head_when_confirmed=head, what_i_ran=ran))
meta.setdefault("check_results", {}).update(results)
meta["detected"] = any(r["exit"] == 1 and r["violations"] > 0 for r in meta["check_results"].values())
json.dump(meta, open(metap, "w"), indent=1)
print("adopted ->", dst, "detected =", meta["detected"])
