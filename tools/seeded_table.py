#!/usr/bin/env python3
"""prints the markdown table of seeded changes (from seeded/*/meta.json) used in DESIGN.md section 12"""
import json, os
ROOT = "/verif/seeded"
print("| seeded change | breaks | what it is | caught by (quick tier unless noted) |")
print("|---|---|---|---|")
for n in sorted(os.listdir(ROOT)):
    mp = os.path.join(ROOT, n, "meta.json")
    if not os.path.exists(mp):
        continue
    m = json.load(open(mp))
    cr = m.get("check_results", {})
    hit = [k for k, r in cr.items() if r.get("exit") == 1 and r.get("violations", 0) > 0]
    miss = [k for k, r in cr.items() if not (r.get("exit") == 1 and r.get("violations", 0) > 0)]
    first = ""
    for k in hit:
        first = cr[k].get("first", "").split("::")[0].split(" {")[0].strip()
        break
    caught = (", ".join(hit) + (f" (obligation `{first}`)" if first else "")) if hit else "**not caught** (" + m.get("why_missed", "see section 12 notes") + ")"
    summ = m.get("summary", "").replace("|", "/")
    summ = summ.split(" - ", 1)[-1].split(" — ", 1)[-1].split(" -- ", 1)[-1]
    print(f"| {n} | {m.get('property')} | {summ[:110]} | {caught} |")
