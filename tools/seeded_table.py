#!/usr/bin/env python3
"""prints the markdown table of seeded changes (from seeded/*/meta.json) used in DESIGN.md section 12"""
import json, os
ROOT = "/verif/seeded"
print("| seeded change | what it is | caught by (quick tier) | what the check needed |")
print("|---|---|---|---|")
for n in sorted(os.listdir(ROOT)):
    mp = os.path.join(ROOT, n, "meta.json")
    if not os.path.exists(mp):
        continue
    m = json.load(open(mp))
    cr = m.get("check_results", {})
    hit = [k for k, r in cr.items() if r.get("exit") == 1 and r.get("violations", 0) > 0]
    first = ""
    for k in hit:
        first = cr[k].get("first", "").split("::")[0].split(" {")[0].strip()
        if first:
            break
    caught = (", ".join(sorted(set(h.split(":")[0] for h in hit))) + (f": `{first}`" if first else "")) if hit else "**not caught**"
    summ = m.get("summary", "").replace("|", "/")
    for sep in (" - ", " — ", " -- "):
        if sep in summ:
            summ = summ.split(sep, 1)[1]
            break
    print(f"| {n} | {summ[:120]} | {caught} | {m.get('strengthening_needed', '')} |")
