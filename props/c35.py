"""C35 -- map_blocks, blockwise and gufuncs see correct blocks and block locations.

Kernels: dask.array.core.map_blocks (block_info / block_id construction, drop_axis / new_axis / chunks= handling),
dask.array.blockwise.blockwise (index validation, chunk selection with align_arrays=False, new_axes, adjust_chunks),
dask.blockwise.blockwise / Blockwise / _make_dims / _get_coord_mapping / _make_blockwise_graph / _lol_product (block alignment with
repeated, contracted and new indices, concatenate=True / lists), dask.array.gufunc.apply_gufunc / _parse_gufunc_signature /
_validate_normalize_axes (core dimensions, axes / axis / keepdims, output_sizes, allow_rechunk).
"""
from __future__ import annotations

import builtins
import itertools
import operator
import warnings

import numpy as np

from symx.core import SInt, SBool, Violation, HarnessError, NativeEngine
from symx.patch import patched, math_shim, INT_SHIM
from symx.run import Obligation

import dask
import dask.array as da
import dask.array.core as AC
import importlib
AB = importlib.import_module("dask.array.blockwise")      # (the attribute dask.array.blockwise is the function)
GU = importlib.import_module("dask.array.gufunc")           # (the attribute dask.array.gufunc is the class)
import dask.blockwise as B
import dask.utils as U

PROPERTY = "C35"
LEVEL = "other"
BUDGET = {"quick": 300, "thorough": 1500}
import os
NOSKIP = True      # the assertions also run inside the regions named by the model variables (two were repaired in /repo; keepdims_axes_moved is an open known finding excluded through known_findings.json)


# ---------------------------------------------------------------- small helpers

def _plain(t):
    """nested tuples of python ints (concretises: the solver enumerates every feasible value)"""
    if isinstance(t, (tuple, list)):
        return tuple(_plain(x) for x in t)
    return operator.index(t)


def _tot(t):
    s = 0
    for c in t:
        s = s + c
    return s


def _cums(t):
    out = [0]
    for c in t:
        out.append(out[-1] + c)
    return out


def _src(shape, o):
    """integer test data: every element of every operand is different"""
    n = int(np.prod(shape, dtype="i8"))
    return (np.arange(n, dtype="i8") * (2 * o + 3) + 101 * o + 1).reshape(shape)


def _from(x, ch, name=None):
    d = da.from_array(x, chunks=ch, name=name)
    if d.chunks != tuple(tuple(c) for c in ch):
        raise HarnessError(f"from_array changed the chunks {ch} -> {d.chunks}")
    return d


def _code(blocks):
    """position-dependent value of a call: depends on every element of every block it was given (and on their order)"""
    code = 0
    for i, b in enumerate(blocks):
        b = np.asarray(b)
        w = np.arange(1, b.size + 1, dtype="i8").reshape(b.shape)
        code += (i + 1) * (int((b * w).sum()) + 13 * b.size + 7 * b.ndim)
    return code % 1000003


def _same_arr(a, b):
    a, b = np.asarray(a), np.asarray(b)
    return a.shape == b.shape and a.dtype == b.dtype and bool(np.array_equal(a, b))


def _assemble(blocks, nbs):
    """np.block of a dict {block id: ndarray} over the grid nbs (independent of dask's concatenation)"""
    if not nbs:
        return np.asarray(blocks[()])

    def rec(prefix, axis):
        if axis == len(nbs):
            return blocks[prefix]
        return np.concatenate([rec(prefix + (i,), axis + 1) for i in range(nbs[axis])], axis=axis)
    return rec((), 0)


# ---------------------------------------------------------------- the reference model of a blocked call (plain Python + NumPy slicing)
#
# An operand is (ndarray, chunks, ind): `ind` gives one label per axis.  A call pattern is (out labels, operands, nblocks per label).
# Output block `loc` (label -> block coordinate) must be computed from, per operand axis with label l:
#   * the operand's block loc[l]                       if l is an output label and the operand has several blocks there,
#   * the operand's only block                          if the operand has one block there (block broadcasting),
#   * all the operand's blocks, in order                if l is contracted (not an output label): concatenated (concatenate=True) or
#                                                       as a list (one nesting level per contracted axis, in axis order); a single-block
#                                                       operand gives its block once (concatenated) / once per block of l (lists).

class Op:
    def __init__(self, x, chunks, ind):
        self.x, self.chunks, self.ind = x, tuple(tuple(c) for c in chunks), tuple(ind)
        self.starts = [_cums(c) for c in self.chunks]
        if tuple(sum(c) for c in self.chunks) != x.shape or len(self.ind) != x.ndim:
            raise HarnessError(f"operand shape {x.shape} / chunks {chunks} / index {ind} inconsistent")


def _sel(op, loc, dims, contracted, listmode):
    """per axis: a block number, or the list of block numbers that are combined"""
    out = []
    for a, l in enumerate(op.ind):
        n = len(op.chunks[a])
        if l in contracted:
            out.append([0] * (dims[l] if listmode else 1) if n == 1 else list(range(n)))
        else:
            out.append(0 if n == 1 else loc[l])
    return out


def _blk(op, bs):
    return op.x[tuple(slice(op.starts[a][b], op.starts[a][b + 1]) for a, b in enumerate(bs))]


def want_block(op, loc, dims, contracted, listmode=False):
    sel = _sel(op, loc, dims, contracted, listmode)
    if listmode:
        def rec(a, bs):
            if a == len(sel):
                return _blk(op, bs)
            if isinstance(sel[a], list):
                return [rec(a + 1, bs + (b,)) for b in sel[a]]
            return rec(a + 1, bs + (sel[a],))
        return rec(0, ())
    sl = []
    for a, s in enumerate(sel):
        if isinstance(s, list):
            sl.append(slice(op.starts[a][s[0]], op.starts[a][s[-1] + 1]))
        else:
            sl.append(slice(op.starts[a][s], op.starts[a][s + 1]))
    return op.x[tuple(sl)]


def want_location(op, loc, dims, contracted):
    """(chunk-location, array-location, num-chunks) of the block an operand contributes, contracted axes seen as one concatenated chunk"""
    sel = _sel(op, loc, dims, contracted, False)
    cl, al, nc = [], [], []
    for a, s in enumerate(sel):
        if isinstance(s, list):
            cl.append(0)
            al.append((0, op.x.shape[a]))
            nc.append(1)
        else:
            cl.append(s)
            al.append((op.starts[a][s], op.starts[a][s + 1]))
            nc.append(len(op.chunks[a]))
    return tuple(cl), al, tuple(nc)


def _same_nested(a, b):
    if isinstance(a, (list, tuple)) or isinstance(b, (list, tuple)):
        return isinstance(a, (list, tuple)) and isinstance(b, (list, tuple)) and len(a) == len(b) and builtins.all(_same_nested(x, y) for x, y in zip(a, b))
    return _same_arr(a, b)


def _copy_nested(a):
    if isinstance(a, (list, tuple)):
        return [_copy_nested(x) for x in a]
    return np.array(a, copy=True) if isinstance(a, np.ndarray) else a


def _flat(a):
    if isinstance(a, (list, tuple)):
        for x in a:
            yield from _flat(x)
    else:
        yield a


# ---------------------------------------------------------------- (1) map_blocks through the public API (solver-enumerated inputs)

def declare_chunks(e, tag, NB, CH, DMAX):
    """chunks of one index.  NB an int: 1..NB chunks of solver-enumerated sizes in [0, CH] adding up to <= DMAX; NB a list: one of the listed
    chunk tuples (quick tier: single chunk, size 1, irregular, with an empty chunk)"""
    if isinstance(NB, (list, tuple)):
        return tuple(e.pick(f"ch{tag}", NB))
    n = 1 + e.choice(f"nb{tag}", NB)
    ch = tuple(e.int(f"c{tag}_{i}", 0, CH) for i in range(n))
    e.assume(lambda: _tot(ch) <= DMAX)
    return _plain(ch)


MB_OPTS = ("plain", "lit", "drop", "new", "dropnew", "new_chunks", "new_implicit", "chunks_int", "chunks_tuple", "shifted")


def mb_declare(e, ndims, NB, CH, DMAX, opt, cross=False):
    """solver-enumerated scenario.  Index k = axis k from the right (operands are right-aligned like NumPy broadcasting).
    Per operand axis a mode: 0 = the index's chunks, 1 = one chunk of size 1 (broadcast), 2 = one chunk holding the whole axis."""
    nd = builtins.max(ndims)
    chunks = {}
    for k in range(nd):
        chunks[k] = declare_chunks(e, f"{k}", NB, CH, DMAX)
    modes = {}
    for k in range(nd):
        carriers = [o for o, m in enumerate(ndims) if m > k]
        n, D = len(chunks[k]), sum(chunks[k])
        for o in carriers:
            m = e.choice(f"m{o}_{k}", 3) if len(carriers) > 1 else 0
            # a size-1 chunk on a size-1 single-block index, or the whole axis of a single-block index, is mode 0 again
            e.assume(not (m == 1 and n == 1 and D == 1) and not (m == 2 and n == 1))
            modes[o, k] = m
        if n == 1:
            # documented: without chunks= the result takes "the block structure of the first input array"; the first operand that
            # carries a single-block index must therefore have the full length there (see ASSUMPTIONS)
            e.assume(modes[carriers[0], k] == 0)
        else:
            e.assume(builtins.any(modes[o, k] == 0 for o in carriers))
    nkeep = nd
    drop, new = (), ()
    # spelling of the arguments (negative axis numbers, a bare int instead of a list): independent solver-enumerated dimensions when
    # cross is set (thorough tier), otherwise a fixed function of the scenario so far (quick tier)
    salt = sum((k + 2) * (i + 3) * (c + 1) for k in range(nd) for i, c in enumerate(chunks[k])) + sum((o + 5) * (k + 1) * m for (o, k), m in modes.items())

    def spelling(name, bit):
        return e.flag(name) if cross else bool((salt >> bit) & 1)
    if opt in ("drop", "dropnew"):
        p = e.choice("drop_pos", nd)
        drop = (p,)
        if nd >= 2 and e.flag("drop_two"):
            q = e.choice("drop_pos2", nd)
            e.assume(q > p)
            drop = (p, q)
        nkeep = nd - len(drop)
        neg = spelling("drop_negative", 0)
        drop_arg = [d - nd if neg else d for d in drop]
        if len(drop) == 1 and spelling("drop_scalar", 1):
            drop_arg = drop_arg[0]
    else:
        drop_arg = None
    if opt in ("new", "dropnew", "new_chunks"):
        p = e.choice("new_pos", nkeep + 1)
        new = (p,)
        if opt == "new" and e.flag("new_two"):
            q = e.choice("new_pos2", nkeep + 2)
            e.assume(q > p)
            new = (p, q)
        new_arg = list(new)
        if len(new) == 1 and spelling("new_scalar", 2):
            new_arg = new[0]
        if len(new) == 2 and spelling("new_unsorted", 3):
            new_arg = new_arg[::-1]
    elif opt == "new_implicit":
        # documented: "If chunks is specified but new_axis is not, then it is inferred to add the necessary number of axes on the left"
        new = (0, 1) if e.flag("new_two") else (0,)
        new_arg = None
    else:
        new_arg = None
    newsize = (1,)
    if opt in ("new_chunks", "new_implicit"):
        newsize = (1 + e.choice("new_size", 2),) * (1 + e.choice("new_nblocks", 2))
    return dict(ndims=tuple(ndims), nd=nd, chunks=chunks, modes=modes, drop=drop, drop_arg=drop_arg, new=new, new_arg=new_arg,
                newsize=newsize, opt=opt)


def mb_build(s):
    """operands, output labels, expected output chunks and the per-axis rule for the shape of the block the user function returns"""
    nd, chunks, modes, opt = s["nd"], s["chunks"], s["modes"], s["opt"]
    ops = []
    for o, m in enumerate(s["ndims"]):
        ch = []
        for a in range(m):
            k = m - 1 - a
            if opt == "explicit":               # every operand axis with its own chunk sizes; chunks=(2, ...) is passed
                ch.append(tuple(s["explicit"][o, k]))
                continue
            c = chunks[k]
            if opt == "shifted" and o > 0:
                c = tuple(x + 1 for x in c)      # same number of blocks, different sizes: map_blocks aligns by block position only
            ch.append({0: c, 1: (1,), 2: (sum(c),)}[modes[o, k]])
        ops.append(Op(_src(tuple(sum(c) for c in ch), o), ch, tuple(m - 1 - a for a in range(m))))
    if opt == "explicit":
        chunks = {k: builtins.max((s["explicit"][o, k] for o, m in enumerate(s["ndims"]) if m > k), key=len) for k in range(nd)}
        modes = {(o, k): 0 for o, m in enumerate(s["ndims"]) for k in range(m)}
    before = [nd - 1 - p for p in range(nd)]                      # labels of the broadcast result, left to right
    contracted = {before[p] for p in s["drop"]}
    kept = [l for l in before if l not in contracted]
    nout = len(kept) + len(s["new"])
    olabels, it = [], iter(kept)
    for p in range(nout):                                          # new axes end up AT the given positions (as np.expand_dims)
        olabels.append(("new", s["new"].index(p)) if p in s["new"] else next(it))
    # the first operand (argument order) with the full chunking of an index decides the block size there
    desig = {}
    for k in kept:
        for o, m in enumerate(s["ndims"]):
            if m > k and modes[o, k] == 0:
                desig[k] = (o, m - 1 - k)
                break
    dims = {k: len(chunks[k]) for k in range(nd)}
    ochunks, rule = [], []
    for l in olabels:
        if isinstance(l, tuple):
            ochunks.append(tuple(s["newsize"]))
            dims[l] = len(s["newsize"])
            rule.append(("const", s["newsize"][0]))
        elif opt in ("chunks_int", "shifted", "explicit"):
            ochunks.append((2,) * len(chunks[l]))
            rule.append(("const", 2))
        elif opt == "chunks_tuple":
            ochunks.append(tuple((c + 1) // 2 for c in chunks[l]))
            rule.append(("half",) + desig[l])
        else:
            ochunks.append(chunks[l])
            rule.append(("same",) + desig[l])
    if opt in ("chunks_int", "shifted", "explicit"):
        chunks_arg = (2,) * nout
    elif opt in ("chunks_tuple", "new_chunks", "new_implicit"):
        chunks_arg = tuple(ochunks)
    else:
        chunks_arg = None
    return ops, olabels, contracted, dims, tuple(ochunks), rule, chunks_arg


def _ret_shape(rule, blocks):
    shp = []
    for r in rule:
        if r[0] == "const":
            shp.append(r[1])
        else:
            n = blocks[r[1]].shape[r[2]]
            shp.append(n if r[0] == "same" else (n + 1) // 2)
    return tuple(shp)


def mb_run(e, s, kinds=("plain", "info")):
    ops, olabels, contracted, dims, ochunks, rule, chunks_arg = mb_build(s)
    lit = s["opt"] == "lit"
    nbs = tuple(len(c) for c in ochunks)
    ostarts = [_cums(c) for c in ochunks]
    oshape = tuple(sum(c) for c in ochunks)
    ids = list(itertools.product(*[range(n) for n in nbs]))
    info_s = f"operand chunks={[op.chunks for op in ops]} drop_axis={s['drop_arg']} new_axis={s['new_arg']} chunks={chunks_arg}"

    # reference: one call per output block
    want_in, want_out = {}, {}
    for bid in ids:
        loc = {l: b for l, b in zip(olabels, bid)}
        want_in[bid] = [want_block(op, loc, dims, contracted) for op in ops]
        want_out[bid] = np.full(_ret_shape(rule, want_in[bid]), _code(want_in[bid]) + (5 if lit else 0), dtype="i8")
        e.check(want_out[bid].shape == tuple(ochunks[a][b] for a, b in enumerate(bid)), "harness: reference block shape differs from the reference chunks")
    ref = _assemble(want_out, nbs)

    log = []

    def body(blocks, scal, kw, block_info, block_id):
        log.append(dict(blocks=[np.array(b, copy=True) for b in blocks], scal=scal, kw=kw, info=block_info, bid=block_id))
        return np.full(_ret_shape(rule, blocks), _code(blocks) + scal + kw, dtype="i8")

    if lit:
        def f_plain(scal, *blocks, kw=0):
            return body(blocks, scal, kw, None, None)

        def f_info(scal, *blocks, kw=0, block_info=None, block_id=None):
            return body(blocks, scal, kw, block_info, block_id)
    else:
        def f_plain(*blocks):
            return body(blocks, 0, 0, None, None)

        def f_info(*blocks, block_info=None, block_id=None):
            return body(blocks, 0, 0, block_info, block_id)

    obs = []
    for kind in kinds:
        f = f_plain if kind == "plain" else f_info
        arrs = [_from(op.x, op.chunks, name=f"src{o}") for o, op in enumerate(ops)]
        args = ([2] if lit else []) + arrs
        shift = 1 if lit else 0
        kwargs = dict(dtype="i8")
        if lit:
            kwargs["kw"] = 3
        if s["drop_arg"] is not None:
            kwargs["drop_axis"] = s["drop_arg"]
        if s["new_arg"] is not None:
            kwargs["new_axis"] = s["new_arg"]
        if chunks_arg is not None:
            kwargs["chunks"] = chunks_arg
        with warnings.catch_warnings():
            warnings.simplefilter("ignore")
            r = da.map_blocks(f, *args, **kwargs)
            e.check(r.chunks == ochunks, f"map_blocks declares chunks {r.chunks}, the blocks that the function returns have {ochunks} ({info_s})")
            e.check(r.shape == oshape and r.dtype == np.dtype("i8"), f"map_blocks declares shape {r.shape} / dtype {r.dtype}, expected {oshape} ({info_s})")
            del log[:]
            got = r.compute(scheduler="sync")
        calls = list(log)
        e.check(len(calls) == len(ids), f"user function called {len(calls)} times for {len(ids)} output blocks ({info_s})")
        e.check(_same_arr(got, ref), f"map_blocks result differs from applying the function to the aligned blocks ({kind}; {info_s})")
        # the multiset of calls: every output block's aligned inputs exactly once
        left = list(ids)
        for c in calls:
            e.check(c["scal"] == (2 if lit else 0) and c["kw"] == (3 if lit else 0), "literal / keyword argument changed on the way to the user function")
            hit = None
            cand = [c["bid"]] if kind == "info" else left
            for bid in cand:
                if bid in left and len(c["blocks"]) == len(ops) and builtins.all(_same_arr(g, w) for g, w in zip(c["blocks"], want_in[bid])):
                    hit = bid
                    break
            e.check(hit is not None, f"a call of the user function got blocks {[b.tolist() for b in c['blocks']]} (block_id={c['bid']}): not the aligned input blocks of "
                                     f"{'that' if kind == 'info' else 'any remaining'} output block ({info_s})")
            left.remove(hit)
            if kind != "info":
                continue
            bid, bi = c["bid"], c["info"]
            e.check(isinstance(bid, tuple) and isinstance(bi, dict), f"block_id / block_info not passed during compute: {bid!r} {type(bi).__name__}")
            e.check(set(bi) == {None} | {o + shift for o in range(len(ops))}, f"block_info keys {sorted(map(str, bi))}: expected the positions of the array arguments and None ({info_s})")
            loc = {l: b for l, b in zip(olabels, bid)}
            for o, op in enumerate(ops):
                d = bi[o + shift]
                cl, al, nc = want_location(op, loc, dims, contracted)
                msg = f"block_info[{o + shift}] of output block {bid} = {d} ({info_s})"
                e.check(tuple(d["shape"]) == op.x.shape, "shape wrong: " + msg)
                e.check(tuple(d["num-chunks"]) == nc, f"num-chunks wrong, expected {nc}: " + msg)
                e.check(tuple(d["chunk-location"]) == cl, f"chunk-location wrong, the block passed is block {cl}: " + msg)
                e.check([tuple(x) for x in d["array-location"]] == al, f"array-location wrong, the block passed covers {al}: " + msg)
                e.check(_same_arr(op.x[tuple(slice(a, b) for a, b in d["array-location"])], c["blocks"][o]), "array-location does not select the block that was passed: " + msg)
            d = bi[None]
            msg = f"block_info[None] of output block {bid} = {d} ({info_s})"
            e.check(tuple(d["shape"]) == oshape, "shape wrong: " + msg)
            e.check(tuple(d["num-chunks"]) == nbs, "num-chunks wrong: " + msg)
            e.check(tuple(d["chunk-location"]) == bid, "chunk-location wrong: " + msg)
            al = [(ostarts[a][b], ostarts[a][b + 1]) for a, b in enumerate(bid)]
            e.check([tuple(x) for x in d["array-location"]] == al, f"array-location wrong, expected {al}: " + msg)
            e.check(tuple(d["chunk-shape"]) == want_out[bid].shape, "chunk-shape wrong: " + msg)
            e.check(np.dtype(d["dtype"]) == np.dtype("i8"), "dtype wrong: " + msg)
            e.check(_same_arr(got[tuple(slice(a, b) for a, b in d["array-location"])], want_out[bid]), "the output array-location does not hold this call's result: " + msg)
        e.check(not left, f"output blocks {left} were never computed")
        obs.append([list(c) for c in r.chunks])
    return obs


def mk_map_blocks(ndims, opt, NB, CH=0, DMAX=0, cross=False, kinds=("plain", "info")):
    def setup(e):
        return (mb_declare(e, ndims, NB, CH, DMAX, opt, cross),)

    def run(e, s):
        return mb_run(e, s, kinds)

    b = f"chunks in {list(NB)}" if isinstance(NB, (list, tuple)) else f"blocks<={NB},chunk<={CH},dim<={DMAX}"
    return Obligation(f"map_blocks[{opt},ndims={list(ndims)},{b}]", setup, run)


def mk_map_blocks_noarray(nd, lists):
    """da.map_blocks(func, chunks=..., dtype=...) without array arguments (the docstring's "synthesize an array from scratch"): the function
    builds its block from block_info[None]['array-location'] alone; the result must be the row-major index array"""
    def setup(e):
        chunks = tuple(declare_chunks(e, f"{a}", lists, 0, 0) for a in range(nd))
        return chunks, e.flag("literal")

    def run(e, chunks, lit):
        shape = tuple(sum(c) for c in chunks)
        log = []

        def f(*scal, block_info=None, block_id=None):
            log.append((scal, block_info, block_id))
            loc = block_info[None]["array-location"]
            grids = np.meshgrid(*[np.arange(a, b) for a, b in loc], indexing="ij") if loc else []
            out = np.zeros(tuple(b - a for a, b in loc), dtype="i8")
            for g, n in zip(grids, shape):
                out = out * n + g
            return out + sum(scal)

        r = da.map_blocks(f, *([10] if lit else []), chunks=chunks, dtype="i8")
        e.check(r.chunks == chunks and r.shape == shape, f"declared chunks {r.chunks} for chunks={chunks}")
        del log[:]
        got = r.compute(scheduler="sync")
        want = np.arange(int(np.prod(shape, dtype="i8")), dtype="i8").reshape(shape) + (10 if lit else 0)
        e.check(_same_arr(got, want), f"array synthesised from block_info[None]['array-location'] differs from the index array (chunks={chunks})")
        ids = list(itertools.product(*[range(len(c)) for c in chunks]))
        e.check(sorted(c[2] for c in log) == ids, f"block ids seen {sorted(c[2] for c in log)}, expected {ids}")
        for scal, bi, bid in log:
            e.check(set(bi) == {None}, f"block_info keys {list(bi)} without array arguments")
            d = bi[None]
            e.check(tuple(d["chunk-location"]) == bid and tuple(d["num-chunks"]) == tuple(len(c) for c in chunks) and tuple(d["shape"]) == shape
                    and tuple(d["chunk-shape"]) == tuple(chunks[a][b] for a, b in enumerate(bid)), f"block_info[None] = {d} for block {bid}, chunks={chunks}")
        return [list(c) for c in r.chunks]

    return Obligation(f"map_blocks_noarray[ndim={nd},chunks in {list(lists)}]", setup, run)


# ---------------------------------------------------------------- (2) da.blockwise through the public API (solver-enumerated inputs)

BW_PATTERNS = {
    # name: (output labels, operand labels (None = literal), new labels)
    "matmul": ("ik", ["ij", "jk"], ""),
    "dot": ("", ["i", "i"], ""),
    "rowsum": ("i", ["ij"], ""),
    "matvec": ("i", ["ij", "j"], ""),
    "outer": ("ij", ["i", "j"], ""),
    "transpose": ("ji", ["ij", "ji"], ""),
    "contract2": ("j", ["ijk"], ""),
    "diag": ("i", ["ii"], ""),
    "diag_vec": ("i", ["ii", "i"], ""),
    "literal": ("ji", ["ij", None, "j"], ""),
    "newaxis": ("izy", ["i"], "zy"),
    "adjust": ("ij", ["ij", "j"], ""),
}
CHNZ = [(2,), (1, 2), (1, 1, 2)]


def _mode_chunks(c, m):
    return {0: c, 1: (1,), 2: (sum(c),), 3: c[::-1]}[m]


def _refine(chunkings):
    """common refinement of several chunkings of one dimension (no empty chunks): the union of their boundaries"""
    b = sorted({p for ch in chunkings for p in _cums(ch)})
    return tuple(y - x for x, y in zip(b, b[1:])) if len(b) > 1 else (0,)


def bw_declare(e, pname, lists, align, adjust=None):
    """modes per operand axis: 0 = the label's chunks, 1 = one chunk of size 1, 2 = one chunk with the whole axis, 3 = (align_arrays=True only) the
    label's chunks in reverse order"""
    olab, ins, newlab = BW_PATTERNS[pname]
    labels = sorted({c for ind in ins if ind for c in ind})
    chunks = {l: declare_chunks(e, l, lists[l], 0, 0) for l in labels}
    axes = [(o, a, l) for o, ind in enumerate(ins) if ind for a, l in enumerate(ind)]
    modes = {}
    for l in labels:
        car = [(o, a) for o, a, ll in axes if ll == l]
        n, D = len(chunks[l]), sum(chunks[l])
        for o, a in car:
            m = e.choice(f"m{o}_{a}", 4 if align else 3) if len(car) > 1 else 0
            e.assume(not (m == 1 and n == 1 and D == 1) and not (m == 2 and n == 1))
            e.assume(not (m == 3 and chunks[l] == chunks[l][::-1]))
            e.assume(not (m == 1 and ins[o].count(l) > 1))      # (no size-1 axis inside a repeated label of one operand: x[i, i] needs a square x)
            modes[o, a] = m
        full = [oa for oa in car if modes[oa] != 1]
        e.assume(len(full) > 0)
        if align:
            e.assume(0 not in chunks[l])            # (the number of empty chunks in a common refinement is not determined: C19)
        if not align and (builtins.all(modes[oa] in (1, 2) for oa in car) or n == 1):
            # align_arrays=False and every operand has one block there: the first one decides the declared chunk ("block structure of the
            # first input"), so it has to be full size (see ASSUMPTIONS); with align_arrays=True unify_chunks broadcasts size-1 axes itself
            e.assume(modes[car[0]] != 1)
        if not align:
            e.assume(builtins.any(modes[oa] == 0 for oa in car) or n == 1)
    newsizes = {}
    for z in newlab:
        newsizes[z] = (1 + e.choice(f"new_size_{z}", 2),) * (1 + e.choice(f"new_nblocks_{z}", 2))
    concat = e.flag("concatenate") if builtins.any(l not in olab for l in labels) else False
    # KNOWN DEFECT REGION (reported): with align_arrays=True and a single array operand (or several with identical index and chunks),
    # unify_chunks takes a shortcut that does not align the axes of a label that is repeated inside the operand ('ii'): the blocks passed are not
    # the diagonal blocks.  repeated_index_unaligned = 1 iff that shortcut is taken although the two axes are chunked differently.
    arr = [o for o, ind in enumerate(ins) if ind]
    rep = int(bool(align) and len(arr) == 1 and builtins.any(
        len({_mode_chunks(chunks[l], modes[o, a]) for a, ll in enumerate(ins[o]) if ll == l}) > 1 for o in arr for l in set(ins[o])))
    flag = e.int("repeated_index_unaligned", 0, 1)
    e.assume(lambda: flag == rep)
    return dict(known=rep, pname=pname, chunks=chunks, modes=modes, align=align, concat=concat, newsizes=newsizes, adjust=adjust)


def bw_build(s):
    olab, ins, newlab = BW_PATTERNS[s["pname"]]
    if s.get("explicit"):
        # witness of a symbolic path: every operand axis with its own chunk sizes, align_arrays=False, adjust_chunks={label: 2} for every output label
        ex = s["explicit"]
        ops_dask, ops = {}, {}
        for o, ind in enumerate(ins):
            if ind is None:
                continue
            ch = [tuple(ex[o, a]) for a in range(len(ind))]
            x = _src(tuple(sum(c) for c in ch), o)
            ops_dask[o] = (x, tuple(ch))
            ops[o] = Op(x, ch, ind)
        labels = sorted({c for ind in ins if ind for c in ind})
        dims = {l: builtins.max(len(ops[o].chunks[a]) for o, ind in enumerate(ins) if ind for a, ll in enumerate(ind) if ll == l) for l in labels}
        for z in newlab:
            dims[z] = len(s["newsizes"][z])
        ochunks = tuple((2,) * dims[l] for l in olab)
        return ops_dask, ops, dims, {l for l in labels if l not in olab}, ochunks, [("const", 2)] * len(olab), {l: 2 for l in olab}
    chunks, modes, align = s["chunks"], s["modes"], s["align"]
    raw = {}      # operand chunkings as passed to dask
    for o, ind in enumerate(ins):
        if ind is None:
            continue
        raw[o] = [_mode_chunks(chunks[l], modes[o, a]) for a, l in enumerate(ind)]
    labels = sorted(chunks)
    aligned = {}
    for l in labels:
        if align:
            aligned[l] = _refine([raw[o][a] for o, ind in enumerate(ins) if ind for a, ll in enumerate(ind) if ll == l and modes[o, a] != 1])
    ops_dask, ops = {}, {}
    for o, ind in enumerate(ins):
        if ind is None:
            continue
        x = _src(tuple(sum(c) for c in raw[o]), o)
        ops_dask[o] = (x, tuple(raw[o]))
        ch = [((1,) if modes[o, a] == 1 else aligned[l]) if align else raw[o][a] for a, l in enumerate(ind)]
        ops[o] = Op(x, ch, ind)
    dims = {l: builtins.max(len(ops[o].chunks[a]) for o, ind in enumerate(ins) if ind for a, ll in enumerate(ind) if ll == l) for l in labels}
    for z in newlab:
        dims[z] = len(s["newsizes"][z])
    contracted = {l for l in labels if l not in olab}
    desig = {}
    for l in olab:
        if l in newlab:
            continue
        car = [(o, a) for o, ind in enumerate(ins) if ind for a, ll in enumerate(ind) if ll == l]
        best = [oa for oa in car if len(ops[oa[0]].chunks[oa[1]]) == dims[l] and modes[oa] != 1] or [oa for oa in car if modes[oa] != 1]
        desig[l] = best[0]
    ochunks, rule = [], []
    adjust_arg = None
    for p, l in enumerate(olab):
        if l in newlab:
            ochunks.append(s["newsizes"][l])
            rule.append(("const", s["newsizes"][l][0]))
            continue
        o, a = desig[l]
        base = ops[o].chunks[a]
        if s["adjust"] and p == 0:
            if s["adjust"] == "callable":
                adjust_arg = {l: _affine}
                ochunks.append(tuple(2 * c + 1 for c in base))
                rule.append(("affine", o, a))
            elif s["adjust"] == "int":
                adjust_arg = {l: 3}
                ochunks.append((3,) * len(base))
                rule.append(("const", 3))
            else:
                adjust_arg = {l: tuple(c + 1 for c in base)}
                ochunks.append(tuple(c + 1 for c in base))
                rule.append(("plus1", o, a))
        else:
            ochunks.append(base)
            rule.append(("same", o, a))
    return ops_dask, ops, dims, contracted, tuple(ochunks), rule, adjust_arg


def _affine(n):
    return 2 * n + 1


def _ret_shape2(rule, args):
    shp = []
    for r in rule:
        if r[0] == "const":
            shp.append(r[1])
        else:
            n = next(_flat(args[r[1]])).shape[r[2]]
            shp.append({"same": n, "affine": 2 * n + 1, "plus1": n + 1}[r[0]])
    return tuple(shp)


def _code2(args):
    """position-dependent value of a call; nested lists contribute their leaves in order and their nesting"""
    leaves, struct = [], 0
    for i, a in enumerate(args):
        if isinstance(a, (list, tuple)):
            fl = list(_flat(a))
            struct += (i + 1) * (31 * len(a) + 17 * len(fl))
            leaves += fl
        else:
            leaves.append(a)
    return (_code(leaves) + struct) % 1000003


def bw_run(e, s):
    olab, ins, newlab = BW_PATTERNS[s["pname"]]
    if s["known"] and not NOSKIP:
        return "known defect region (repeated index inside one operand, axes chunked differently, align_arrays=True): skipped"
    ops_dask, ops, dims, contracted, ochunks, rule, adjust_arg = bw_build(s)
    listmode = bool(contracted) and not s["concat"]
    nbs = tuple(len(c) for c in ochunks)
    oshape = tuple(sum(c) for c in ochunks)
    ids = list(itertools.product(*[range(n) for n in nbs]))
    order = sorted(ops)
    info_s = (f"blockwise(f, {olab!r}, " + ", ".join(f"x{o}{list(ops_dask[o][1])}, {ins[o]!r}" if ins[o] else "7, None" for o in range(len(ins)))
              + f", align_arrays={s['align']}, concatenate={s['concat'] or None}, new_axes={s['newsizes']}, adjust_chunks={s['adjust']})")
    want_in, want_out = {}, {}
    for bid in ids:
        loc = {l: b for l, b in zip(olab, bid)}
        want_in[bid] = {o: want_block(ops[o], loc, dims, contracted, listmode) for o in order}
        wargs = [want_in[bid][o] for o in order]
        shp = _ret_shape2(rule, {o: want_in[bid][o] for o in order})
        want_out[bid] = np.full(shp, _code2(wargs) + 7 * (len(ins) - len(order)) + 4, dtype="i8")
        e.check(shp == tuple(ochunks[a][b] for a, b in enumerate(bid)), "harness: reference block shape differs from the reference chunks")
    ref = _assemble(want_out, nbs)
    log = []

    def f(*args, kw=0):
        arrs = {o: args[o] for o in order}
        lits = [args[o] for o in range(len(ins)) if ins[o] is None]
        log.append(dict(args={o: _copy_nested(a) for o, a in arrs.items()}, lits=lits, kw=kw))
        return np.full(_ret_shape2(rule, arrs), _code2([arrs[o] for o in order]) + sum(lits) + kw, dtype="i8")

    args = []
    for o, ind in enumerate(ins):
        if ind is None:
            args += [7, None]
        else:
            args += [_from(ops_dask[o][0], ops_dask[o][1], name=f"src{o}"), ind]
    kwargs = dict(dtype="i8", kw=4, align_arrays=s["align"], meta=np.empty((0,) * len(olab), dtype="i8"))
    if s["concat"]:
        kwargs["concatenate"] = True
    if newlab:
        kwargs["new_axes"] = {z: (v if len(v) > 1 else v[0]) for z, v in s["newsizes"].items()}
    if adjust_arg:
        kwargs["adjust_chunks"] = adjust_arg
    with warnings.catch_warnings():
        warnings.simplefilter("ignore")
        r = da.blockwise(f, olab, *args, **kwargs)
        e.check(r.chunks == ochunks, f"blockwise declares chunks {r.chunks}, the blocks that the function returns have {ochunks}: {info_s}")
        e.check(r.shape == oshape and r.dtype == np.dtype("i8"), f"blockwise declares shape {r.shape} / dtype {r.dtype}, expected {oshape}: {info_s}")
        del log[:]
        got = r.compute(scheduler="sync")
    calls = list(log)
    e.check(len(calls) == len(ids), f"user function called {len(calls)} times for {len(ids)} output blocks: {info_s}")
    left = list(ids)
    for c in calls:
        e.check(c["lits"] == [7] * (len(ins) - len(order)) and c["kw"] == 4, "literal / keyword argument changed on the way to the user function")
        hit = None
        for bid in left:
            if builtins.all(_same_nested(c["args"][o], want_in[bid][o]) for o in order):
                hit = bid
                break
        e.check(hit is not None, f"a call of the user function got {_show(c['args'])}: not the aligned input blocks of any remaining output block: {info_s}")
        left.remove(hit)
    e.check(_same_arr(got, ref), f"blockwise result differs from applying the function to the aligned blocks: {info_s}")
    return [list(c) for c in r.chunks]


def _show(a):
    if isinstance(a, dict):
        return {k: _show(v) for k, v in a.items()}
    if isinstance(a, (list, tuple)):
        return [_show(x) for x in a]
    return np.asarray(a).tolist()


def mk_blockwise(pname, lists, align, adjust=None):
    def setup(e):
        return (bw_declare(e, pname, lists, align, adjust),)

    def run(e, s):
        return bw_run(e, s)

    olab, ins, newlab = BW_PATTERNS[pname]
    sig = ",".join(i if i else "lit" for i in ins) + "->" + olab
    b = "; ".join(f"{l} in {list(v)}" for l, v in sorted(lists.items()))
    return Obligation(f"blockwise[{pname} {sig},align_arrays={align}{',adjust_chunks=' + adjust if adjust else ''},{b}]", setup, run)


# ---------------------------------------------------------------- (3) apply_gufunc against numpy.vectorize(signature=...) (solver-enumerated inputs)

def _g_sum(x):
    return (x * (np.arange(x.shape[-1]) + 1)).sum(-1)


def _g_dot(x, y):
    return (x * (y + 1)).sum(-1)


def _g_matvec(a, v):
    return (a * (v[..., None, :] + 2)).sum(-1)


def _g_expand(x):
    return x[..., None] * np.arange(1, 4)


def _g_cumsum(x):
    return np.cumsum(x, axis=-1)


def _g_stats(x):
    return x.sum(-1), (x * (np.arange(x.shape[-1]) + 2)).sum(-1) - 1


def _g_cum_sum(x):
    return np.cumsum(x, axis=-1), (x * (np.arange(x.shape[-1]) + 1)).sum(-1)


def _g_sub(x, y):
    return x - 2 * y


def _g_outer(x, y):
    return x[..., :, None] * (y[..., None, :] + 1)


def _g_swap(a):
    return np.swapaxes(a, -1, -2) * 2 + 1


GU_CASES = {
    # name: (signature, function (works on core arrays and broadcasts over leading loop dimensions), output_sizes)
    "sum": ("(i)->()", _g_sum, None),
    "dot": ("(i),(i)->()", _g_dot, None),
    "matvec": ("(i,j),(j)->(i)", _g_matvec, None),
    "expand": ("()->(k)", _g_expand, {"k": 3}),
    "cumsum": ("(i)->(i)", _g_cumsum, None),
    "stats": (" (i) -> (), () ", _g_stats, None),
    "cum_sum": ("(i)->(i),()", _g_cum_sum, None),
    "sub": ("(),()->()", _g_sub, None),
    "outer": ("(i),(j)->(i,j)", _g_outer, None),
    "swap": ("(i,j)->(j,i)", _g_swap, None),
}


def _parse_sig(sig):
    """own reading of a gufunc signature (NumPy C-API docs): '(i,j),(j)->(i)' -> [('i','j'),('j',)], [('i',)]"""
    import re
    sig = "".join(sig.split())
    a, b = sig.split("->")
    rd = lambda t: [tuple(x for x in g.split(",") if x) for g in re.findall(r"\(([^)]*)\)", t)]
    return rd(a), rd(b)


def _move_perm(nd, src, dst):
    """the axis order np.moveaxis(x, src, dst) produces (NumPy's documented algorithm), as a permutation of range(nd)"""
    src = [a % nd for a in src]
    dst = [a % nd for a in dst]
    order = [n for n in range(nd) if n not in src]
    for d, sx in sorted(zip(dst, src)):
        order.insert(d, sx)
    return order


def np_gufunc(fn, sig, args, in_axes, out_axes, keepdims):
    """NumPy's gufunc semantics on top of numpy.vectorize(signature=...): core dimensions of input n are taken from in_axes[n] (moved to the end),
    output core dimensions (or, with keepdims, size-1 dimensions) are put at out_axes[m].  Validated against np.vecdot / np.matmul."""
    icd, ocd = _parse_sig(sig)
    moved = [np.moveaxis(a, list(ax), list(range(-len(ax), 0))) if len(ax) else a for a, ax in zip(args, in_axes)]
    res = np.vectorize(fn, signature="".join(sig.split()), otypes=["i8"] * len(ocd))(*moved)
    res = res if isinstance(res, tuple) else (res,)
    out = []
    for r, oax in zip(res, out_axes):
        if keepdims:
            r = r[(...,) + (None,) * len(oax)]
        if len(oax):
            r = np.moveaxis(r, list(range(-len(oax), 0)), list(oax))
        out.append(r)
    return out


def gu_declare(e, case, nloops, lists, cores, axmode, rechunk, spell=0):
    sig, fn, osz = GU_CASES[case]
    icd, ocd = _parse_sig(sig)
    nl = builtins.max(nloops)
    lchunks = {k: declare_chunks(e, f"L{k}", lists, 0, 0) for k in range(nl)}       # loop index k from the right
    modes = {}
    for k in range(nl):
        car = [o for o, m in enumerate(nloops) if m > k]
        D = sum(lchunks[k])
        for o in car:
            m = e.choice(f"m{o}_{k}", 2) if len(car) > 1 else 0
            e.assume(not (m == 1 and D == 1))
            modes[o, k] = m
        e.assume(builtins.any(modes[o, k] == 0 for o in car))
        if rechunk and len(car) > 1 and e.flag(f"alt{k}"):
            modes[car[-1], k] = 3 if modes[car[-1], k] == 0 else modes[car[-1], k]      # last operand: chunked in reverse order
            e.assume(lchunks[k] != lchunks[k][::-1] and 0 not in lchunks[k])
    csize = {}
    for d in sorted({c for cd in icd for c in cd}):
        csize[d] = e.pick(f"core_{d}", cores[d] if isinstance(cores, dict) else cores)
    vectorize = e.flag("vectorize")
    # numpy.vectorize refuses size-0 inputs when the signature creates new output dimensions; with vectorize=True dask applies it per block, so
    # an empty block hits that NumPy limitation: excluded (OUTSIDE)
    e.assume(not (vectorize and osz and builtins.any(0 in c for c in lchunks.values())))
    keep = False
    in_axes = [tuple(range(-len(cd), 0)) for cd in icd]
    out_axes = [tuple(range(-len(cd), 0)) for cd in ocd]
    kw = {}
    nd_in = [m + len(cd) for m, cd in zip(nloops, icd)]
    if axmode == "axis":
        # one shared core dimension: axis=a for every input (and output with that core dimension)
        a = e.choice("axis", builtins.min(nd_in))
        neg = bool((a + spell) & 1)            # spelling (negative axis numbers, bare ints): fixed by position and `spell`, both spellings are run by separate obligations
        keep = e.flag("keepdims") if builtins.all(len(cd) == 0 for cd in ocd) else False
        av = a - builtins.min(nd_in) if neg else a
        in_axes = [(av,) if cd else () for cd in icd]
        out_axes = [(av,) if (cd or keep) else () for cd in ocd]
        kw = dict(axis=av, keepdims=keep)
    elif axmode in ("axes", "axes_out"):
        in_axes = []
        for o, cd in enumerate(icd):
            ax = []
            for j in range(len(cd)):
                p = e.choice(f"ax{o}_{j}", nd_in[o])
                e.assume(p not in [q % nd_in[o] for q in ax])
                ax.append(p - nd_in[o] if (p + o + spell) & 1 else p)
            in_axes.append(tuple(ax))
        keep = e.flag("keepdims") if (builtins.all(len(cd) == 0 for cd in ocd) and len({len(cd) for cd in icd}) == 1 and icd[0]) else False
        nlo = builtins.max(nloops)
        ocd_eff = [icd[0] if keep else cd for cd in ocd]
        axes_arg = [a if len(a) != 1 or (o + spell) & 1 else a[0] for o, a in enumerate(in_axes)]
        if axmode == "axes_out" or builtins.any(len(cd) for cd in ocd):
            out_axes = []
            for m, cd in enumerate(ocd_eff):
                nd_o = nlo + len(cd)
                ax = []
                for j in range(len(cd)):
                    p = e.choice(f"oax{m}_{j}", nd_o)
                    e.assume(p not in [q % nd_o for q in ax])
                    ax.append(p - nd_o if (p + m + spell + 1) & 1 else p)
                out_axes.append(tuple(ax))
            axes_arg = axes_arg + out_axes
        else:
            out_axes = [tuple(range(-len(cd), 0)) for cd in ocd_eff]       # NumPy: omitted output entries mean the last axes
        kw = dict(axes=axes_arg, keepdims=keep)
    # KNOWN DEFECT REGION (reported): with keepdims=True and axes=[...], _validate_normalize_axes overwrites the output axes with the first
    # input's axes, so an explicit output entry is ignored and an omitted one does not default to the last axes as in NumPy.
    # keepdims_axes_moved = 1 iff keepdims with axes= is used and NumPy's position of the kept dimensions differs from the first input's axes.
    nd_out = builtins.max(nloops) + (len(icd[0]) if keep else 0)
    moved = int(keep and axmode in ("axes", "axes_out") and builtins.any([a % nd_out for a in oax] != [a % nd_out for a in in_axes[0]] for oax in out_axes))
    flag = e.int("keepdims_axes_moved", 0, 1)
    e.assume(lambda: flag == moved)
    # KNOWN DEFECT REGION (reported): an empty loop dimension cannot be broadcast against a length-1 one (ValueError "different lengths"; NumPy gives 0)
    empty1 = int(builtins.any(sum(lchunks[k]) == 0 and modes[o, k] == 1 for (o, k) in modes))
    flag2 = e.int("empty_loopdim_vs_one", 0, 1)
    e.assume(lambda: flag2 == empty1)
    moved = moved or empty1
    return dict(case=case, nloops=tuple(nloops), lchunks=lchunks, modes=modes, csize=csize, vectorize=vectorize, keep=keep, in_axes=in_axes,
                out_axes=out_axes, kw=kw, rechunk=rechunk, known=moved, via_class=bool(spell))


def gu_run(e, s):
    if s["known"] and not NOSKIP:
        return "known defect region (keepdims=True with axes=, or empty loop dimension against length 1): skipped"
    sig, fn, osz = GU_CASES[s["case"]]
    icd, ocd = _parse_sig(sig)
    nloops, lchunks, modes, csize = s["nloops"], s["lchunks"], s["modes"], s["csize"]
    nl = builtins.max(nloops)
    xs, chs = [], []
    for o, (m, cd) in enumerate(zip(nloops, icd)):
        ch = [_mode_chunks(lchunks[m - 1 - a], modes[o, m - 1 - a]) for a in range(m)]
        for d in cd:
            n = csize[d]
            ch.append((n,) if not s["rechunk"] or n < 2 else (1, n - 1))
        x = _src(tuple(sum(c) for c in ch), o)
        # put the core dimensions where axes= / axis= says they are
        ax = s["in_axes"][o]
        if len(ax):
            nd = x.ndim
            perm = _move_perm(nd, list(range(nd - len(ax), nd)), list(ax))
            x = np.ascontiguousarray(np.transpose(x, perm))
            ch = [ch[i] for i in perm]
        xs.append(x)
        chs.append(tuple(ch))
    info_s = f"apply_gufunc(f, {sig!r}, " + ", ".join(f"x{o}{list(c)}" for o, c in enumerate(chs)) + f", vectorize={s['vectorize']}, allow_rechunk={s['rechunk']}, {s['kw']})"
    with warnings.catch_warnings():
        warnings.simplefilter("ignore")
        want = np_gufunc(fn, sig, xs, s["in_axes"], s["out_axes"], s["keep"])
        ds = [_from(x, ch, name=f"src{o}") for o, (x, ch) in enumerate(zip(xs, chs))]
        kwargs = dict(s["kw"])
        if osz:
            kwargs["output_sizes"] = dict(osz)
        if s["rechunk"]:
            kwargs["allow_rechunk"] = True
        kwargs["output_dtypes"] = "i8" if len(ocd) == 1 else ("i8",) * len(ocd)
        if s["via_class"]:
            got = da.gufunc(fn, signature=sig, vectorize=s["vectorize"], **kwargs)(*ds)
        else:
            got = da.apply_gufunc(fn, sig, *ds, vectorize=s["vectorize"], **kwargs)
        got = got if isinstance(got, tuple) else (got,)
        e.check(len(got) == len(want), f"{len(got)} outputs, signature has {len(want)}: {info_s}")
        obs = []
        for m, (g, w) in enumerate(zip(got, want)):
            e.check(g.shape == w.shape, f"output {m}: declared shape {g.shape}, NumPy gives {w.shape}: {info_s}")
            e.check(tuple(sum(c) for c in g.chunks) == w.shape, f"output {m}: chunks {g.chunks} do not add up to {w.shape}: {info_s}")
            val = g.compute(scheduler="sync")
            e.check(_same_arr(val, w), f"output {m} differs from numpy.vectorize(signature): {info_s}")
            # every block has the declared chunk shape
            keys = list(dask.core.flatten(g.__dask_keys__()))
            blocks = dask.get(g.__dask_graph__(), keys)
            for k, b in zip(keys, blocks):
                e.check(np.shape(b) == tuple(g.chunks[a][i] for a, i in enumerate(k[1:])), f"output {m}: block {k[1:]} has shape {np.shape(b)}, declared chunks {g.chunks}: {info_s}")
            if not s["rechunk"]:
                # declared chunks: loop dimensions as the inputs', core dimensions in one chunk, moved like the values
                canon = [lchunks[nl - 1 - a] for a in range(nl)]
                oax = s["out_axes"][m]
                core_sizes = [(1,)] * len(oax) if s["keep"] else [((osz or {}).get(d, csize.get(d)),) for d in ocd[m]]
                canon += core_sizes
                if len(oax):
                    nd = len(canon)
                    perm = _move_perm(nd, list(range(nd - len(oax), nd)), list(oax))
                    canon = [canon[i] for i in perm]
                e.check(g.chunks == tuple(canon), f"output {m}: declared chunks {g.chunks}, expected {tuple(canon)}: {info_s}")
            obs.append([list(c) for c in g.chunks])
    return obs


def mk_gufunc(case, nloops, lists, cores, axmode="none", rechunk=False, spell=0):
    def setup(e):
        return (gu_declare(e, case, nloops, lists, cores, axmode, rechunk, spell),)

    def run(e, s):
        return gu_run(e, s)

    sig = "".join(GU_CASES[case][0].split())
    return Obligation(f"apply_gufunc[{case} {sig},loopdims={list(nloops)},{axmode}{'(spelling ' + str(spell) + ')' if axmode != 'none' else ''},allow_rechunk={rechunk},loop chunks in {list(lists)},core sizes in {cores}]", setup, run)


# ---------------------------------------------------------------- (4) kernels with SYMBOLIC chunk sizes: the real map_blocks / da.blockwise build their
# graph for real Array objects whose chunk sizes are unbounded symbolic ints; every task of the materialised layer is then executed with stand-in
# blocks (one object per input key), so that the user function records exactly what it would be given: which blocks, how they are combined along
# contracted / dropped axes, block_info and block_id.  No NumPy data is involved; all offsets stay symbolic and are decided by z3.

class FakeBlock:
    def __init__(self, key):
        self.key = key

    def __repr__(self):
        return f"Block{self.key}"


def _fake_concatenate_axes(arrays, axes):
    return ("concat", arrays, tuple(axes))


def _canon(a):
    if isinstance(a, FakeBlock):
        return ("blk", a.key)
    if isinstance(a, list):
        return [_canon(x) for x in a]
    if isinstance(a, tuple) and len(a) == 3 and a[0] == "concat":
        return ("concat", _canon(a[1]), tuple(a[2]))
    return ("other", repr(a))


def want_arg_sym(name, nblocks, ind, loc, dims, contracted, listmode):
    """what the user function must receive for one operand: FakeBlock key, nested lists, or a concatenation along the contracted axes"""
    sel = []
    for a, l in enumerate(ind):
        n = nblocks[a]
        if l in contracted:
            sel.append([0] * (dims[l] if listmode else 1) if n == 1 else list(range(n)))
        else:
            sel.append(0 if n == 1 else loc[l])

    def rec(a, bs):
        if a == len(sel):
            return ("blk", (name,) + bs)
        if isinstance(sel[a], list):
            return [rec(a + 1, bs + (b,)) for b in sel[a]]
        return rec(a + 1, bs + (sel[a],))
    got = rec(0, ())
    axes = tuple(a for a, l in enumerate(ind) if l in contracted)
    if axes and not listmode:
        return ("concat", got, axes)
    return got


def _sym_patches():
    cnt = [0]

    def tok(*a, **k):
        cnt[0] += 1
        return f"symx-token-{cnt[0]}"
    def sym_max(seq):
        # max of a chunk tuple as one z3 If-term instead of one fork per comparison (only feeds the 'chunksize' layer annotation)
        from symx import core
        m = seq[0]
        for c in seq[1:]:
            m = core.ENG.ite(lambda m=m, c=c: m >= c, m, c)
        return m
    return patched((AC, "int", INT_SHIM), (AC, "math", math_shim()), (B, "tokenize", tok), (AC, "cached_max", sym_max))


def _clear_caches():
    U._cumsum.cache_clear()
    U._max.cache_clear()
    AC.normalize_chunks_cached.cache_clear()


def _sym_array(name, chunks):
    nd = len(chunks)
    return da.Array({}, name, tuple(tuple(c) for c in chunks), meta=np.empty((0,) * nd, dtype="i8"))


def _eq_all(e, pairs):
    r = True
    for a, b in pairs:
        r = r & e.equal(a, b)
    return r


def _run_layer(r, name, f_log):
    """execute every task of the output layer with stand-in blocks; returns {block id: recorded call}"""
    layer = r.dask.layers[name]
    with patched((AC, "concatenate_axes", _fake_concatenate_axes)):
        dsk = dict(layer)
        out = {}
        for key, t in dsk.items():
            del f_log[:]
            res = t({k: FakeBlock(k) for k in t.dependencies})
            if len(f_log) != 1:
                raise Violation(f"the task of output block {key} calls the user function {len(f_log)} times")
            out[key[1:]] = f_log[0]
    return out


def ks_declare(e, ndims, NB, opt, override):
    """symbolic map_blocks scenario.  Every operand axis has its OWN unbounded symbolic chunk sizes (map_blocks aligns by block position only);
    mode 0: as many blocks as the index, mode 1: one block."""
    nd = builtins.max(ndims)
    nbs = {k: 1 + e.choice(f"nb{k}", NB) for k in range(nd)}
    chunks = {}
    for k in range(nd):
        car = [o for o, m in enumerate(ndims) if m > k]
        ms = {}
        for o in car:
            ms[o] = e.choice(f"m{o}_{k}", 2) if (len(car) > 1 and nbs[k] > 1) else 0
        e.assume(builtins.any(m == 0 for m in ms.values()))
        for o in car:
            n = nbs[k] if ms[o] == 0 else 1
            chunks[o, k] = tuple(e.int(f"c{o}_{k}_{i}", 0) for i in range(n))
    drop, new = (), ()
    drop_sym = None
    if opt in ("drop", "dropnew"):
        if nd >= 2 and e.flag("drop_two"):
            p = e.choice("drop_pos", nd)
            q = e.choice("drop_pos2", nd)
            e.assume(q > p)
            drop = (p, q)
        else:
            # ONE axis given as a SYMBOLIC int in [-nd-1, nd]: a in [-nd, nd) denotes position a mod nd (Python / NumPy axis convention),
            # anything else is out of range (ValueError expected).  p = the position it denotes (nd: out of range).
            drop_sym = e.int("drop_axis", -nd - 1, nd)
            p = e.choice("drop_pos", nd + 1)
            e.assume(lambda: ((drop_sym >= 0) & (drop_sym < nd) & (drop_sym == p)) | ((drop_sym < 0) & (drop_sym >= -nd) & (drop_sym + nd == p))
                     | (((drop_sym < -nd) | (drop_sym >= nd)) & (p == nd)))
            drop = (p,) if p < nd else ()
    nkeep = nd - len(drop)
    if opt in ("new", "dropnew"):
        p = e.choice("new_pos", nkeep + 1)
        new = (p,)
        if e.flag("new_two"):
            q = e.choice("new_pos2", nkeep + 2)
            e.assume(q > p)
            new = (p, q)
    nout = nkeep + len(new)
    before = [nd - 1 - p for p in range(nd)]
    contracted = {before[p] for p in drop}
    kept = [l for l in before if l not in contracted]
    olabels, it = [], iter(kept)
    for p in range(nout):
        olabels.append(("new", new.index(p)) if p in new else next(it))
    # chunks= argument: None, one symbolic block size per axis, or explicit symbolic chunks (new axes: 1 or 2 blocks)
    chunks_arg = None
    if override == "int":
        chunks_arg = tuple(e.int(f"q{a}", 0) for a in range(nout))
    elif override == "tuple":
        chunks_arg = tuple(tuple(e.int(f"q{a}_{i}", 0) for i in range(nbs[l] if not isinstance(l, tuple) else 1 + e.choice(f"new_nb{a}", 2)))
                           for a, l in enumerate(olabels))
    return dict(ndims=tuple(ndims), nd=nd, nbs=nbs, chunks=chunks, drop=drop, new=new, olabels=olabels, contracted=contracted, chunks_arg=chunks_arg,
                drop_sym=drop_sym, drop_oor=(drop_sym is not None and not drop))


def ks_run(e, s):
    _clear_caches()
    ndims, nd, nbs, chunks, olabels, contracted = s["ndims"], s["nd"], s["nbs"], s["chunks"], s["olabels"], s["contracted"]
    chunks_arg = s["chunks_arg"]
    names = [f"x{o}" for o in range(len(ndims))]
    ops = []
    for o, m in enumerate(ndims):
        ch = [chunks[o, m - 1 - a] for a in range(m)]
        ops.append((names[o], ch, tuple(m - 1 - a for a in range(m))))
    arrs = [_sym_array(n, ch) for n, ch, ind in ops]
    log = []

    def f(*blocks, block_info=None, block_id=None):
        log.append(dict(blocks=blocks, info=block_info, bid=block_id))
        return "result"

    kwargs = dict(name="out", dtype="i8", meta=np.empty((0,) * len(olabels), dtype="i8"))
    if s["drop_sym"] is not None:
        kwargs["drop_axis"] = s["drop_sym"] if len(ndims) % 2 else [s["drop_sym"]]
    elif s["drop"]:
        kwargs["drop_axis"] = list(s["drop"])
    if s["new"]:
        kwargs["new_axis"] = list(s["new"]) if sum(s["new"]) % 2 == 0 else list(s["new"])[::-1]      # (a list in either order)
    if chunks_arg is not None:
        kwargs["chunks"] = chunks_arg
    try:
        r = AC.map_blocks(f, *arrs, **kwargs)
    except ValueError as ex:
        e.check(s["drop_oor"] and "drop_axis out of range" in str(ex), f"ValueError for valid arguments: {ex}")
        return "ValueError: drop_axis out of range"
    e.check(not s["drop_oor"], "a drop_axis outside [-ndim, ndim) was accepted")
    # ---- declared chunks
    dims = dict(nbs)
    e.check(len(r.chunks) == len(olabels), f"result has {len(r.chunks)} dimensions, expected {len(olabels)}")
    for a, l in enumerate(olabels):
        got = r.chunks[a]
        if chunks_arg is not None and isinstance(chunks_arg[a], tuple):
            e.check(len(got) == len(chunks_arg[a]), "chunks= given explicitly, but the result has another number of blocks")
            e.check(lambda: e.equal(tuple(got), tuple(chunks_arg[a])), "chunks= given explicitly, but the result declares other chunks")
            dims[l] = len(got)
        elif chunks_arg is not None:
            n = 1 if isinstance(l, tuple) else nbs[l]
            e.check(len(got) == n, "wrong number of blocks along an axis with chunks=<block size>")
            e.check(lambda: _eq_all(e, [(c, chunks_arg[a]) for c in got]), "chunks=<block size> given, but a declared chunk differs from it")
            dims[l] = n
        elif isinstance(l, tuple):
            e.check(tuple(got) == (1,), "a new axis without chunks= must be declared as one chunk of size 1")
            dims[l] = 1
        else:
            e.check(len(got) == nbs[l], "wrong number of blocks along an axis")
            cands = [chunks[o, l] for o, m in enumerate(ndims) if m > l and len(chunks[o, l]) == nbs[l]]

            def one_of():
                res = False
                for c in cands:
                    res = res | e.equal(tuple(got), tuple(c))
                return res
            e.check(one_of, "declared chunks along an axis are not the chunks of any operand with that many blocks")
    nb_out = tuple(len(c) for c in r.chunks)
    ostarts = [_cums(c) for c in r.chunks]
    oshape = tuple(st[-1] for st in ostarts)
    e.check(lambda: e.equal(tuple(r.shape), oshape), "declared shape is not the sum of the declared chunks")
    # ---- every task, executed with stand-in blocks
    calls = _run_layer(r, "out", log)
    ids = list(itertools.product(*[range(n) for n in nb_out]))
    e.check(sorted(calls) == sorted(ids), f"output blocks {sorted(calls)}, expected the grid {nb_out}")
    for bid in ids:
        c = calls[bid]
        loc = {l: b for l, b in zip(olabels, bid)}
        e.check(c["bid"] == bid, f"block_id {c['bid']} passed to the task of output block {bid}")
        e.check(len(c["blocks"]) == len(ops), "wrong number of block arguments")
        bi = c["info"]
        e.check(isinstance(bi, dict) and set(bi) == {None} | set(range(len(ops))), "block_info keys are not the array argument positions and None")
        for o, (name, ch, ind) in enumerate(ops):
            nblocks = [len(x) for x in ch]
            want = want_arg_sym(name, nblocks, ind, loc, dims, contracted, False)
            e.check(_canon(c["blocks"][o]) == want, f"output block {bid}: operand {o} is {_canon(c['blocks'][o])}, the aligned block(s) are {want}")
            d = bi[o]
            st = [_cums(x) for x in ch]
            shape = tuple(x[-1] for x in st)
            cl, al, nc = [], [], []
            for a, l in enumerate(ind):
                if l in contracted:
                    cl.append(0), al.append((0, shape[a])), nc.append(1)
                else:
                    b = 0 if nblocks[a] == 1 else loc[l]
                    cl.append(b), al.append((st[a][b], st[a][b + 1])), nc.append(nblocks[a])
            e.check(tuple(d["num-chunks"]) == tuple(nc), f"block_info[{o}]['num-chunks'] = {d['num-chunks']}, expected {tuple(nc)} (output block {bid})")
            e.check(tuple(d["chunk-location"]) == tuple(cl), f"block_info[{o}]['chunk-location'] = {d['chunk-location']}, the block passed is {tuple(cl)} (output block {bid})")
            e.check(len(d["array-location"]) == len(al) and len(d["shape"]) == len(shape), "block_info of an operand has the wrong number of dimensions")
            e.check(lambda: e.equal(tuple(d["shape"]), shape), f"block_info[{o}]['shape'] is not the operand's shape")
            e.check(lambda: _eq_all(e, [(tuple(x), y) for x, y in zip(d["array-location"], al)]),
                    f"block_info[{o}]['array-location'] is not the extent of the block that is passed (output block {bid})")
        d = bi[None]
        e.check(tuple(d["num-chunks"]) == nb_out and tuple(d["chunk-location"]) == bid, f"block_info[None] num-chunks / chunk-location wrong for output block {bid}: {d}")
        e.check(len(d["array-location"]) == len(bid) and len(d["chunk-shape"]) == len(bid) and len(d["shape"]) == len(bid), "block_info[None] has the wrong number of dimensions")
        e.check(lambda: e.equal(tuple(d["shape"]), oshape), "block_info[None]['shape'] is not the declared shape")
        e.check(lambda: _eq_all(e, [(tuple(x), (ostarts[a][b], ostarts[a][b + 1])) for a, (x, b) in enumerate(zip(d["array-location"], bid))]),
                f"block_info[None]['array-location'] is not the extent of output block {bid}")
        e.check(lambda: _eq_all(e, [(x, r.chunks[a][b]) for a, (x, b) in enumerate(zip(d["chunk-shape"], bid))]), f"block_info[None]['chunk-shape'] is not the declared shape of block {bid}")
        e.check(np.dtype(d["dtype"]) == np.dtype("i8"), "block_info[None]['dtype'] wrong")
    return [list(c) for c in r.chunks]


def mk_block_info_sym(ndims, NB, opt="plain", override=None, every=3):
    def setup(e):
        return (ks_declare(e, ndims, NB, opt, override),)

    def run(e, s):
        return ks_run(e, s)

    def e2e(model):
        """witness through the public API: the path's structure with the model's chunk sizes (mod 3) as real arrays; chunks=(2, ...) is passed so
        that the user function can return blocks of a fixed shape"""
        ne = NativeEngine(model)
        s = ks_declare(ne, ndims, NB, opt, override)
        if s["drop_oor"]:
            try:
                da.map_blocks(lambda b: b, da.ones((2,) * s["nd"], chunks=1), drop_axis=model["drop_axis"], dtype="f8")
            except ValueError:
                return
            raise Violation(f"drop_axis={model['drop_axis']} accepted for a {s['nd']}-d array")
        ex = {ok: tuple(c % 3 for c in ch) for ok, ch in s["chunks"].items()}
        drop_arg = None
        if s["drop_sym"] is not None:
            drop_arg = model["drop_axis"]
        elif s["drop"]:
            drop_arg = list(s["drop"])
        s2 = dict(ndims=tuple(ndims), nd=s["nd"], chunks=None, modes=None, drop=s["drop"], drop_arg=drop_arg, new=s["new"],
                  new_arg=(list(s["new"]) if s["new"] else None), newsize=(2,), opt="explicit", explicit=ex)
        mb_run(ne, s2, kinds=("info",))

    return Obligation(f"block_info_symbolic[{opt},ndims={list(ndims)},blocks<={NB},chunks={override}]", setup, run, patches=_sym_patches, e2e=e2e, e2e_every=every)


def kb_declare(e, pname, NB, adjust, new_blocks=2):
    """symbolic da.blockwise scenario (align_arrays=False: operands are aligned by block position; every operand axis has its own unbounded
    symbolic chunk sizes).  mode 0: as many blocks as the label, mode 1: one block."""
    olab, ins, newlab = BW_PATTERNS[pname]
    labels = sorted({c for ind in ins if ind for c in ind})
    nbs = {l: 1 + e.choice(f"nb_{l}", NB) for l in labels}
    chunks = {}
    for l in labels:
        car = [(o, a) for o, ind in enumerate(ins) if ind for a, ll in enumerate(ind) if ll == l]
        ms = {}
        for oa in car:
            ms[oa] = e.choice(f"m{oa[0]}_{oa[1]}", 2) if (len(car) > 1 and nbs[l] > 1) else 0
        e.assume(builtins.any(m == 0 for m in ms.values()))
        for (o, a) in car:
            n = nbs[l] if ms[o, a] == 0 else 1
            chunks[o, a] = tuple(e.int(f"c{o}_{a}_{i}", 0) for i in range(n))
    newsizes = {}
    for z in newlab:
        n = 1 + e.choice(f"new_nb_{z}", new_blocks)
        newsizes[z] = tuple(e.int(f"z_{z}_{i}", 0) for i in range(n))
        if n == 1 and e.flag(f"new_bare_{z}"):
            newsizes[z] = newsizes[z][0]            # new_axes={z: n} (a bare int) instead of a tuple
    concat = e.flag("concatenate") if builtins.any(l not in olab for l in labels) else False
    adj = None
    if adjust == "int":
        adj = e.int("adj", 0)
    elif adjust == "tuple":
        l0 = olab[0]
        adj = tuple(e.int(f"adj_{i}", 0) for i in range(nbs[l0] if l0 in nbs else (len(newsizes[l0]) if isinstance(newsizes[l0], tuple) else 1)))
    elif adjust == "callable":
        adj = "callable"
    return dict(pname=pname, nbs=nbs, chunks=chunks, newsizes=newsizes, concat=concat, adjust=adj)


def kb_run(e, s):
    _clear_caches()
    olab, ins, newlab = BW_PATTERNS[s["pname"]]
    nbs, chunks, concat = s["nbs"], s["chunks"], s["concat"]
    contracted = {l for l in nbs if l not in olab}
    listmode = bool(contracted) and not concat
    ops, args = {}, []
    for o, ind in enumerate(ins):
        if ind is None:
            args += [7, None]
            continue
        ch = [chunks[o, a] for a in range(len(ind))]
        ops[o] = (f"x{o}", ch, tuple(ind))
        args += [_sym_array(f"x{o}", ch), ind]
    log = []

    def f(*a, kw=0):
        log.append(dict(args=a, kw=kw))
        return "result"

    kwargs = dict(name="out", dtype="i8", meta=np.empty((0,) * len(olab), dtype="i8"), align_arrays=False, kw=4)
    if concat:
        kwargs["concatenate"] = True
    if newlab:
        kwargs["new_axes"] = dict(s["newsizes"])
    dims = dict(nbs)
    for z in newlab:
        dims[z] = len(s["newsizes"][z]) if isinstance(s["newsizes"][z], tuple) else 1
    adj = s["adjust"]
    l0 = olab[0] if olab else None
    if adj is not None and l0 is not None:
        if adj == "callable":
            kwargs["adjust_chunks"] = {l0: _affine}
        else:
            kwargs["adjust_chunks"] = {l0: adj}
    r = AB.blockwise(f, olab, *args, **kwargs)
    e.check(len(r.chunks) == len(olab), "wrong number of dimensions")
    for p, l in enumerate(olab):
        got = r.chunks[p]
        e.check(len(got) == dims[l], f"{len(got)} blocks declared along {l!r}, the operands have {dims[l]}")
        if l in newlab:
            z = s["newsizes"][l]
            base = [tuple(z) if isinstance(z, tuple) else (z,)]
        else:
            base = [chunks[o, a] for o, ind in enumerate(ins) if ind for a, ll in enumerate(ind) if ll == l and len(chunks[o, a]) == dims[l]]
        if adj is not None and p == 0:
            if adj == "callable":
                base = [tuple(2 * c + 1 for c in b) for b in base]
            elif isinstance(adj, tuple):
                base = [adj]
            else:
                base = [(adj,) * dims[l]]

        def one_of():
            res = False
            for c in base:
                res = res | e.equal(tuple(got), tuple(c))
            return res
        e.check(one_of, f"declared chunks along {l!r} are not those of an operand with that many blocks (after adjust_chunks / new_axes)")
    calls = _run_layer(r, "out", log)
    ids = list(itertools.product(*[range(dims[l]) for l in olab]))
    e.check(sorted(calls) == sorted(ids), f"output blocks {sorted(calls)}, expected the grid {[dims[l] for l in olab]}")
    for bid in ids:
        c = calls[bid]
        loc = {l: b for l, b in zip(olab, bid)}
        e.check(c["kw"] == 4 and len(c["args"]) == len(ins), "keyword / number of arguments changed on the way to the user function")
        for o, ind in enumerate(ins):
            if ind is None:
                e.check(c["args"][o] == 7, "literal argument changed")
                continue
            name, ch, _ = ops[o]
            want = want_arg_sym(name, [len(x) for x in ch], ind, loc, dims, contracted, listmode)
            e.check(_canon(c["args"][o]) == want, f"output block {bid}: operand {o} is {_canon(c['args'][o])}, the aligned block(s) are {want}")
    return [list(c) for c in r.chunks]


def mk_blockwise_sym(pname, NB, adjust=None, every=3):
    def setup(e):
        s = kb_declare(e, pname, NB, adjust)
        return (s,)

    def run(e, s):
        return kb_run(e, s)

    def e2e(model):
        """witness through the public API: the path's structure with the model's chunk sizes (mod 3) as real arrays"""
        ne = NativeEngine(model)
        s = kb_declare(ne, pname, NB, adjust)
        ex = {oa: tuple(c % 3 for c in ch) for oa, ch in s["chunks"].items()}
        news = {z: tuple(1 + c % 2 for c in (v if isinstance(v, tuple) else (v,))) for z, v in s["newsizes"].items()}
        s2 = dict(pname=pname, chunks=None, modes=None, align=False, concat=s["concat"], newsizes=news, adjust="{every output label: 2}", known=0, explicit=ex)
        bw_run(ne, s2)

    olab, ins, newlab = BW_PATTERNS[pname]
    sig = ",".join(i if i else "lit" for i in ins) + "->" + olab
    return Obligation(f"blockwise_symbolic[{pname} {sig},blocks<={NB}{',adjust_chunks=' + adjust if adjust else ''}]", setup, run, patches=_sym_patches,
                      e2e=e2e, e2e_every=every)


# ---------------------------------------------------------------- obligations

EXPLANATION = (
    "Four groups of obligations. (A) KERNELS WITH SYMBOLIC CHUNK SIZES: the real dask.array.map_blocks and dask.array.blockwise are run on real "
    "dask Arrays whose chunk sizes are unbounded symbolic ints (z3 Int terms; only the NUMBER of blocks per axis, the operand ranks, which operand "
    "axes have a single block, and the drop_axis / new_axis / chunks= / adjust_chunks / new_axes / concatenate options are solver-enumerated). "
    "Everything they call runs unmodified: index validation, chunk selection, new_axes / adjust_chunks handling, core dask.blockwise.blockwise, "
    "Blockwise, _make_dims, _get_coord_mapping, _make_blockwise_graph, _lol_product, cached_cumsum, the block_info / block_id dictionaries, "
    "ArrayValuesDep / ArrayBlockIdDep, Array.__new__ / normalize_chunks. The materialised output layer is then EXECUTED task by task with one "
    "stand-in object per input key, so the user function records exactly what it would be given. Asserted for ALL chunk sizes of a path (z3 "
    "decides the equalities): one task per output block of the block grid; every operand argument is the block aligned by block index (block 0 "
    "for a single-block axis), dropped / contracted axes deliver all blocks in order, concatenated along exactly those axes (concatenate=True, "
    "drop_axis) or as nested lists (one level per contracted axis; a single-block operand repeated once per block); block_id is the output block "
    "index; block_info has exactly the array argument positions and None as keys; block_info[i]: shape = sums of the operand's chunks, num-chunks, "
    "chunk-location = the block actually passed, array-location = (sum of the chunks before it, that plus its size) per axis, a dropped axis "
    "described as one chunk covering (0, length); block_info[None]: shape / num-chunks / chunk-location / array-location / chunk-shape / dtype "
    "consistent with the declared result chunks; declared chunks = the chunks of an operand that has the largest number of blocks on that index, "
    "(1,) for a new axis, the chunks= / new_axes / adjust_chunks (callable n -> 2n+1, int, tuple) values otherwise; declared shape = their sums. "
    "drop_axis is a symbolic int: it denotes position d mod ndim for d in [-ndim, ndim) and raises ValueError exactly outside. "
    "(B) map_blocks THROUGH THE PUBLIC API on solver-enumerated inputs (operand ranks, chunk tuples incl. irregular / size-1 / empty chunks and "
    "empty dimensions, which axes are size-1 or single-block broadcasts, drop_axis, new_axis incl. unsorted and implicit, chunks= as block shape / "
    "explicit tuples, literal positional and keyword arguments, operands with the same number of blocks but different sizes): a recording, "
    "position-dependent user function is computed with the synchronous scheduler and compared with a plain NumPy reference (slice the sources by "
    "cumulative chunk offsets, call the function once per output block, assemble with np.concatenate): the function is called exactly once per "
    "output block, with exactly the aligned NumPy blocks; the array-location slices select exactly the block that was passed and the place where "
    "the call's result ends up; chunks / shape / dtype metadata equal the computed result. (C) da.blockwise THROUGH THE PUBLIC API for index "
    "patterns with repeated (ii, i,i), contracted (one or two contracted indices, over transposed operands, with broadcast operands) and new indices, "
    "literals, concatenate=True / lists, align_arrays=False and True (differently chunked operands: the blocks seen are those of the common "
    "refinement), adjust_chunks (callable, int, tuple), new_axes (int, tuple): same reference. (D) apply_gufunc / da.gufunc against "
    "numpy.vectorize(signature=...) (NumPy gufunc semantics for axes / axis / keepdims by np.moveaxis, validated against np.vecdot / np.matmul): "
    "signatures with consumed, kept, transposed, new (output_sizes) core dimensions and two outputs, loop dimensions of different rank with "
    "size-1 broadcasting and irregular / empty chunks, vectorize=True / False, allow_rechunk with multi-chunk core dimensions and differently "
    "chunked loop dimensions; values, shape, dtype, chunk metadata and the shape of every computed block. Path trees exhausted; every path model is "
    "replayed natively; symbolic paths get an e2e witness through from_array / compute.")
ASSUMPTIONS = [
    "user functions are pure; the number of calls is counted during compute() (calls that dask makes on zero-size arrays to infer meta / dtype at graph-build time are not part of the claim)",
    "documented precondition of map_blocks / blockwise(align_arrays=False) without chunks=: 'the resulting array is assumed to have the same block structure as the first "
    "input array'. Where every operand has a single block along an index, the first operand carrying that index therefore has the full length there (a size-1 first "
    "operand against a longer second one is declared with chunk (1,)). In the symbolic obligations only 'the declared chunks are those of SOME operand with the largest "
    "number of blocks on that index' is asserted",
    "operands passed with align_arrays=False (always in map_blocks) have 1 or the common number of blocks along every index (anything else raises: C19)",
    "block_info for an axis removed with drop_axis describes the concatenated axis: one chunk, chunk-location 0, array-location (0, length) (what the function is actually given)",
    "NumPy gufunc semantics of axes / axis / keepdims as documented in the NumPy ufunc reference and copied into apply_gufunc's docstring; the NumPy emulation used as "
    "reference was compared with np.vecdot and np.matmul for every axes / keepdims combination",
    "gufunc user functions broadcast over leading loop dimensions (documented requirement unless vectorize=True); core dimensions are at least 1 long",
    "a label repeated inside ONE operand ('ii') stands for a square pair of axes (no size-1 axis inside it)",
]
STUBS = [
    "symbolic obligations: dask.array.core.{int, math} shims (normalize_chunks keeps symbolic ints), dask.array.core.cached_max -> one z3 If-term (feeds only the "
    "'chunksize' layer annotation), dask.blockwise.tokenize -> counter (names the ArrayValuesDep / ArrayBlockIdDep placeholders; tokenizing would pickle the chunk sizes)",
    "symbolic obligations, both modes: dask.array.core.concatenate_axes -> recorder ('concat', nested blocks, axes) while the layer's tasks are executed with stand-in "
    "blocks (FakeBlock per input key); input Arrays are real dask Arrays with an empty graph",
    "functools.lru_cache of dask.utils._cumsum / _max and dask.array.core.normalize_chunks_cached cleared per path",
    "public-API obligations: nothing is patched",
]
ENUM = [
    "symbolic obligations: number of blocks per index, which operand axes have one block, drop_axis pair / new_axis positions, chunks= kind, concatenate, number of blocks of new axes "
    "(chunk SIZES, chunks= / adjust_chunks / new_axes values and the single drop_axis stay symbolic; drop_axis is concretised where map_blocks uses it as a list index)",
    "public-API obligations: EVERYTHING is concretised when NumPy arrays are built: the solver enumerates chunk tuples (quick: picked from a list with single / size-1 / irregular / "
    "empty chunks; thorough: also every tuple inside the bounds), broadcast modes per operand axis, option variants",
    "quick tier: the spelling of drop_axis / new_axis / axes (negative numbers, bare int instead of list, unsorted list) is a fixed function of the other variables; thorough tier enumerates it",
]
OUTSIDE = [
    "KNOWN DEFECT REGIONS, reported and skipped (model variables name them; VERIF_C35_NOSKIP=1 runs the assertions there): repeated_index_unaligned (blockwise / einsum with a label "
    "repeated inside a single operand whose two axes are chunked differently, align_arrays=True), keepdims_axes_moved (apply_gufunc keepdims=True with axes=: output axes ignored), "
    "empty_loopdim_vs_one (apply_gufunc: empty loop dimension against a length-1 one raises)",
    "map_blocks / blockwise(align_arrays=False) where the first operand is a size-1 single block and a later one is longer: declared chunk (1,), computed block longer (documented 'first input' rule)",
    "new_axis values beyond the result's rank (accepted silently in some combinations with drop_axis), negative new_axis, enforce_ndim, BlockwiseDep arguments, dask arrays as keyword arguments",
    "align_arrays=True with empty chunks or degenerate axes (C19), the data movement of rechunk (C23), optimisation / fusion of Blockwise layers beyond what compute() does to these graphs",
    "apply_gufunc: core dimensions of size 0, a size-1 core dimension broadcast against a longer one (NumPy raises, dask computes), vectorize=True with new output dimensions on empty blocks "
    "(numpy.vectorize limitation), the declared chunks under allow_rechunk=True (only consistency with the computed blocks), dtype / meta inference",
    "more than 3 operands, more than 3 dimensions, more than 3 blocks per axis in the symbolic obligations",
]
BOUNDS = {
    "quick": dict(symbolic_map_blocks="operand ranks (2,1) <=3 blocks per index; (2,2) (1,1,1) <=2; drop_axis (one symbolic in [-ndim-1, ndim] or a pair), new_axis (1..2 positions), "
                                      "chunks= None / int / tuple; chunk sizes >= 0 UNBOUNDED",
                  symbolic_blockwise="12 index patterns, <=2..3 blocks per label, adjust_chunks callable / int / tuple, new_axes 1..2 blocks; chunk sizes >= 0 UNBOUNDED",
                  map_blocks="ranks (2,1) (2,2) (1,1,1) (1,1) (1,); chunks per index from [(2,), (1,2), (2,0,1)] (+(1,), (0,) for plain); 10 option families",
                  blockwise="12 patterns; shared labels from [(2,), (1,2), (2,0,1)] (align_arrays=False) / [(2,), (1,2), (1,1,2)] incl. reversed (align_arrays=True)",
                  gufunc="10 signatures; loop ranks <= 2 per operand; loop chunks from [(2,), (1,2), (2,0,1)] (+(0,)); core sizes 1..3"),
    "thorough": dict(symbolic_map_blocks="ranks (2,1) (2,2) (3,) (1,1,1) (3,2) (2,1,2) (1,1), <=3 blocks, every drop / new / chunks= combination",
                     symbolic_blockwise="<=3 blocks per label, adjust_chunks on adjust / newaxis / matmul",
                     map_blocks="rank (2,1): every chunk tuple with <=3 chunks of size <=2, dim <=3; rank (1,): <=3 chunks of size <=3, dim <=5; otherwise 8-element chunk lists incl. "
                                "(0,), (0,2), (1,1,1), (3,1); ranks up to (3,2); 0-d operands; spelling enumerated",
                     blockwise="8-element lists for shared labels, align_arrays both, adjust_chunks all kinds both",
                     gufunc="7-element loop chunk lists, both spellings, da.gufunc class, more axes= / axis= cases, allow_rechunk with 6 chunkings"),
}

def functions():
    import dask.layers as L
    return [AC.map_blocks, AC._pass_extra_kwargs, AB.blockwise, B.blockwise, B.Blockwise.__init__, B._make_dims, B.broadcast_dimensions,
            B._get_coord_mapping, B._make_blockwise_graph, B._lol_product, L.ArrayValuesDep.__getitem__, L.ArrayBlockIdDep.__getitem__, U.cached_cumsum,
            AC.concatenate_axes, AC.unify_chunks, GU.apply_gufunc, GU._parse_gufunc_signature, GU._validate_normalize_axes, GU.gufunc.__call__]


CH4 = [(2,), (1, 2), (2, 0, 1), (1,)]
CH3 = [(2,), (1, 2), (2, 0, 1)]


def obligations(tier):
    obs = []
    A, Z = [(1, 2)], [(2, 0, 1)]
    if tier == "quick":
        # (4) symbolic kernels
        obs.append(mk_block_info_sym((2, 1), 3))
        obs.append(mk_block_info_sym((2, 2), 2))
        obs.append(mk_block_info_sym((1, 1, 1), 2, "plain", "int"))
        obs.append(mk_block_info_sym((2, 1), 2, "drop"))
        obs.append(mk_block_info_sym((1, 1), 2, "new", "tuple"))
        obs.append(mk_block_info_sym((2,), 3, "new"))
        obs.append(mk_block_info_sym((2, 1), 2, "dropnew", "int"))
        for pname in BW_PATTERNS:
            if pname != "adjust":
                obs.append(mk_blockwise_sym(pname, 3 if len(BW_PATTERNS[pname][1]) < 2 or pname in ("dot", "outer") else 2))
        for adj in ("callable", "int", "tuple"):
            obs.append(mk_blockwise_sym("adjust", 2, adj))
        # (1) map_blocks, public API
        obs.append(mk_map_blocks((2, 1), "plain", CH4 + [(0,)]))
        obs.append(mk_map_blocks((2, 2), "plain", CH3, kinds=("info",)))
        obs.append(mk_map_blocks((1, 1, 1), "plain", CH3, kinds=("info",)))
        obs.append(mk_map_blocks((2, 1), "lit", CH3))
        obs.append(mk_map_blocks((2, 1), "drop", CH3))
        obs.append(mk_map_blocks((1, 1), "new", CH3, kinds=("info",)))
        obs.append(mk_map_blocks((2, 1), "dropnew", CH3, kinds=("info",)))
        obs.append(mk_map_blocks((1, 1), "new_chunks", CH3))
        obs.append(mk_map_blocks((1,), "new_implicit", CH3))
        obs.append(mk_map_blocks_noarray(2, CH3))
        for opt in ("chunks_int", "chunks_tuple", "shifted"):
            obs.append(mk_map_blocks((2, 1), opt, CH3, kinds=("info",) if opt != "chunks_tuple" else ("plain", "info")))
        # (2) da.blockwise, public API
        obs.append(mk_blockwise("matmul", dict(i=A, j=CH3, k=Z), False))
        obs.append(mk_blockwise("matmul", dict(i=[(2,)], j=CHNZ, k=A), True))
        obs.append(mk_blockwise("dot", dict(i=CH4), False))
        obs.append(mk_blockwise("dot", dict(i=CHNZ), True))
        obs.append(mk_blockwise("rowsum", dict(i=A + Z, j=CH3), False))
        obs.append(mk_blockwise("matvec", dict(i=A, j=CH3), False))
        obs.append(mk_blockwise("matvec", dict(i=A, j=CHNZ), True))
        obs.append(mk_blockwise("outer", dict(i=CH3, j=CH3), False))
        obs.append(mk_blockwise("transpose", dict(i=CH3, j=A), False))
        obs.append(mk_blockwise("transpose", dict(i=CHNZ, j=[(2,)]), True))
        obs.append(mk_blockwise("contract2", dict(i=A, j=Z, k=CH3), False))
        obs.append(mk_blockwise("diag", dict(i=CH3), False))
        obs.append(mk_blockwise("diag", dict(i=CHNZ), True))
        obs.append(mk_blockwise("diag_vec", dict(i=CH3), False))
        obs.append(mk_blockwise("diag_vec", dict(i=CHNZ), True))
        obs.append(mk_blockwise("literal", dict(i=A, j=CH3), False))
        obs.append(mk_blockwise("newaxis", dict(i=A + Z), False))
        for adj in ("callable", "int", "tuple"):
            obs.append(mk_blockwise("adjust", dict(i=A + Z, j=CH3), False, adj))
        # (3) apply_gufunc, public API
        GL, G2 = [(2,), (1, 2), (2, 0, 1)], [(1, 2), (2, 0, 1)]
        obs.append(mk_gufunc("sum", (1,), GL, [1, 3]))
        obs.append(mk_gufunc("sum", (2,), G2, [3], "axis"))
        obs.append(mk_gufunc("sum", (1,), GL, [3], "axes", spell=1))
        obs.append(mk_gufunc("dot", (2, 1), GL, [2]))
        obs.append(mk_gufunc("dot", (1, 1), A, [2], "axes_out"))
        obs.append(mk_gufunc("dot", (1, 1), G2, [3], "axis", spell=1))
        obs.append(mk_gufunc("dot", (1, 1), GL, [3], rechunk=True))
        obs.append(mk_gufunc("matvec", (1, 1), G2, dict(i=[2, 3], j=[2])))
        obs.append(mk_gufunc("matvec", (1, 0), A, dict(i=[3], j=[2]), "axes"))
        obs.append(mk_gufunc("expand", (2,), GL, [1]))
        obs.append(mk_gufunc("cumsum", (1,), GL, [3], "axis"))
        obs.append(mk_gufunc("cumsum", (1,), GL, [3], rechunk=True))
        obs.append(mk_gufunc("stats", (1,), GL, [3], spell=1))
        obs.append(mk_gufunc("cum_sum", (1,), G2, [3]))
        obs.append(mk_gufunc("sub", (2, 1), GL + [(0,)], [1]))
        obs.append(mk_gufunc("sub", (1, 2), G2, [1], spell=1))
        obs.append(mk_gufunc("outer", (1, 1), GL, dict(i=[2], j=[3])))
        obs.append(mk_gufunc("swap", (1,), A, dict(i=[2], j=[3]), "axes"))
        return obs
    # ---------------- thorough
    CH7 = [(2,), (1,), (0,), (1, 2), (2, 0, 1), (0, 2), (1, 1, 1), (3, 1)]
    CH5 = [(2,), (1,), (1, 2), (2, 0, 1), (1, 1, 1)]
    NZ6 = [(2,), (3,), (1, 2), (1, 1, 2), (2, 1, 1), (1, 3)]
    for nds, nb in (((2, 1), 3), ((2, 2), 3), ((3,), 3), ((1, 1, 1), 3), ((3, 2), 2), ((2, 1, 2), 2)):
        obs.append(mk_block_info_sym(nds, nb))
        obs.append(mk_block_info_sym(nds, nb, "plain", "int"))
        obs.append(mk_block_info_sym(nds, builtins.min(nb, 2) if len(nds) > 1 else nb, "plain", "tuple"))
    for nds, nb in (((2, 1), 3), ((2, 2), 2), ((3,), 3), ((3, 2), 2), ((1, 1), 3)):
        for ov in (None, "int", "tuple"):
            obs.append(mk_block_info_sym(nds, nb if ov != "tuple" else 2, "drop", ov))
            if nds == (3, 2) and ov is not None:
                continue          # (rank (3, 2) with new axes: only without chunks=; the other ranks carry the chunks= variants)
            obs.append(mk_block_info_sym(nds, 2, "new", ov))
            obs.append(mk_block_info_sym(nds, 2, "dropnew", ov))
    for pname in BW_PATTERNS:
        if pname != "adjust":
            obs.append(mk_blockwise_sym(pname, 3, every=5))
    for adj in ("callable", "int", "tuple"):
        obs.append(mk_blockwise_sym("adjust", 3, adj, every=5))
        obs.append(mk_blockwise_sym("newaxis", 2, adj, every=5))
        obs.append(mk_blockwise_sym("matmul", 2, adj, every=5))
    both = ("plain", "info")
    obs.append(mk_map_blocks((2, 1), "plain", 3, 2, 3))
    obs.append(mk_map_blocks((2, 2), "plain", CH7, kinds=("info",)))
    obs.append(mk_map_blocks((1, 1, 1), "plain", CH7))
    obs.append(mk_map_blocks((3, 2), "plain", CH3, kinds=("info",)))
    obs.append(mk_map_blocks((1,), "plain", 3, 3, 5))
    obs.append(mk_map_blocks((2, 1), "lit", CH7))
    obs.append(mk_map_blocks((2, 1), "drop", CH7, cross=True))
    obs.append(mk_map_blocks((3, 1), "drop", CH3, cross=True, kinds=("info",)))
    obs.append(mk_map_blocks((2, 2), "drop", CH3, cross=True, kinds=("info",)))
    obs.append(mk_map_blocks((1, 1), "new", CH7, cross=True))
    obs.append(mk_map_blocks((2,), "new", CH7, cross=True))
    obs.append(mk_map_blocks((2, 1), "new", CH3, cross=True, kinds=("info",)))
    obs.append(mk_map_blocks((2, 1), "dropnew", CH5, cross=True, kinds=("info",)))
    obs.append(mk_map_blocks((2, 2), "dropnew", CH3, kinds=("info",)))
    obs.append(mk_map_blocks((1, 1), "new_chunks", CH7))
    obs.append(mk_map_blocks((2, 1), "new_chunks", CH3, kinds=("info",)))
    obs.append(mk_map_blocks((1,), "new_implicit", CH7))
    obs.append(mk_map_blocks_noarray(1, CH7))
    obs.append(mk_map_blocks_noarray(2, CH7))
    obs.append(mk_map_blocks_noarray(3, CH3))
    obs.append(mk_map_blocks((1, 0), "plain", CH7))
    obs.append(mk_map_blocks((0, 2), "drop", CH3, cross=True))
    obs.append(mk_map_blocks((2, 1), "new_implicit", CH3))
    for opt in ("chunks_int", "chunks_tuple", "shifted"):
        obs.append(mk_map_blocks((2, 1), opt, CH7))
        obs.append(mk_map_blocks((2, 2), opt, CH3, kinds=("info",)))
    for pname in BW_PATTERNS:
        olab, ins, newlab = BW_PATTERNS[pname]
        labels = sorted({c for ind in ins if ind for c in ind})
        shared = {l for l in labels if sum(ind.count(l) for ind in ins if ind) > 1}
        if pname == "adjust":
            for adj in ("callable", "int", "tuple"):
                obs.append(mk_blockwise(pname, {l: (CH7 if l in shared else CH3) for l in labels}, False, adj))
                obs.append(mk_blockwise(pname, {l: (NZ6 if l in shared else CHNZ) for l in labels}, True, adj))
            continue
        small = len(shared) > 1
        obs.append(mk_blockwise(pname, {l: ((CH5 if small else CH7) if (l in shared or len(labels) == 1) else CH3) for l in labels}, False))
        obs.append(mk_blockwise(pname, {l: ((CHNZ if small else NZ6) if (l in shared or len(labels) == 1) else CHNZ[:2]) for l in labels}, True))
    GL7 = [(2,), (1,), (1, 2), (2, 0, 1), (0, 2), (1, 1, 1), (3, 1)]
    for sp in (0, 1):
        obs.append(mk_gufunc("sum", (1,), GL7, [1, 2, 3], spell=sp))
        obs.append(mk_gufunc("sum", (2,), GL7[:4], [1, 3], "axis", spell=sp))
        obs.append(mk_gufunc("sum", (2,), GL7[:4], [3], "axes", spell=sp))
        obs.append(mk_gufunc("sum", (1,), GL7[:4], [3], "axes_out", spell=sp))
        obs.append(mk_gufunc("dot", (2, 1), GL7[:5], [2, 3], spell=sp))
        obs.append(mk_gufunc("dot", (1, 2), GL7[:4], [2], "axes", spell=sp))
        obs.append(mk_gufunc("dot", (1, 1), GL7[:4], [2], "axes_out", spell=sp))
        obs.append(mk_gufunc("dot", (2, 1), GL7[:3], [3], "axis", spell=sp))
        obs.append(mk_gufunc("matvec", (1, 1), GL7, dict(i=[1, 3], j=[2]), spell=sp))
        obs.append(mk_gufunc("matvec", (1, 0), GL7[2:4], dict(i=[3], j=[2]), "axes", spell=sp))
        obs.append(mk_gufunc("cumsum", (2,), GL7[:4], [3], "axis", spell=sp))
        obs.append(mk_gufunc("cumsum", (1,), GL7[:4], [3], "axes", spell=sp))
        obs.append(mk_gufunc("stats", (2,), GL7[:4], [1, 3], spell=sp))
        obs.append(mk_gufunc("cum_sum", (1,), GL7[:4], [1, 3], spell=sp))
        obs.append(mk_gufunc("cum_sum", (1,), GL7[2:4], [3], "axes", spell=sp))
        obs.append(mk_gufunc("stats", (1,), GL7[:4], [3], "axis", spell=sp))
        obs.append(mk_gufunc("swap", (1,), GL7[2:4], dict(i=[2], j=[3]), "axes", spell=sp))
        obs.append(mk_gufunc("outer", (1, 1), GL7, dict(i=[2], j=[1, 3]), spell=sp))
        obs.append(mk_gufunc("outer", (1, 0), GL7[2:4], dict(i=[2], j=[3]), "axes", spell=sp))
    obs.append(mk_gufunc("expand", (2,), GL7, [1]))
    obs.append(mk_gufunc("sub", (2, 1), GL7 + [(0,)], [1]))
    obs.append(mk_gufunc("sub", (1, 2), GL7[:4], [1], spell=1))
    obs.append(mk_gufunc("dot", (1, 1), NZ6, [3, 4], rechunk=True))
    obs.append(mk_gufunc("dot", (2, 1), CHNZ, [3], rechunk=True, spell=1))
    obs.append(mk_gufunc("cumsum", (1,), GL7, [2, 4], rechunk=True))
    obs.append(mk_gufunc("matvec", (1, 1), CHNZ, dict(i=[3], j=[2, 4]), rechunk=True))
    return obs
