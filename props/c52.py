"""C52 -- local diagnostics report every executed task faithfully (Profiler part)"""
from __future__ import annotations

from symx.core import Violation
from symx.run import Obligation
from symx.patch import patched
from props import sched as SC

import dask.diagnostics.profile as P
from dask.diagnostics import Profiler
from dask.callbacks import Callback

PROPERTY = "C52"
LEVEL = "other"
BUDGET = {"quick": 200, "thorough": 2400}
CHUNK_PATHS = 150
EXPLANATION = (
    "The real Profiler callback object is active (as a context manager, i.e. through Callback.active) while the real "
    "get_async loop runs symbolically (symbolic num_workers, enumerated chunksize, solver-picked completion order, "
    "solver-enumerated graphs, optional failing task). The clock (`default_timer` in dask.diagnostics.profile) is a stub "
    "returning arbitrary non-decreasing *symbolic* instants, so `start_time <= end_time` is a solver question over all clock "
    "readings. Assertions: prof.results has exactly one entry per task the scheduler finished (all executed tasks on "
    "success; exactly the tasks completed before the failure otherwise), keys distinct, each entry's task is the graph node, "
    "start_time <= end_time for every admissible clock. A second scheduler call under the same profiler appends rather "
    "than loses entries; a second computation on other keys after a (possibly failing) first one, under the same activation, "
    "is still observed and adds exactly its own entries (no stale or duplicated ones). 'The scheduler finished this task' is recorded "
    "independently of the callback machinery by wrapping dask.local.finish_task.")
ASSUMPTIONS = SC.SCHED_ASSUMPTIONS + ["default_timer is replaced by a stub whose readings are symbolic, non-decreasing integers"]
STUBS = SC.SCHED_STUBS + ["dask.local.finish_task wrapped by a logger (the real function still runs)", "dask.diagnostics.profile.default_timer -> symbolic non-decreasing clock"]
ENUM = ["graphs, failing task, chunksize, completion picks"]
OUTSIDE = ["Cache callback (needs the `cachey` package, absent from the sandbox)", "ProgressBar output, ResourceProfiler/CacheProfiler (threads, psutil)",
           "visualisation"]
BOUNDS = {
    "quick": dict(N="<=3 nodes {Task, DataNode}", failing="<=1 task", num_workers="symbolic >= 1", chunksize=[-1, 1, 2]),
    "thorough": dict(N="<=3 nodes {Task, DataNode, Alias, legacy list}, 4 {Task}", failing="<=1 task", num_workers="symbolic >= 1", chunksize=list(SC.CHUNKSIZES)),
}


def functions():
    return SC.sched_functions() + [Profiler.__enter__, Profiler.__exit__, Profiler._start, Profiler._pretask, Profiler._posttask,
                                   Profiler._finish, Profiler.clear]


def mk(N, kinds, chunks=(-1, 1, 2), twice=False, then_other=False):
    def setup(e):
        spec = SC.gen_graph(e, N, kinds, sym_leaf=False)
        want, shape = SC.gen_request(e, N, allow_empty=False, shapes=(0, 1, 2))
        fails = {}
        tasks = [j for j in range(N) if spec[j]["kind"] not in ("data", "alias")]
        if tasks and e.flag("anyfail"):
            fails[e.pick("failnode", tasks)] = SC.EXC[e.choice("exc", 3)]
        nw = e.int("num_workers", 1)
        cs = e.pick("chunksize", chunks)
        return spec, want, shape, fails, nw, cs

    def run(e, spec, want, shape, fails, nw, cs):
        import dask.threaded
        log = []
        dsk = SC.build(spec, log, fails)
        keys, pack = SC.request_keys(want, shape)
        ticks = []

        def clock():
            t = e.int(f"t{len(ticks)}", 0)
            if ticks:
                e.assume(lambda: t >= ticks[-1])
            ticks.append(t)
            return t

        mon = SC.Monitors(log, e)
        raised = None
        saved = Callback.active
        Callback.active = set()
        import dask.local as L
        from dask._task_spec import Task, TaskRef
        real_finish = L.finish_task

        def finish_task(dsk_, key, *a, **k):
            # independent record of "the scheduler finished this task" (the real finish_task still runs)
            log.append(("done", key))
            return real_finish(dsk_, key, *a, **k)

        other = {"zz": Task("zz", SC.F(98, log)), "zy": Task("zy", SC.F(99, log), TaskRef("zz"))}
        try:
            with patched((P, "default_timer", clock), (L, "finish_task", finish_task)):
                with Profiler() as prof:
                    with Callback(posttask=lambda key, res, d, st, wid: log.append(("cb_done", key))):
                        for rep in range(2 if twice else 1):
                            try:
                                SC.run_scheduler(e, dsk, keys, nw, cs, log, callbacks=None,
                                                 pack=dask.threaded.pack_exception, use_loads=False, tag=f"r{rep}_")
                            except Violation:
                                raise
                            except BaseException as ex:
                                if type(ex).__module__.startswith("symx"):
                                    raise
                                raised = ex
                        if then_other:
                            # a later computation under the same activation, on keys the first one never touched
                            SC.run_scheduler(e, other, "zy", nw, cs, log, callbacks=None, use_loads=False, tag="o_")
        finally:
            Callback.active = saved
        done = [ev[1] for ev in log if ev[0] == "done"]
        cb_done = [ev[1] for ev in log if ev[0] == "cb_done"]
        e.check(sorted(map(str, cb_done)) == sorted(map(str, done)), f"posttask callbacks {cb_done} != tasks the scheduler finished {done}")
        if then_other:
            e.check(done[-2:] == ["zz", "zy"], "the second computation did not run")
        res = prof.results
        e.check(sorted(map(str, (r.key for r in res))) == sorted(map(str, done)),
                f"profiler entries {[r.key for r in res]} != tasks the scheduler finished {done}")
        if not twice:
            e.check(len({r.key for r in res}) == len(res), "duplicate profiler entries")
        needed = SC.needed_set(spec, want)
        if not any(j in needed for j in fails):
            exp = sorted(str(SC.key_of(j)) for j in needed if spec[j]["kind"] != "data") * (2 if twice else 1) + (["zy", "zz"] if then_other else [])
            e.check(sorted(map(str, (r.key for r in res))) == sorted(exp), "on success every executed task must have an entry")
        for r in res:
            e.check(lambda: r.start_time <= r.end_time, f"start_time > end_time for {r.key!r}")
            e.check(r.key in prof._dsk and (prof._dsk[r.key] is r.task or r.task == prof._dsk[r.key]), "entry carries the wrong task")
        e.check(lambda: prof.start_time <= prof.end_time, "profiler start_time > end_time")
        return sorted(str(r.key) for r in res)

    return Obligation(f"profiler[N={N},kinds={'+'.join(kinds)}{',twice' if twice else ''}{',then_other' if then_other else ''}]", setup, run)


def obligations(tier):
    if tier == "quick":
        return [mk(2, ("task", "data")), mk(3, ("task", "data"), chunks=(-1, 2)), mk(2, ("task",), twice=True, chunks=(1,)),
                mk(2, ("task", "data"), then_other=True, chunks=(1, -1))]
    return [mk(2, SC.ALL_KINDS, chunks=SC.CHUNKSIZES), mk(3, ("task", "data", "alias", "legacylist"), chunks=SC.CHUNKSIZES),
            mk(4, ("task",), chunks=(-1, 2)), mk(3, ("task", "data"), twice=True, chunks=(1, -1)),
            mk(3, ("task", "data"), then_other=True, chunks=(1, -1, 2))]
