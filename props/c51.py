"""C51 -- term-rewrite matching is sound and complete.

Kernels: dask.rewrite.RuleSet.add / iter_matches / _rewrite / rewrite, _match, _process_match, Traverser,
RewriteRule (+ dask.core.subs through RewriteRule._apply).

Rule sets and subject terms are drawn from a choice grammar (shapes are solver-enumerated), the integer constants
inside patterns and terms are symbolic ints.  The reference is an independent recursive matcher written from the
textbook definition of syntactic matching (a pattern matches a term iff some substitution of its variables makes it
equal to the term); it never touches the discrimination net.
"""
from __future__ import annotations

import itertools
import os

from symx.core import NativeEngine, SBool, Violation
from symx.run import Obligation

import dask.core as DC
import dask.rewrite as RW
from dask.rewrite import RewriteRule, RuleSet

PROPERTY = "C51"
LEVEL = "other"
BUDGET = {"quick": 150, "thorough": 1500}
EXPLANATION = (
    "Bounded symbolic execution of dask.rewrite's discrimination-net matcher on the real RuleSet / RewriteRule classes. Rule sets (<= 2 rules) and "
    "subject terms come from a choice grammar over the function symbols f/2, g/1 (h/0 in the edge family, k/3 in the arity3 family), depth <= 2, "
    "variables x, y (possibly repeated, possibly nested), string constants, and SYMBOLIC integer constants in both patterns and terms. For every "
    "path: (1) the multiset of (rule, bindings) yielded by RuleSet.iter_matches equals what an independent recursive matcher computes -- rule i is "
    "yielded exactly once iff the reference's match condition (a z3 formula over the constants: constant-in-pattern == constant-in-term, repeated "
    "variable bound to equal subterms) holds, never twice; (2) the yielded bindings bind exactly the variables occurring in the lhs, equal the "
    "reference bindings, and the lhs with those bindings substituted simultaneously is structurally equal to the term (e.equal, decided by z3); "
    "(3) rs.rewrite(term, strategy='top_level') equals the right-hand side of SOME matching rule instantiated with its bindings (term rhs: "
    "independent simultaneous substitution; callable rhs: the callable's value on the bindings) and equals the term itself when no rule matches; "
    "(4) the default strategy is bottom_up and returns one of the results of the reference bottom-up rewriting relation (arguments first, then one "
    "top-level step with any matching rule). Every path model is replayed natively, and an e2e witness re-decides the property literally on the "
    "concrete model: every assignment of the lhs variables to subterms of the term is tried, and the assignments that make lhs[assignment] == term "
    "must be exactly the yielded bindings.")
ASSUMPTIONS = [
    "all obligations except `variadic` use a ranked alphabet (every function symbol has one arity in all rules and terms; no function objects / lists "
    "as arguments); `variadic` drops that restriction and its violations are the listed known finding C51-mixed-arity (predicate mixed_arity == 1)",
    "variables are strings listed in `vars`; strings not listed are constants; constants are compared with == / hash like dict keys",
    "patterns are taken up to the renaming x <-> y (the first variable of a lhs in preorder is x) except in the strings family",
    "for term right-hand sides the independent simultaneous instantiation is asserted everywhere, also when the subject term contains strings that "
    "are declared variable names of the rule",
]
STUBS = ["none (dask.rewrite runs unpatched; f, g, h, k3 are inert Python functions used as function symbols)"]
ENUM = [
    "shapes of rules and terms (choice grammar, solver-enumerated)",
    "every integer constant of a pattern is hashed into the discrimination net (dict key) by RuleSet.add and every term constant reached by the "
    "traversal is hashed by _match's dict lookup, so they are concretised, i.e. enumerated over their range (pattern constants [0, pc], term "
    "constants [0, tc], see BOUNDS); only the consistency test of repeated variables bound to compound subterms (subs[v] != s in _process_match on "
    "tuples) and the reference's conditions are genuine solver decisions",
]
OUTSIDE = [
    "function objects as arguments, list arguments (head `list`)",
    "constants of mixed numeric types (1 == True == 1.0 are one dict key), unhashable constants",
    "terms deeper than 2 / arity above 3 / more than 2 rules",
    "which of several matching rules a rewrite applies (the property allows any)",
]
BOUNDS = {
    "quick": dict(constants="symbolic ints, pattern constants in [0, 1] (pc), term constants in [0, 2] (tc) unless stated",
                  one_rule="1 rule, lhs: any term of depth <= 2 over f/2, g/1, leaves {int, x, y} (a lhs (f, (f,..), (f,..)) carries variables only); "
                           "subject: any term of depth <= 2 over f/2, g/1 with int leaves",
                  two_rules="2 rules (f, s, s'), s in {int, x, y, (g, x)}; subject (f, t, t'), t in {int, (g, int), (f, int, int)}; rule 0 term rhs, rule 1 callable rhs",
                  strings="1 rule (f, a, b), a in {x, y, 'a', (g, x|y|'a')}, b in {x, y, 'a'}, y declared a variable or not, unused declared variable z; "
                          "subject (f, a, b) over leaves {'a', 'x', 'y', int in [0, 2]}",
                  edge="0 or 1 rule over f/2, h/0 with leaf lhs (int or bare variable) allowed, term or callable rhs; subject depth <= 2 over f/2, g/1, h/0; constants in [0, 2]",
                  arity3="1-2 rules over k/3: (k, s, s, s), s in {int, x, y}, optionally a second rule (k, x, (g, y), x) or (k, (g, x), y, int); subject (k, t, t, t), "
                         "t in {int, (g, int)}; all constants in [0, 1]",
                  bottom_up="1-2 rules from 5 fixed rules ((g,x)->x, (f,x,x)->(g,x), (g,c)->1, (f,(g,x),y)->(f,x,y), c->(g,0)), 5 subject shapes of depth <= 2"),
    "thorough": dict(constants="pattern and term constants in [0, 2] unless stated",
                     one_rule="as quick without the restriction on (f, (f,..), (f,..)); second family with subject leaves {int, 'a'}, all constants in [0, 1]",
                     two_rules="s in {int, x, y, (g, int), (g, x)}, t in {int, (g, int), (g, (g, int)), (f, int, int)}",
                     strings="as quick plus int constants in the lhs; second family with (g, leaf) allowed in both arguments, constants in [0, 1]",
                     edge="constants in [0, 3]", arity3="constants in [0, 2]", bottom_up="pattern constants [0, 2], term constants [0, 3], 7 subject shapes"),
}

VARIADIC = True      # mixed arities are part of the default run; the violations there are the listed known finding C51-mixed-arity
STRICT_SUBST = True  # the independent simultaneous instantiation is asserted everywhere (sequential substitution was repaired in /repo)


def functions():
    return [RuleSet.add, RuleSet.iter_matches, RuleSet._rewrite, RuleSet.rewrite, RW._match, RW._process_match, RW._top_level, RW._bottom_up,
            RW.Traverser.next, RW.Traverser.skip, RW.Traverser.copy, RW.head, RW.args, RewriteRule.__init__, RewriteRule._apply, DC.subs]


# ---- function symbols (never called by dask.rewrite) ---------------------------------


def f(*a):
    return ("f",) + a


def g(*a):
    return ("g",) + a


def h(*a):
    return ("h",) + a


NAMES = {f: "f", g: "g", h: "h"}


def show(t):
    """printable observation (function symbols by name)"""
    if isinstance(t, tuple):
        return tuple(show(x) for x in t)
    if isinstance(t, list):
        return [show(x) for x in t]
    if isinstance(t, dict):
        return tuple(sorted((k, show(v)) for k, v in t.items()))
    if callable(t):
        return "<" + NAMES.get(t, "fn") + ">"
    return t


# ---- grammar ---------------------------------------------------------------------------

INT = "int"


def S(s):
    return ("str", s)


def gen(e, name, depth, leaves, heads, cmax, sub=None):
    """one term: a leaf from `leaves` (INT -> fresh symbolic int, S(s) -> the string s) or, while depth > 0, an application of one of
    `heads` = [(fn, arity), ...] to generated arguments; `sub` = (depth, leaves, heads) overrides the grammar of the arguments"""
    opts = list(leaves) + (list(heads) if depth > 0 else [])
    o = opts[e.choice(name + "_k", len(opts))]
    if o == INT:
        return e.int(name + "_c", 0, cmax)
    if o[0] == "str":
        return o[1]
    if o[0] == "lit":
        return build(e, name, o[1], cmax)
    fn, ar = o
    d2, l2, h2 = sub if sub is not None else (depth - 1, leaves, heads)
    return (fn,) + tuple(gen(e, f"{name}_{i}", d2, l2, h2, cmax) for i in range(ar))


def L(template):
    """grammar option: a fixed shape; INT inside stands for a fresh symbolic int"""
    return ("lit", template)


def build(e, name, tpl, cmax):
    if tpl == INT:
        return e.int(name + "_c", 0, cmax)
    if isinstance(tpl, tuple):
        return (tpl[0],) + tuple(build(e, f"{name}_{i}", a, cmax) for i, a in enumerate(tpl[1:]))
    return tpl


# ---- reference (independent of dask.rewrite) ---------------------------------------


def is_app(t):
    return type(t) is tuple and len(t) > 0 and callable(t[0])


def AND(a, b):
    if a is False or b is False:
        return False
    if a is True:
        return b
    if b is True:
        return a
    return a & b


def OR(a, b):
    if a is True or b is True:
        return True
    if a is False:
        return b
    if b is False:
        return a
    return a | b


def NOT(a):
    return ~a if isinstance(a, SBool) else (not a)


def IFF(a, b):
    if isinstance(a, SBool) or isinstance(b, SBool):
        a = a if isinstance(a, SBool) else SBool_of(a)
        return a == b
    return bool(a) == bool(b)


def SBool_of(b):
    import z3
    return SBool(z3.BoolVal(bool(b)))


def ref_match(e, pat, vs, t, bind):
    """condition (bool, or SBool over the symbolic constants) under which `pat` matches `t`; `bind` receives variable -> subterm
    (first occurrence binds, later occurrences must be equal)"""
    if is_app(pat):
        if not is_app(t) or t[0] is not pat[0] or len(t) != len(pat):
            return False
        c = True
        for p, s in zip(pat[1:], t[1:]):
            c = AND(c, ref_match(e, p, vs, s, bind))
            if c is False:
                return False
        return c
    if isinstance(pat, str) and pat in vs:
        if pat in bind:
            return e.equal(bind[pat], t)
        bind[pat] = t
        return True
    if is_app(t):
        return False
    return e.equal(pat, t)


def inst(t, bind):
    """simultaneous substitution of variables (strings that are keys of bind)"""
    if is_app(t):
        return (t[0],) + tuple(inst(a, bind) for a in t[1:])
    if isinstance(t, str) and t in bind:
        return bind[t]
    return t


def lhs_vars(pat, vs, acc=None):
    acc = [] if acc is None else acc
    if is_app(pat):
        for a in pat[1:]:
            lhs_vars(a, vs, acc)
    elif isinstance(pat, str) and pat in vs:
        acc.append(pat)
    return acc


def strings_in(t, acc=None):
    acc = set() if acc is None else acc
    if is_app(t):
        for a in t[1:]:
            strings_in(a, acc)
    elif isinstance(t, str):
        acc.add(t)
    return acc


def arities(t, acc):
    if is_app(t):
        acc.setdefault(t[0], set()).add(len(t) - 1)
        for a in t[1:]:
            arities(a, acc)
    return acc


def subterms(t, acc=None):
    acc = [] if acc is None else acc
    acc.append(t)
    if is_app(t):
        for a in t[1:]:
            subterms(a, acc)
    return acc


def called(sd):
    """a callable right-hand side"""
    return ("called", tuple(sorted(sd.items(), key=lambda kv: kv[0])))


class Spec:
    """one rule: lhs, rhs (term or callable), declared vars"""

    def __init__(self, lhs, rhs, vs):
        self.lhs, self.rhs, self.vs = lhs, rhs, vs

    def apply(self, bind):
        if callable(self.rhs):
            return self.rhs(dict(bind))
        return inst(self.rhs, {k: v for k, v in bind.items()})


def ref_top(e, specs, t):
    """[(condition, result)] of one top-level step: each matching rule, or the unchanged term when none matches"""
    out = []
    none = True
    for sp in specs:
        b = {}
        c = ref_match(e, sp.lhs, sp.vs, t, b)
        if c is False:
            continue
        out.append((c, sp.apply(b)))
        none = AND(none, NOT(c))
    if none is not False:
        out.append((none, t))
    return out


def ref_bottom_up(e, specs, t):
    """concrete list of admissible results (conditions are decided by forking)"""
    if is_app(t):
        alts = [()]
        for a in t[1:]:
            alts = [pre + (v,) for pre in alts for v in ref_bottom_up(e, specs, a)]
        tops = [(t[0],) + pre for pre in alts]
    else:
        tops = [t]
    out = []
    for t2 in tops:
        for c, v in ref_top(e, specs, t2):
            if bool(c):
                out.append(v)
    return out


# ---- the checks --------------------------------------------------------------------------


def check_matching(e, specs, term, capture_strict=True):
    rules = [RewriteRule(sp.lhs, sp.rhs, sp.vs) for sp in specs]
    rs = RuleSet(*rules)
    got = list(rs.iter_matches(term))
    counts = [0] * len(rules)
    ref = []
    for sp in specs:
        b = {}
        c = ref_match(e, sp.lhs, sp.vs, term, b)
        ref.append((c, b))
    obs = []
    for rule, sd in got:
        idx = [i for i, r in enumerate(rules) if r is rule]
        e.check(len(idx) == 1, "iter_matches yielded an object that is not a rule of the set")
        i = idx[0]
        counts[i] += 1
        sp = specs[i]
        e.check(isinstance(sd, dict) and set(sd) == set(lhs_vars(sp.lhs, sp.vs)), f"bindings {sorted(sd)} are not exactly the variables of the lhs")
        same = e.equal(inst(sp.lhs, sd), term)
        e.check(lambda: same, "lhs with the yielded bindings substituted is not equal to the term (unsound match)")
        c, b = ref[i]
        if c is not False:
            agree = e.equal(dict(sd), b)
            e.check(lambda: agree, "yielded bindings differ from the reference matcher's")
        obs.append((i, show(sd)))
    for i, (c, b) in enumerate(ref):
        e.check(counts[i] <= 1, f"rule {i} yielded {counts[i]} times")
        n = counts[i]
        e.check(lambda: IFF(c, n == 1), f"rule {i}: yielded={n == 1} but the reference matcher says otherwise (incomplete or unsound)")
    # top-level rewrite
    res = rs.rewrite(term, strategy="top_level")
    ok = False
    none = True
    for i, (c, b) in enumerate(ref):
        if c is False:
            continue
        sp = specs[i]
        none = AND(none, NOT(c))
        exp = sp.apply(b)
        if not callable(sp.rhs) and not capture_strict and (strings_in(term) & set(sp.vs)):
            exp = rules[i].subs(dict(b))
        ok = OR(ok, AND(c, e.equal(res, exp)))
    ok = OR(ok, AND(none, e.equal(res, term)))
    e.check(lambda: ok, "top_level rewrite is neither a matching rule applied to the term nor (when nothing matches) the unchanged term")
    return obs, show(res)


def literal_e2e(specs, term):
    """the property statement, literally, on concrete data: the yielded bindings are exactly the assignments (variables -> subterms of the
    term) that make the lhs equal to the term"""
    rules = [RewriteRule(sp.lhs, sp.rhs, sp.vs) for sp in specs]
    rs = RuleSet(*rules)
    got = list(rs.iter_matches(term))
    subs_ = []
    for s in subterms(term):
        if not any(type(s) is type(o) and s == o for o in subs_):
            subs_.append(s)
    anymatch = False
    for i, sp in enumerate(specs):
        vs = sorted(set(lhs_vars(sp.lhs, sp.vs)))
        lit = []
        for vals in itertools.product(subs_, repeat=len(vs)):
            b = dict(zip(vs, vals))
            if inst(sp.lhs, b) == term:
                lit.append(b)
        mine = [sd for r, sd in got if r is rules[i]]
        if len(lit) > 1:
            raise Violation(f"harness: non-unique literal matcher {lit}")
        if mine != lit:
            raise Violation(f"rule {i} {show(sp.lhs)} on {show(term)}: iter_matches yields {show(mine)}, substitutions making lhs equal the term: {show(lit)}")
        anymatch = anymatch or bool(lit)
    res = rs.rewrite(term, strategy="top_level")
    if not anymatch and res != term:
        raise Violation(f"nothing matches {show(term)} but top_level rewrite returned {show(res)}")
    if anymatch and not any(sd_r[0].subs(dict(sd_r[1])) == res for sd_r in got):
        raise Violation(f"top_level rewrite of {show(term)} returned {show(res)}, not a matching rule's instance")


def mk(name, setup, strict=True, bottom_up=False, every=3):
    def run(e, specs, term):
        if bottom_up:
            rules = [RewriteRule(sp.lhs, sp.rhs, sp.vs) for sp in specs]
            rs = RuleSet(*rules)
            res = rs.rewrite(term)
            res2 = rs.rewrite(term, strategy="bottom_up")
            same = e.equal(res, res2)
            e.check(lambda: same, "default strategy is not bottom_up")
            adm = ref_bottom_up(e, specs, term)
            e.check(any(bool(e.equal(res, v)) for v in adm), "bottom_up rewrite result is not reachable by rewriting the arguments and then the top with matching rules")
            return show(res), len(adm)
        return check_matching(e, specs, term, capture_strict=strict)

    def e2e(model):
        specs, term = setup(NativeEngine(model))
        literal_e2e(specs, term)

    return Obligation(name, setup, run, e2e=e2e, e2e_every=every)


FG = [(f, 2), (g, 1)]
XY = [S("x"), S("y")]
RHS = (h, "y", (g, "x"), 7)


def x_first(lhs, vs=("x", "y")):
    """symmetry reduction: the first variable of the lhs in preorder is x (patterns are considered up to renaming x <-> y)"""
    v = lhs_vars(lhs, vs)
    return not v or v[0] == "x"


def has_int(t):
    if is_app(t):
        return any(has_int(a) for a in t[1:])
    return not isinstance(t, str)


def ob_one_rule(pc, tc, term_leaves, tag, light=False):
    def setup(e):
        lhs = gen(e, "p", 2, [INT] + XY, FG, pc)
        e.assume(x_first(lhs))
        if light:
            # quick tier: a lhs (f, (f, ..), (f, ..)) carries variables only
            e.assume(not (is_app(lhs) and lhs[0] is f and all(is_app(a) and a[0] is f for a in lhs[1:]) and has_int(lhs)))
        term = gen(e, "t", 2, term_leaves, FG, tc)
        return [Spec(lhs, RHS, ("x", "y"))], term
    return mk(f"one_rule[{tag},pc<={pc},tc<={tc}]", setup)


def ob_two_rules(pc, tc, s_opts, t_opts, tag):
    def setup(e):
        specs = []
        for r in range(2):
            lhs = (f,) + tuple(gen(e, f"p{r}_{i}", 0, s_opts, [], pc) for i in range(2))
            e.assume(x_first(lhs))
            specs.append(Spec(lhs, RHS if r == 0 else called, ("x", "y")))
        term = (f,) + tuple(gen(e, f"t_{i}", 0, t_opts, [], tc) for i in range(2))
        return specs, term
    return mk(f"two_rules[{tag},pc<={pc},tc<={tc}]", setup)


def ob_strings(cmax, deep, pat_int):
    pl = [S("x"), S("y"), S("a")] + ([INT] if pat_int else [])
    tl = [S("a"), S("x"), S("y"), INT]

    def shape(e, name, leaves):
        first = gen(e, name + "_0", 1, leaves, [(g, 1)], cmax)
        second = gen(e, name + "_1", 1 if deep else 0, leaves, [(g, 1)], cmax)
        return (f, first, second)

    def setup(e):
        y_var = e.flag("y_is_var")
        vs = ("x", "y", "z") if y_var else ("z", "x")
        lhs = shape(e, "p", pl)
        term = shape(e, "t", tl)
        # derived model variable (lets a known-finding predicate name the capture region of RewriteRule._apply)
        cap = int(bool(strings_in(term) & set(vs)))
        v = e.int("var_named_leaf", 0, 1)
        e.assume(lambda: v == cap)
        return [Spec(lhs, (h, "y", "x", "z"), vs)], term
    return mk(f"strings[deep={int(deep)},pat_int={int(pat_int)},c<={cmax}]", setup, strict=STRICT_SUBST)


def ob_edge(cmax):
    H0 = [(f, 2), (h, 0)]

    def setup(e):
        n = e.choice("nrules", 2)
        specs = []
        if n:
            lhs = gen(e, "p", 1, [INT, S("x")], H0, cmax)
            specs.append(Spec(lhs, called if e.flag("rhs_callable") else (g, "x"), ("x",)))
        term = gen(e, "t", 2, [INT], H0, cmax, sub=(1, [INT], [(h, 0), (g, 1)]))
        return specs, term
    return mk(f"edge[c<={cmax}]", setup)


def k3(*a):
    return ("k",) + a


NAMES[k3] = "k"
K3_RULE1 = [None, (k3, "x", (g, "y"), "x"), (k3, (g, "x"), "y", INT)]


def ob_arity3(pc, tc):
    """a ternary symbol: the traversal stack holds two pending siblings (their order matters only from arity 3 on)"""
    def setup(e):
        lhs = (k3,) + tuple(gen(e, f"p0_{i}", 0, [INT] + XY, [], pc) for i in range(3))
        e.assume(x_first(lhs))
        specs = [Spec(lhs, RHS, ("x", "y"))]
        r1 = K3_RULE1[e.choice("rule1", len(K3_RULE1))]
        if r1 is not None:
            specs.append(Spec(build(e, "p1", r1, pc), called, ("x", "y")))
        term = (k3,) + tuple(gen(e, f"t_{i}", 0, [INT, L((g, INT))], [], tc) for i in range(3))
        return specs, term
    return mk(f"arity3[pc<={pc},tc<={tc}]", setup)


# complete rules for the bottom-up family: rewriting the arguments creates / destroys matches at the top
BU_RULES = [
    ((g, "x"), "x"),
    ((f, "x", "x"), (g, "x")),
    ((g, INT), 1),
    ((f, (g, "x"), "y"), (f, "x", "y")),
    (INT, (g, 0)),
]


def ob_bottom_up(pc, tc, t_opts):
    def setup(e):
        specs = []
        n = 1 + e.choice("nrules", 2)
        for r in range(n):
            lhs, rhs = BU_RULES[e.choice(f"rule{r}", len(BU_RULES))]
            specs.append(Spec(build(e, f"p{r}", lhs, pc), rhs, ("x", "y")))
        term = gen(e, "t", 0, t_opts, [], tc)
        return specs, term
    return mk(f"bottom_up[pc<={pc},tc<={tc}]", setup, bottom_up=True)


BU_TERMS = [L((f, INT, INT)), L((f, (g, INT), INT)), L((f, (g, INT), (g, INT))), L((g, (g, INT))), L((g, (f, INT, INT)))]


def ob_variadic(cmax):
    """function symbols used with arity 1 AND 2: outside the ranked-alphabet assumption (enabled with VERIF_C51_VARIADIC=1).
    mixed_arity is a derived model variable so that a known-finding predicate can name the region."""
    pl = [INT, S("x")]
    p_sub = (1, pl, [(g, 1), (g, 2)])
    t_sub = (1, [INT], [(g, 1), (g, 2)])

    def setup(e):
        lhs = gen(e, "p", 2, [], [(f, 1), (f, 2)], cmax, sub=p_sub)
        specs = [Spec(lhs, RHS, ("x", "y"))]
        term = gen(e, "t", 2, [], [(f, 1), (f, 2)], cmax, sub=t_sub)
        ar = arities(term, arities(lhs, {}))
        mixed = int(any(len(v) > 1 for v in ar.values()))
        mx = e.int("mixed_arity", 0, 1)
        e.assume(lambda: mx == mixed)
        return specs, term
    return mk(f"variadic[c<={cmax}]", setup)


def ob_special_constants(pc, tc):
    """constants that are falsy or None (None, 0, '') as leaves of patterns and terms: a matcher must treat them like any other
    constant (a variable bound to None is bound)"""
    special = [L(None), L("")]

    def setup(e):
        lhs = gen(e, "p", 1, [INT] + XY + special[:2], [(f, 2)], pc)
        e.assume(x_first(lhs))
        term = gen(e, "t", 1, [INT] + special, [(f, 2)], tc)
        return [Spec(lhs, RHS, ("x", "y"))], term
    return mk(f"special_constants[pc<={pc},tc<={tc}]", setup)


def obligations(tier):
    obs = []
    if tier == "quick":
        obs.append(ob_one_rule(1, 2, [INT], "int-terms", light=True))
        obs.append(ob_two_rules(1, 2, [INT, S("x"), S("y"), L((g, "x"))],
                                [INT, L((g, INT)), L((f, INT, INT))], "f-rooted"))
        obs.append(ob_strings(2, False, False))
        obs.append(ob_edge(2))
        obs.append(ob_arity3(1, 1))
        obs.append(ob_bottom_up(1, 2, BU_TERMS))
        obs.append(ob_special_constants(1, 1))
    else:
        obs.append(ob_special_constants(2, 2))
        obs.append(ob_one_rule(2, 2, [INT], "int-terms"))
        obs.append(ob_one_rule(1, 1, [INT, S("a")], "int+str-terms"))
        obs.append(ob_two_rules(2, 2, [INT, S("x"), S("y"), L((g, INT)), L((g, "x"))],
                                [INT, L((g, INT)), L((g, (g, INT))), L((f, INT, INT))], "f-rooted"))
        obs.append(ob_strings(2, False, True))
        obs.append(ob_strings(1, True, False))
        obs.append(ob_edge(3))
        obs.append(ob_arity3(2, 2))
        obs.append(ob_bottom_up(2, 3, BU_TERMS + [L((f, (f, INT, INT), (g, INT))), L((f, INT, (g, INT)))]))
    if VARIADIC:
        obs.append(ob_variadic(1 if tier == "quick" else 2))
    return obs
