"""C19 -- elementwise and broadcasting array operations equal NumPy.

The ufunc values are NumPy C code.  What is decided here is the integer arithmetic that makes elementwise work
blockwise: dask.array.core.broadcast_shapes (result shape / ValueError), common_blockdim, unify_chunks (chunk
alignment of all operands), broadcast_chunks, broadcast_to's chunk and block-index handling, and
dask.blockwise.broadcast_dimensions / _make_dims / _get_coord_mapping / _make_blockwise_graph /
Blockwise._cull_dependencies (output block (i, j) reads input block (i or 0, j or 0)).
"""
from __future__ import annotations

import builtins
import itertools
import operator
import warnings

import numpy as np

from symx.core import SInt, SBool, Violation, HarnessError, NativeEngine
from symx.patch import patched, math_shim, ModuleShim, INT_SHIM
from symx.run import Obligation

import dask
import dask.array as da
import dask.array.core as AC
import dask.blockwise as B
import dask.utils as U
from dask._task_spec import TaskRef, Alias, DataNode

PROPERTY = "C19"
LEVEL = "other"
BUDGET = {"quick": 150, "thorough": 1500}
EXPLANATION = (
    "Bounded symbolic execution of the shape / chunk / block-alignment arithmetic behind elementwise operations. "
    "(1) broadcast_shapes on <= 3 shapes of ndim <= 2 with symbolic dims: the result equals the NumPy broadcasting rule (an independent "
    "reference on the symbolic dims, itself compared with numpy.broadcast_shapes on every path model) and ValueError is raised exactly "
    "when NumPy raises. (2) common_blockdim on <= 3 chunk tuples of <= 3 symbolic chunk sizes with equal sums: the output is a non-empty tuple that adds up "
    "to the dimension and its set of chunk boundaries (cumulative sums) equals the union of the inputs' boundary sets. (3) unify_chunks run on "
    "recording Array stand-ins with broadcast-compatible shapes (size-1 and 0-length axes included): for every index the common chunks add up "
    "to the NumPy broadcast dimension with boundary set the union of the full-size operands' boundaries, every returned operand keeps its "
    "shape, has per axis either as many blocks as the common chunks or one block, and the block sizes that blockwise will combine (block i, or "
    "block 0 of a single-block operand) are NumPy-broadcast-compatible and give exactly the declared common chunk sizes. (4) broadcast_chunks: "
    "result per axis is the one non-(1,) chunk tuple, ValueError exactly when two operands disagree. (5) The real Blockwise layer "
    "(_make_dims, _get_coord_mapping, _make_blockwise_graph, _cull_dependencies) for elementwise index patterns ('ij' with 'j', 'i', 'ji', "
    "literals) and symbolic numblocks: one task per output block, whose k-th argument is input block (out coordinate, or 0 where the input "
    "has a single block) in the input's own axis order; cull dependencies equal exactly those keys; ValueError exactly when two inputs have "
    "different non-1 block counts on one index. (6) broadcast_to: chunks add up to the target shape, every block reads the aligned source "
    "block, ValueError exactly when NumPy refuses. (7) the obligations of (2) and (3) again with empty (0-size) chunks inside the axes, "
    "including size-1 axes chunked (1, 0) / (0, 1). Path trees exhausted, per-path native replay, and an e2e witness per path model through "
    "da.from_array: x+y(+z), comparisons, ufuncs, da.where, where=/out=, astype, clip, broadcast_to, broadcast_arrays against NumPy for "
    "values, dtype, shape, and chunks/block shapes adding up.")
ASSUMPTIONS = [
    "dim and chunk sizes are never NaN here (unknown chunk sizes are outside the claim): np.isnan on symbolic ints answers False",
    "np.max of a tuple of Python ints is Python's max (shimmed so that the dims stay symbolic)",
    "the recording Array stand-in's rechunk() declares the chunks that the real rechunk would declare (dask's own normalize_chunks is called, sums validated "
    "as _validate_rechunk does, all-empty arrays returned unchanged as rechunk does); the data movement of rechunk itself is property C23 and is exercised "
    "here only by the e2e witnesses",
    "out= arrays have the broadcast shape of the inputs (handle_out raises ValueError otherwise: NumPy would broadcast the inputs into a larger out)",
]
STUBS = ["dask.array.core.np -> shim: isnan(SInt / tuple of ints) = False, max(tuple of ints) = Python max",
         "dask.array.core.{int, math} shims (normalize_chunks called by the stand-in's rechunk)",
         "recording subclass of dask.array.Array (name / chunks / shape / numblocks / npartitions / rechunk) for unify_chunks",
         "functools.lru_cache of dask.utils._cumsum and dask.array.core.normalize_chunks_cached cleared per path"]
ENUM = ["number of operands, ndim per operand, number of chunks per axis, which axes are size-1 broadcast axes, index pattern of the blockwise layer",
        "chunk tuples entering common_blockdim / broadcast_dimensions / broadcast_chunks are hashed (set members) there: the solver enumerates every "
        "feasible chunk tuple inside the bounds (dims stay symbolic only in broadcast_shapes and in the size comparisons before hashing)",
        "numblocks of the blockwise layer (range() / set membership) and every input of broadcast_to (real Array construction)"]
OUTSIDE = ["ufunc values and dtype promotion (NumPy C code) beyond the e2e witnesses", "unknown (NaN) chunk sizes / shapes", "more than 3 operands, more than 2 dimensions (3 for the blockwise layer)",
           "contracted (dummy) indices, new_axes, adjust_chunks, concatenate of dask.array.blockwise (tensordot / map_blocks: C35)",
           "the data movement of rechunk (C23)", "dask.array.blockwise.blockwise, elemwise, handle_out themselves need real Arrays and NumPy metas: e2e witnesses only",
           "out= larger than the broadcast shape of the inputs (dask refuses with ValueError, NumPy broadcasts)"]
BOUNDS = {
    "quick": dict(broadcast_shapes="1..2 shapes of ndim 0..2, 3 shapes of ndim (2, 0..2, 0..2), dims symbolic in [0,4]",
                  common_blockdim="2..3 tuples of 1..3 chunks, sizes symbolic in [1,4] (single chunk [0,4]), dim <= 4",
                  unify="operand ndims (1,1) dim<=4 <=3 chunks; (2,1) (1,2) (2,2) dim<=3 <=2 chunks; (1,1,1) dim<=3 <=3 chunks; (2,2,1) dim<=3 1 chunk",
                  broadcast_chunks="(1,1) dim<=3 <=3 chunks; (2,1) (1,1,1) dim<=2 <=2 chunks; one operand axis optionally chunked differently",
                  blockwise="<= 3 inputs, ndim <= 2, numblocks symbolic in [1,3]", broadcast_to="1-d source <=2 chunks dims in [0,3] <=1 new axis with/without chunks=; 2-d source dims in [0,2] no new axis",
                  empty_chunks="common_blockdim 2 tuples of <=2 chunks in [0,2], dim<=2; unify (1,1) <=2 chunks in [0,2], dim<=2, size-1 axes (1,) (1,0) (0,1)"),
    "thorough": dict(broadcast_shapes="1..2 shapes ndim 0..3, 3 shapes ndim 0..2, dims symbolic in [0,9]", common_blockdim="2 tuples of <=4 chunks / 3 tuples of <=3 chunks, sizes in [1,5], dim <= 6",
                     unify="(1,1) (1,1,1) dim<=5 <=3 chunks; (2,1) (1,2) (2,2) dim<=4 <=3 chunks; (2,2,1) (2,1,2) dim<=3 <=2 chunks; (2,2,2) dim<=2 <=2 chunks", broadcast_chunks="<= 3 operands ndim <= 2, dim<=4",
                     blockwise="<= 3 inputs, ndim <= 3, numblocks in [1,4] (3 for 3-d)", broadcast_to="1-d source <=3 chunks dims in [0,4] <=2 new axes; 2-d source <=3 chunks dims in [0,3] <=1 new axis; 2-d dims in [0,2] <=2 new axes",
                     empty_chunks="common_blockdim 2 tuples <=3 chunks in [0,3] dim<=6, 3 tuples <=3 chunks in [0,2] dim<=3; unify (1,1) <=3 chunks dim<=4, (2,1) <=2 chunks dim<=3"),
}

# NOTE (finding on the unchanged tree): operand axes of total length <= 1 that are cut into several chunks -- e.g. ((1, 0),) as produced by
# x[x < 1].compute_chunk_sizes() -- break unify_chunks / common_blockdim: (y + 1) computes two elements for a one-element y, a size-1 axis
# chunked (1, 0) cannot be broadcast (ValueError), a 0-length axis chunked (0, 0) makes common_blockdim return () (ValueError) or
# broadcast_arrays raise.  The empty-chunk obligations declare the model variable deg_axis (1 iff such an axis is present) so that the
# region can be named by a known-finding predicate ("deg_axis == 1").


def functions():
    return [AC.broadcast_shapes, AC.common_blockdim, AC.unify_chunks, AC.broadcast_chunks, AC.broadcast_to,
            B.broadcast_dimensions, B._make_dims, B._get_coord_mapping, B._make_blockwise_graph, B.blockwise,
            B.Blockwise._cull_dependencies, B.Blockwise.get_output_keys]


# ---------------------------------------------------------------- shims / helpers

class _NoNaN:
    def any(self):
        return False


class _Item:
    def __init__(self, v):
        self.v = v

    def item(self):
        return self.v


def _np_shim():
    def _ints(x):
        return isinstance(x, (tuple, list)) and len(x) > 0 and builtins.all(isinstance(i, (int, SInt)) for i in x)

    def isnan(x, *a, **k):
        if isinstance(x, SInt):
            return False
        if _ints(x):
            return _NoNaN()
        return np.isnan(x, *a, **k)

    def max_(x, *a, **k):
        if _ints(x) and builtins.any(isinstance(i, SInt) for i in x):
            return _Item(builtins.max(x))
        return np.max(x, *a, **k)

    return ModuleShim(np, isnan=isnan, max=max_)


def _patches():
    return patched((AC, "np", _np_shim()), (AC, "int", INT_SHIM), (AC, "math", math_shim()))


def _clear():
    U._cumsum.cache_clear()
    AC.normalize_chunks_cached.cache_clear()


def _not(x):
    return ~x if isinstance(x, SBool) else (not x)


def _and(xs):
    r = True
    for x in xs:
        r = r & x
    return r


def _or(xs):
    r = False
    for x in xs:
        r = r | x
    return r


def _teq(a, b):
    """tuples of ints equal (lazy)"""
    if len(a) != len(b):
        return False
    return _and(x == y for x, y in zip(a, b))


def _is_one(t):
    return _teq(t, (1,))


def _tot(t):
    s = 0
    for c in t:
        s = s + c
    return s


def _cums(t):
    out = [0]
    for c in t:
        out.append(out[-1] + c)
    return out


def _subset(A, Bs):
    return _and(_or(a == b for b in Bs) for a in A)


def _np_rule(e, shapes):
    """NumPy's broadcasting rule, written from the NumPy documentation: right-align; along each axis all sizes other than 1 must agree.
    returns (shape, incompatible) -- evaluate inside a lazy section"""
    n = builtins.max([len(s) for s in shapes], default=0)
    out, bad = [], False
    for k in range(1, n + 1):
        r = 1
        for d in [s[-k] for s in shapes if len(s) >= k]:
            bad = bad | ((d != 1) & (r != 1) & (r != d))
            r = e.ite(d != 1, d, r)
        out.insert(0, r)
    return tuple(out), bad


def _plain(t):
    """nested tuples of python ints (after the path fixed them)"""
    if isinstance(t, (tuple, list)):
        return tuple(_plain(x) for x in t)
    return operator.index(t)


# ---------------------------------------------------------------- e2e witnesses through the public API

def _mk(shape, o):
    n = int(np.prod(shape))
    x = (np.arange(n, dtype="i8").reshape(shape) * (3 + 2 * o) + 5 * o + 1) % 11
    if o == 1:
        return x * 0.5          # one float operand: dtype promotion is part of the comparison
    return x


def _same(tag, got, want, info):
    """got: dask array; want: numpy result"""
    want = np.asarray(want)
    if got.shape != want.shape:
        raise Violation(f"{tag}: shape {got.shape}, NumPy {want.shape} ({info})")
    if got.dtype != want.dtype:
        raise Violation(f"{tag}: dtype {got.dtype}, NumPy {want.dtype} ({info})")
    if tuple(sum(c) for c in got.chunks) != want.shape:
        raise Violation(f"{tag}: chunks {got.chunks} do not add up to the shape {want.shape} ({info})")
    val = got.compute(scheduler="sync")
    if val.shape != want.shape or val.dtype != want.dtype or not np.array_equal(val, want, equal_nan=(want.dtype.kind in "fc")):
        raise Violation(f"{tag}: computed values differ from NumPy ({info})")


def _blocks_ok(tag, r, info):
    if r.ndim == 0:
        return      # (Array.blocks on a 0-d array is a separate accessor, not part of this property)
    for idx in itertools.product(*[range(len(c)) for c in r.chunks]):
        blk = r.blocks[idx].compute(scheduler="sync")
        if blk.shape != tuple(r.chunks[a][i] for a, i in enumerate(idx)):
            raise Violation(f"{tag}: block {idx} has shape {blk.shape}, chunks say {r.chunks} ({info})")


def _from(x, ch):
    d = da.from_array(x, chunks=ch)
    if d.chunks != ch:
        raise HarnessError(f"from_array changed the chunks {ch} -> {d.chunks}")
    return d


def _split(n, k):
    k = builtins.max(1, builtins.min(k, n))
    base, extra = divmod(n, k)
    return tuple(base + (1 if i < extra else 0) for i in range(k))


def e2e_elemwise(chunkss, light=False):
    """chunkss: per operand a chunks tuple (tuple of tuples of python ints)"""
    chunkss = [_plain(c) for c in chunkss]
    shapes = [tuple(sum(c) for c in ch) for ch in chunkss]
    info = f"chunks={chunkss}"
    xs = [_mk(s, o) for o, s in enumerate(shapes)]
    with warnings.catch_warnings():
        warnings.simplefilter("ignore")
        ds = [_from(x, ch) for x, ch in zip(xs, chunkss)]
        try:
            oshape = np.broadcast_shapes(*shapes)
        except ValueError:
            oshape = None
        if oshape is None:
            if len(ds) >= 2:
                try:
                    r = ds[0] + ds[1] if len(ds) == 2 else da.where(ds[2] > 3, ds[0], ds[1])
                except ValueError:
                    return
                raise Violation(f"dask broadcast shapes that NumPy refuses: {shapes} -> {r.shape}")
            return
        if len(ds) == 1:
            x, dx = xs[0], ds[0]
            _same("astype(f4)", dx.astype("f4"), x.astype("f4"), info)
            _same("astype(bool)", dx.astype(bool), x.astype(bool), info)
            if x.ndim:      # (NumPy scalars come back in native byte order)
                sw = x.dtype.newbyteorder()
                _same("astype(byte-swapped dtype)", dx.astype(sw), x.astype(sw), info)
            _same("clip", da.clip(dx, 2, 7), np.clip(x, 2, 7), info)
            _same("negative", -dx, -x, info)
            _same("x+x", dx + dx, x + x, info)
            return
        x, y = xs[0], xs[1]
        dx, dy = ds[0], ds[1]
        r = dx + dy
        _same("x+y", r, x + y, info)
        _blocks_ok("x+y", r, info)
        _same("x<y", dx < dy, x < y, info)
        if x.ndim:
            sw = x.dtype.newbyteorder()
            _same("astype(byte-swapped dtype)", dx.astype(sw), x.astype(sw), info)
            _same("(x+y).astype(byte-swapped dtype)", (dx + dy).astype(sw), (x + y).astype(sw), info)
        # the same ufunc on the same operands with and without dtype= in ONE graph: each keeps its own result
        lo = "f4" if np.result_type(x, y).kind == "f" else "i2"
        a, b = da.add(dx, dy, dtype=lo), da.add(dx, dy)
        ga, gb = da.compute(a, b, scheduler="sync")
        wa, wb = np.add(x, y, dtype=lo, casting="unsafe"), np.add(x, y)
        if a.dtype != wa.dtype or ga.dtype != wa.dtype or not np.array_equal(ga, wa):
            raise Violation(f"add(x, y, dtype={lo}) computed together with add(x, y): dtype {ga.dtype} / values differ from NumPy's {wa.dtype} ({info})")
        if gb.dtype != wb.dtype or not np.array_equal(gb, wb):
            raise Violation(f"add(x, y) computed together with add(x, y, dtype={lo}): dtype {gb.dtype} / values differ from NumPy's {wb.dtype} ({info})")
        _same("where(c,x,y)", da.where(dx > 3, dx, dy), np.where(x > 3, x, y), info)
        if len(ds) == 3:
            z, dz = xs[2], ds[2]
            _same("x*y-z", dx * dy - dz, x * y - z, info)
            r3 = da.where(dz > 3, dx, dy)
            _same("where(z>3,x,y)", r3, np.where(z > 3, x, y), info)
            _blocks_ok("where(z>3,x,y)", r3, info)
            _same("clip(x,y,z+4)", da.clip(dx, dy, dz + 4), np.clip(x, y, z + 4), info)
            ba = da.broadcast_arrays(dx, dy, dz)
            for g, w in zip(ba, np.broadcast_arrays(x, y, z)):
                _same("broadcast_arrays", g, w, info)
        if light:
            return
        # a one-element ndarray of HIGHER rank than the dask operand broadcasts like any other array (it is not a scalar)
        one = np.array([5]).reshape((1,) * (dx.ndim + 1))
        _same("x + 1-element array of higher rank", dx + one, x + one, info)
        _same("1-element array of higher rank - x", one - dx, one - x, info)
        # integer divmod / floor_divide / remainder with zeros among the divisors (NumPy: x // 0 == 0 and x % 0 == 0, with a RuntimeWarning)
        with np.errstate(all="ignore"):
            yi, dyi = (y * 2).astype("i8") - 2, (dy * 2).astype("i8") - 2      # integer divisors, some of them 0
            q, r_ = np.divmod(x, yi)
            dq, dr = np.divmod(dx, dyi)
            _same("divmod quotient", dq, q, info)
            _same("divmod remainder", dr, r_, info)
            _same("remainder", dx % dyi, x % yi, info)
            finf = np.where(yi == 0, np.inf, yi.astype("f8"))
            dfinf = da.where(dyi == 0, np.inf, dyi.astype("f8"))
            _same("divmod remainder, infinite divisors", np.divmod(dx, dfinf)[1], np.divmod(x, finf)[1], info)
        _same("np.maximum", np.maximum(dx, dy), np.maximum(x, y), info)
        _same("da.add(numpy operand)", da.add(dx, y), np.add(x, y), info)
        _same("x+y astype(i2)", (dx + dy).astype("i2"), (x + y).astype("i2"), info)
        _same("clip(x,2,y+6)", da.clip(dx, 2, dy + 6), np.clip(x, 2, y + 6), info)
        # out= (dask requires out.shape == broadcast shape of the inputs: handle_out's documented check)
        ref = np.add(x, y)
        oshape = ref.shape
        ochunks = tuple(_split(n, 2) for n in oshape)
        o = da.from_array(np.zeros(oshape, dtype=ref.dtype), chunks=ochunks)
        got = np.add(dx, dy, out=o)
        if got is not o:
            raise Violation("np.add(..., out=o) did not return o")
        _same("np.add(out=)", o, ref, info)
        # where= with out=
        c = (np.arange(int(np.prod(oshape))).reshape(oshape) % 3) != 0
        base = np.full(oshape, -5, dtype=ref.dtype)
        want = base.copy()
        np.add(x, y, out=want, where=c)
        o2 = da.from_array(base.copy(), chunks=ochunks)
        dc = da.from_array(c, chunks=tuple(_split(n, 3) for n in oshape))
        np.add(dx, dy, out=o2, where=dc)
        _same("np.add(out=, where=)", o2, want, info)
        # broadcast_to / broadcast_arrays
        for g, w in zip(da.broadcast_arrays(dx, dy), np.broadcast_arrays(x, y)):
            _same("broadcast_arrays", g, w, info)
        _same("broadcast_to", da.broadcast_to(dy, oshape), np.broadcast_to(y, oshape), info)


# ---------------------------------------------------------------- operand declaration (broadcast compatible)

def _axis_chunks(e, tag, maxn, CH, zero=False):
    n = 1 + e.choice(f"n{tag}", maxn)
    if n == 1:
        return (e.int(f"c{tag}_0", 0, CH),)
    return tuple(e.int(f"c{tag}_{i}", 0 if zero else 1, CH) for i in range(n))


def declare_ops(e, ndims, maxn, DMAX, CH, zero=False):
    """broadcast-compatible operands; axes are numbered from the right.  returns (chunks per operand, dims per axis).
    A broadcast (size-1) axis has the single chunk (1,); zero=True allows empty chunks inside every axis (also (1, 0) / (0, 1))."""
    nd = builtins.max(ndims)
    D = [e.int(f"D{k}", 0, DMAX) for k in range(nd)]
    per = [[None] * m for m in ndims]
    for k in range(nd):
        have = [o for o, m in enumerate(ndims) if m > k]
        nfull = 0
        for o in have:
            if e.flag(f"b{o}_{k}"):
                e.assume(lambda: D[k] != 1)      # (a size-1 axis of a size-1 dimension is the non-broadcast case)
                per[o][k] = e.pick(f"bz{o}_{k}", [(1,), (1, 0), (0, 1)]) if zero else (1,)
            else:
                ch = _axis_chunks(e, f"{o}_{k}", maxn, CH, zero)
                e.assume(lambda: _tot(ch) == D[k])
                per[o][k] = ch
                nfull += 1
        if nfull == 0:
            e.assume(False)
    if zero:
        _declare_deg(e, [(per[o][k], _tot(per[o][k])) for o, m in enumerate(ndims) for k in range(m)])
    ops = [tuple(per[o][k] for k in reversed(range(m))) for o, m in enumerate(ndims)]
    return ops, D


def _declare_deg(e, axes):
    """model variable deg_axis = 1 iff some operand axis of total length <= 1 is cut into several chunks (e.g. (1, 0), (0, 0)): the
    region of the empty-chunk defects, so that a known-finding predicate can name it"""
    deg = e.int("deg_axis", 0, 1)
    e.assume(lambda: (deg == 1) == _or((d <= 1) for ch, d in axes if len(ch) >= 2))


def ops_from_model(model, ndims, maxn, DMAX, CH, zero=False):
    return declare_ops(NativeEngine(model), ndims, maxn, DMAX, CH, zero)[0]


# ---------------------------------------------------------------- (1) broadcast_shapes

def mk_bshape(k, maxnd, DMAX, first_full=False):
    """first_full: the first shape has exactly maxnd dimensions (quick tier, 3 shapes: a third of the ndim combinations)"""
    def setup(e):
        shapes = []
        for o in range(k):
            m = maxnd if (first_full and o == 0) else e.choice(f"nd{o}", maxnd + 1)
            shapes.append(tuple(e.int(f"s{o}_{a}", 0, DMAX) for a in range(m)))
        return (shapes,)

    def run(e, shapes):
        try:
            out = AC.broadcast_shapes(*shapes)
        except ValueError:
            out = None
        if e.mode == "native":      # the reference itself against NumPy
            try:
                want = tuple(np.broadcast_shapes(*shapes))
            except ValueError:
                want = None
            e.check(want == (None if out is None else tuple(out)), f"broadcast_shapes{tuple(shapes)} = {out}, numpy.broadcast_shapes gives {want}")
        if out is None:
            e.check(lambda: _np_rule(e, shapes)[1], "ValueError although the shapes are broadcast-compatible under NumPy's rule")
            return "ValueError"
        e.check(isinstance(out, tuple), "result is not a tuple")

        def ok():
            ref, bad = _np_rule(e, shapes)
            return _not(bad) & e.equal(tuple(out), ref)
        e.check(ok, "result shape differs from NumPy's broadcasting rule (or no ValueError for incompatible shapes)")
        return tuple(out)

    def e2e(model):
        shapes = []
        for o in range(k):
            m = maxnd if (first_full and o == 0) else model.get(f"nd{o}", 0)
            shapes.append(tuple(model[f"s{o}_{a}"] for a in range(m)))
        e2e_elemwise([tuple(_split(n, 2 + o) if n else (0,) for n in s) for o, s in enumerate(shapes)], light=True)

    return Obligation(f"broadcast_shapes[k={k},ndim<={maxnd}{'(first=' + str(maxnd) + ')' if first_full else ''},dim<={DMAX}]", setup, run, patches=_patches, e2e=e2e, e2e_every=3)


# ---------------------------------------------------------------- (2) common_blockdim

def mk_common(k, maxn, DMAX, CH, zero=False):
    def setup(e):
        bds = [_axis_chunks(e, f"{o}", maxn, CH, zero) for o in range(k)]
        D = _tot(bds[0])
        e.assume(lambda: D <= DMAX)
        for b in bds[1:]:
            e.assume(lambda: _tot(b) == D)
        if zero:
            _declare_deg(e, [(b, D) for b in bds])
        return (bds,)

    def run(e, bds):
        _clear()
        D = _tot(bds[0])
        out = AC.common_blockdim(list(bds))
        e.check(isinstance(out, tuple) and len(out) >= 1, f"common_blockdim returned {out!r}: not a valid (non-empty) chunk tuple")
        e.check(lambda: _tot(out) == D, "common block dimension does not add up to the dimension")
        mine = _cums(out)
        theirs = [p for b in bds for p in _cums(b)]
        e.check(lambda: _subset(theirs, mine), "a chunk boundary of an input is not a boundary of the common chunks (rechunking would have to merge)")
        e.check(lambda: _subset(mine, theirs), "the common chunks have a boundary that no input has")
        return tuple(out)

    def e2e(model):
        bds = setup(NativeEngine(model))[0]
        e2e_elemwise([(tuple(b),) for b in bds])

    return Obligation(f"common_blockdim[k={k},chunks<={maxn},dim<={DMAX}{',empty-chunks' if zero else ''}]", setup, run, patches=_patches, e2e=e2e, e2e_every=5)


# ---------------------------------------------------------------- (3) unify_chunks

class RecArray(da.Array):
    """stand-in for an Array: metadata only; rechunk() declares what the real rechunk would declare"""

    def __new__(cls, name, chunks):
        self = object.__new__(cls)
        self.__dict__["_rn"] = name
        self.__dict__["_rc"] = tuple(chunks)
        self.__dict__["requests"] = []
        return self

    name = property(lambda s: s._rn)
    chunks = property(lambda s: s._rc)
    shape = property(lambda s: tuple(_tot(c) for c in s._rc))
    ndim = property(lambda s: len(s._rc))
    numblocks = property(lambda s: tuple(len(c) for c in s._rc))
    dtype = property(lambda s: np.dtype("i8"))

    @property
    def npartitions(self):
        n = 1
        for c in self._rc:
            n *= len(c)
        return n

    def rechunk(self, chunks):
        self.requests.append(chunks)
        if self.ndim > 0 and builtins.all(s == 0 for s in self.shape):     # "don't rechunk if array is empty"
            return self
        new = AC.normalize_chunks(chunks, self.shape, dtype=self.dtype, previous_chunks=self.chunks)
        if len(new) != self.ndim:
            raise ValueError("Provided chunks are not consistent with shape")
        for old, nw in zip(self.chunks, new):
            if _tot(old) != _tot(nw):
                raise ValueError("Chunks must have the same sum")          # _validate_rechunk
        r = RecArray(self._rn + "-rechunked", new)
        return r

    def __repr__(self):
        return f"RecArray({self._rn}, {self._rc})"


def mk_unify(ndims, maxn, DMAX, CH, every=7, zero=False):
    nd = builtins.max(ndims)

    def setup(e):
        ops, D = declare_ops(e, ndims, maxn, DMAX, CH, zero)
        return ops, D

    def run(e, ops, D):
        _clear()
        arrs = [RecArray(f"x{o}", ch) for o, ch in enumerate(ops)]
        inds = [tuple(range(m))[::-1] for m in ndims]          # elemwise's convention: index = axis number from the right
        args = []
        for a, i in zip(arrs, inds):
            args += [a, i]
        with warnings.catch_warnings():
            warnings.simplefilter("ignore")
            chunkss, out = AC.unify_chunks(*args)
        e.check(sorted(chunkss) == list(range(nd)), f"unify_chunks reports indices {sorted(chunkss)}")
        e.check(len(out) == len(arrs), "unify_chunks lost an operand")
        shapes = [a.shape for a in arrs]

        def bdim(k):
            return _np_rule(e, shapes)[0][nd - 1 - k]

        for k in range(nd):
            cc = chunkss[k]
            e.check(isinstance(cc, tuple), "common chunks are not a tuple")
            e.check(lambda: _tot(cc) == bdim(k), "common chunks do not add up to the broadcast dimension")
            have = [o for o, m in enumerate(ndims) if m > k]
            mine = _cums(cc)

            def union_ok():
                Bk = bdim(k)
                r = True
                for o in have:
                    full = arrs[o].shape[ndims[o] - 1 - k] == Bk
                    for p in _cums(ops[o][ndims[o] - 1 - k]):
                        r = r & (_not(full) | _or(p == q for q in mine))
                for q in mine:
                    r = r & _or(_or((arrs[o].shape[ndims[o] - 1 - k] == Bk) & (p == q) for p in _cums(ops[o][ndims[o] - 1 - k])) for o in have)
                return r
            e.check(union_ok, "boundary set of the common chunks is not the union of the full-size operands' boundary sets")
            for o in have:
                ax = ndims[o] - 1 - k
                got = out[o].chunks[ax]
                d = arrs[o].shape[ax]
                e.check(lambda: _tot(got) == d, "an operand changed its shape in unify_chunks")

            # blockwise reads block i of an operand with several blocks and block 0 of a single-block operand; NumPy broadcasts the block
            # sizes: along every index the blocks must be broadcast-compatible and give exactly the declared common chunk sizes
            gots = [out[o].chunks[ndims[o] - 1 - k] for o in have]
            e.check(builtins.all(len(g) in (1, len(cc)) for g in gots), "after unify_chunks an operand has a number of blocks that is neither 1 nor that of the common chunks")

            def blocks_ok():
                r = True
                for i in range(len(cc)):
                    shp, bad = _np_rule(e, [((g[i] if len(g) == len(cc) else g[0]),) for g in gots])
                    r = r & _not(bad) & (shp[0] == cc[i])
                return r
            e.check(blocks_ok, "after unify_chunks the operands' blocks do not line up with the common chunks that the result declares "
                               "(block sizes incompatible, or computed block sizes differ from the declared chunks)")
        return ([chunkss[k] for k in range(nd)], [a.chunks for a in out])

    def e2e(model):
        e2e_elemwise(ops_from_model(model, ndims, maxn, DMAX, CH, zero))

    return Obligation(f"unify_chunks[ndims={list(ndims)},chunks<={maxn},dim<={DMAX}{',empty-chunks' if zero else ''}]", setup, run, patches=_patches, e2e=e2e, e2e_every=every)


# ---------------------------------------------------------------- (4) broadcast_chunks

def mk_bchunks(ndims, maxn, DMAX, CH):
    nd = builtins.max(ndims)

    def setup(e):
        ops, D = declare_ops(e, ndims, maxn, DMAX, CH)
        # optionally one operand axis gets its own (possibly different) chunking of the same dimension
        odd = None
        if e.flag("odd"):
            o = e.choice("odd_o", len(ndims))
            k = e.choice("odd_k", ndims[o]) if ndims[o] > 1 else 0
            if ndims[o] == 0:
                e.assume(False)
            ch = _axis_chunks(e, "odd", maxn, CH)
            e.assume(lambda: _tot(ch) == D[k])
            lst = list(ops[o])
            lst[ndims[o] - 1 - k] = ch
            ops[o] = tuple(lst)
            odd = (o, k)
        return ops, D

    def run(e, ops, D):
        try:
            out = AC.broadcast_chunks(*ops)
        except ValueError:
            out = None

        def per_axis(k):
            return [ops[o][ndims[o] - 1 - k] for o, m in enumerate(ndims) if m > k]

        def disagree():
            r = False
            for k in range(nd):
                ts = per_axis(k)
                for t, u in itertools.combinations(ts, 2):
                    r = r | (_not(_is_one(t)) & _not(_is_one(u)) & _not(_teq(t, u)))
            return r

        if out is None:
            e.check(disagree, "ValueError although all non-(1,) chunk tuples agree")
            return "ValueError"
        e.check(lambda: _not(disagree()), "no ValueError although two operands are chunked differently")
        e.check(isinstance(out, tuple) and len(out) == nd, "wrong number of dimensions")
        for k in range(nd):
            got = out[nd - 1 - k]
            ts = per_axis(k)
            e.check(lambda: _and(_is_one(t) | _teq(got, t) for t in ts) & _or(_teq(got, t) for t in ts),
                    "broadcast chunks are not the operands' (non-broadcast) chunks")
        return out

    def e2e(model):
        ops = setup(NativeEngine(model))[0]
        e2e_elemwise(ops, light=True)

    return Obligation(f"broadcast_chunks[ndims={list(ndims)},chunks<={maxn},dim<={DMAX}]", setup, run, patches=_patches, e2e=e2e, e2e_every=9)


# ---------------------------------------------------------------- (5) blockwise block alignment

def _fn(*a):
    return a


PATTERNS = {
    # name: (out index, [input index or None for a literal])
    "ij,j": ("ij", ["ij", "j"]),
    "ij,ij": ("ij", ["ij", "ij"]),
    "i,i,i": ("i", ["i", "i", "i"]),
    "ij,j,lit": ("ij", ["ij", "j", None]),
    "ij,ij,j": ("ij", ["ij", "ij", "j"]),
    "ij,ji": ("ij", ["ij", "ji"]),
    "ij,lit,ij": ("ij", ["ij", None, "ij"]),
    "ijk,jk,k": ("ijk", ["ijk", "jk", "k"]),
    "ijk,ijk": ("ijk", ["ijk", "ijk"]),
    "j,ij": ("ij", ["j", "ij"]),
}


def mk_blockwise(pname, NB, ints=False):
    oind, iinds = PATTERNS[pname]
    if ints:     # elemwise's integer indices
        sym = {c: i for i, c in enumerate(sorted(set(oind), reverse=True))}
        conv = lambda s: None if s is None else tuple(sym[c] for c in s)
    else:
        conv = lambda s: s
    names = [f"x{o}" for o in range(len(iinds))]

    def setup(e):
        nbs = {}
        for o, ind in enumerate(iinds):
            if ind is not None:
                nbs[names[o]] = tuple(e.int(f"nb{o}_{a}", 1, NB) for a in range(len(ind)))
        return (nbs,)

    def run(e, nbs):
        args = []
        for o, ind in enumerate(iinds):
            args += [names[o] if ind is not None else 100 + o, conv(ind)]

        def clash():
            r = False
            for c in set("".join(i for i in iinds if i)):
                vals = [nbs[names[o]][ind.index(c)] for o, ind in enumerate(iinds) if ind is not None and c in ind]
                for a, b in itertools.combinations(vals, 2):
                    r = r | ((a != 1) & (b != 1) & (a != b))
            return r

        try:
            layer = B.blockwise(_fn, "z", conv(oind), *args, numblocks=dict(nbs))
            dims = layer.dims
            dsk = dict(layer)
        except ValueError:
            e.check(lambda: clash(), "ValueError although the block counts agree up to broadcasting")
            return "ValueError"
        e.check(lambda: _not(clash()), "no ValueError although two inputs have different numbers of blocks along one index")
        # number of output blocks per out index: the non-1 block count (or 1)
        onb = []
        for c in oind:
            vals = [nbs[names[o]][ind.index(c)] for o, ind in enumerate(iinds) if ind is not None and c in ind]
            m = builtins.max(operator.index(v) for v in vals)
            onb.append(m)
        want_keys = {("z",) + idx for idx in itertools.product(*[range(n) for n in onb])}
        e.check(set(dsk) == want_keys, f"output keys {sorted(dsk)} != one per block of the broadcast block grid {onb}")
        e.check(layer.get_output_keys() == want_keys, "get_output_keys differs from the block grid")
        e.check(len(layer) == len(want_keys), "len(layer) differs from the number of blocks")
        deps = layer._cull_dependencies([k[1:] for k in sorted(want_keys)])
        summary = []
        for key in sorted(want_keys):
            t = dsk[key]
            e.check(t.func is _fn and t.key == key, "task does not call the function under its own key")
            e.check(len(t.args) == len(iinds), "task has the wrong number of arguments")
            reads = set()
            for o, ind in enumerate(iinds):
                a = t.args[o]
                if ind is None:
                    e.check(isinstance(a, DataNode) and a.value == 100 + o, "literal argument changed")
                    continue
                e.check(isinstance(a, (TaskRef, Alias)), f"argument {o} is not a block reference: {a!r}")
                k = a.key
                want = [names[o]]
                for pos, c in enumerate(ind):
                    nb = nbs[names[o]][pos]
                    want.append(0 if operator.index(nb) == 1 else key[1 + oind.index(c)])
                e.check(k == tuple(want), f"output block {key} reads {k}, aligned block is {tuple(want)}")
                for pos in range(len(ind)):
                    e.check(0 <= k[1 + pos] < operator.index(nbs[names[o]][pos]), "reads a block that does not exist")
                reads.add(k)
            e.check(set(t.dependencies) == reads, "task dependencies differ from the blocks it reads")
            e.check(set(deps[key]) == reads, "cull dependencies differ from the blocks the task reads")
            summary.append(sorted(reads))
        return summary

    def e2e(model):
        # chunk sizes from the block counts: input axis with nb blocks of sizes 1,2,..; size-1 axes where nb == 1 and the output has more
        onb = {}
        for o, ind in enumerate(iinds):
            if ind is None:
                continue
            for a, c in enumerate(ind):
                onb[c] = builtins.max(onb.get(c, 1), model[f"nb{o}_{a}"])
        for o, ind in enumerate(iinds):
            if ind is None:
                continue
            for a, c in enumerate(ind):
                if model[f"nb{o}_{a}"] not in (1, onb[c]):
                    return
        arrs, nps = [], []
        for o, ind in enumerate(iinds):
            if ind is None:
                arrs.append(100 + o)
                nps.append(100 + o)
                continue
            ch = []
            for a, c in enumerate(ind):
                nb = model[f"nb{o}_{a}"]
                ch.append(tuple(1 + (i % 2) for i in range(onb[c])) if nb == onb[c] else (1,))
            shape = tuple(sum(c) for c in ch)
            x = _mk(shape, o)
            arrs.append(_from(x, tuple(ch)))
            nps.append(x)
        # NumPy reference: transpose every operand to the output's axis order, then broadcast
        def to_out(x, ind):
            if ind is None:
                return x
            order = sorted(range(len(ind)), key=lambda p: oind.index(ind[p]))
            x = np.transpose(x, order)
            present = [c for c in oind if c in ind]
            idx = tuple(slice(None) if c in present else None for c in oind)
            return x[idx]
        want = sum(to_out(x, ind) * (o + 1) for o, (x, ind) in enumerate(zip(nps, iinds)))

        def f(*blocks):
            return sum(to_out(b, ind) * (o + 1) for o, (b, ind) in enumerate(zip(blocks, iinds)))
        args = []
        for a, ind in zip(arrs, iinds):
            args += [a, conv(ind)]
        got = da.blockwise(f, conv(oind), *args, dtype=np.asarray(want).dtype)
        _same(f"da.blockwise {pname}", got, want, f"numblocks={model}")
        if builtins.all(ind is None or ind == oind[-len(ind):] for ind in iinds):
            w2 = nps[0]
            g2 = arrs[0]
            for a, x in zip(arrs[1:], nps[1:]):
                g2, w2 = g2 + a, w2 + x
            _same(f"sum of operands {pname}", g2, w2, f"numblocks={model}")

    return Obligation(f"blockwise[{pname}{',int-indices' if ints else ''},numblocks<={NB}]", setup, run, e2e=e2e, e2e_every=1)


# ---------------------------------------------------------------- (6) broadcast_to

def mk_broadcast_to(m, maxn, DMAX, maxnew, with_chunks):
    """source ndim m; target = <= maxnew new leading axes + one target size per source axis (free: ValueError expected when incompatible)"""

    def setup(e):
        src = tuple(_axis_chunks(e, f"s{a}", maxn, DMAX) for a in range(m))
        for c in src:
            e.assume(lambda: _tot(c) <= DMAX)
        nnew = e.choice("nnew", maxnew + 1)
        tgt = tuple(e.int(f"t{a}", 0, DMAX) for a in range(nnew + m))
        # everything is concrete from here on: real Arrays are built (solver-driven enumeration of the inputs)
        src, tgt = _plain(src), _plain(tgt)
        split = None
        if with_chunks and builtins.all(sum(c) in (1, t) for c, t in zip(src, tgt[nnew:])):
            split = 1 + e.choice("split", 2)        # chunks= argument: None, or the free axes cut into `split` pieces
            split = None if split == 1 else split
        return src, nnew, tgt, split

    def run(e, src, nnew, tgt, split):
        _clear()
        sshape = tuple(sum(c) for c in src)
        x = _mk(sshape, 0)
        dx = da.from_array(x, chunks=src, name="src")
        if dx.chunks != src:
            raise HarnessError("from_array changed the chunks")
        try:
            want = np.broadcast_to(x, tgt)
        except ValueError:
            want = None
        chunks = None
        if split is not None and want is not None:
            # caller-chosen chunks are allowed only along new axes and source axes of size 1
            chunks = []
            for a, n in enumerate(tgt):
                if a >= nnew and sshape[a - nnew] != 1:
                    chunks.append(src[a - nnew])
                else:
                    chunks.append(_split(n, split) if n else (0,))
            chunks = tuple(chunks)
        try:
            r = AC.broadcast_to(dx, tgt, chunks=chunks)
        except ValueError:
            e.check(want is None, f"broadcast_to raised ValueError but NumPy broadcasts {sshape} to {tgt}")
            return "ValueError"
        e.check(want is not None, f"broadcast_to accepted {sshape} -> {tgt}, NumPy raises")
        e.check(r.shape == tgt, "wrong shape")
        e.check(tuple(sum(c) for c in r.chunks) == tgt, "chunks do not add up to the target shape")
        if chunks is not None:
            e.check(r.chunks == chunks, "requested chunks not used")
        if r is not dx:
            layer = r.dask.layers[r.name]
            starts = [_cums(c) for c in r.chunks]
            sst = [_cums(c) for c in src]
            for idx in itertools.product(*[range(len(c)) for c in r.chunks]):
                t = layer[(r.name,) + idx]
                deps = set(t.dependencies) if hasattr(t, "dependencies") else {t[1]}
                e.check(len(deps) == 1, "a broadcast block reads several source blocks")
                sk = next(iter(deps))
                e.check(sk[0] == dx.name and len(sk) == 1 + m, "reads a foreign key")
                for a in range(m):
                    b = sk[1 + a]
                    e.check(0 <= b < len(src[a]), "reads a source block that does not exist")
                    lo, hi = starts[nnew + a][idx[nnew + a]], starts[nnew + a][idx[nnew + a] + 1]
                    if sshape[a] == 1:
                        e.check(b == 0, "size-1 axis must read block 0")
                    else:
                        e.check((sst[a][b], sst[a][b + 1]) == (lo, hi), f"target block {idx} covers [{lo},{hi}) on axis {a} but reads source block covering [{sst[a][b]},{sst[a][b + 1]})")
        got = r.compute(scheduler="sync")
        e.check(got.shape == want.shape and got.dtype == want.dtype and np.array_equal(got, want), "broadcast_to values differ from NumPy")
        return [list(c) for c in r.chunks]

    return Obligation(f"broadcast_to[ndim={m},chunks<={maxn},dim<={DMAX},new<={maxnew}{',chunks=' if with_chunks else ''}]", setup, run)


# ---------------------------------------------------------------- obligations

def obligations(tier):
    obs = []
    if tier == "quick":
        obs.append(mk_bshape(1, 2, 4))
        obs.append(mk_bshape(2, 2, 4))
        obs.append(mk_bshape(3, 2, 4, first_full=True))
        obs.append(mk_common(2, 3, 4, 4))
        obs.append(mk_common(3, 3, 4, 4))
        for ndims, maxn, dmax, ev in (((1, 1), 3, 4, 3), ((2, 1), 2, 3, 7), ((1, 2), 2, 3, 7), ((2, 2), 2, 3, 11), ((1, 1, 1), 3, 3, 7), ((2, 2, 1), 1, 3, 7)):
            obs.append(mk_unify(ndims, maxn, dmax, 4, ev))
        for ndims, maxn, dmax in (((1, 1), 3, 3), ((2, 1), 2, 2), ((1, 1, 1), 2, 2)):
            obs.append(mk_bchunks(ndims, maxn, dmax, 4))
        for p in ("ij,j", "ij,ij", "i,i,i", "ij,j,lit", "ij,ij,j", "ij,ji", "ij,lit,ij", "j,ij"):
            obs.append(mk_blockwise(p, 3))
        obs.append(mk_blockwise("ij,j", 3, ints=True))
        obs.append(mk_blockwise("ij,ij,j", 3, ints=True))
        obs.append(mk_broadcast_to(1, 2, 3, 1, True))
        obs.append(mk_broadcast_to(2, 2, 2, 0, False))
        # empty chunks inside an axis (the property names them)
        obs.append(mk_common(2, 2, 2, 2, zero=True))
        obs.append(mk_unify((1, 1), 2, 2, 2, 1, zero=True))
    else:
        obs.append(mk_bshape(1, 3, 9))
        obs.append(mk_bshape(2, 3, 9))
        obs.append(mk_bshape(3, 2, 9))
        obs.append(mk_common(2, 4, 6, 5))
        obs.append(mk_common(3, 3, 6, 5))
        obs.append(mk_common(2, 3, 6, 3, zero=True))
        obs.append(mk_common(3, 3, 3, 2, zero=True))
        obs.append(mk_unify((1, 1), 3, 4, 3, 3, zero=True))
        obs.append(mk_unify((2, 1), 2, 3, 3, 7, zero=True))
        for ndims, maxn, dmax, ev in (((1, 1), 3, 5, 1), ((2, 1), 3, 4, 7), ((1, 2), 3, 4, 7), ((2, 2), 3, 4, 11), ((1, 1, 1), 3, 5, 7), ((2, 2, 1), 2, 3, 11),
                                      ((2, 1, 2), 2, 3, 11), ((2, 2, 2), 2, 2, 11)):
            obs.append(mk_unify(ndims, maxn, dmax, 5, ev))
        for ndims, maxn, dmax in (((1, 1), 3, 4), ((2, 1), 2, 3), ((2, 2), 2, 2), ((1, 1, 1), 3, 3), ((2, 2, 1), 1, 3)):
            obs.append(mk_bchunks(ndims, maxn, dmax, 4))
        for p in PATTERNS:
            obs.append(mk_blockwise(p, 3 if "k" in p else 4))
        for p in ("ij,j", "ij,ij,j", "ijk,jk,k"):
            obs.append(mk_blockwise(p, 3, ints=True))
        obs.append(mk_broadcast_to(1, 3, 4, 2, True))
        obs.append(mk_broadcast_to(2, 3, 3, 1, True))
        obs.append(mk_broadcast_to(2, 2, 2, 2, False))
    return obs
