"""C32 -- approximate percentiles stay within the data and are monotone; nanpercentile along an axis equals NumPy.

dask.array.percentile.percentile (1-d): one np.percentile summary per chunk at calc_q = [0, *q, 100] (dask.array.percentile._percentile),
merged by dask.array.percentile.merge_percentiles (counts between summary points, argsort by value, cumulative counts, np.interp /
np.searchsorted).  dask.array.percentile.nanpercentile -> dask.array.reductions.nanquantile (rechunk of the reduced axes to one chunk, then
_custom_nanquantile / np.nanquantile per block).

All of the arithmetic is NumPy float code, so the inputs (array length, every chunk size incl. size-0 chunks, every element value, the q
vector, the method) are enumerated by the solver and pushed through the PUBLIC API; merge_percentiles is additionally driven directly with
hand-made summaries.  The oracle is the property itself (bounds, monotonicity, q=0 / q=100, a single chunk == np.percentile) and
np.nanpercentile on the unchunked array.
"""
from __future__ import annotations

import builtins
import importlib
import os
import warnings

import numpy as np

from symx.core import Violation, HarnessError
from symx.run import Obligation

import dask
import dask.array as da
import dask.array.reductions as R

P = importlib.import_module("dask.array.percentile")      # (dask.array.percentile the attribute is the function)

PROPERTY = "C32"
LEVEL = "other"
BUDGET = {"quick": 400, "thorough": 2400}      # caps, not targets: quick ~75 s, thorough ~9.5 min of wall with 5 jobs on a quiet machine
CHUNK_PATHS = 100
EXPLANATION = (
    "Solver-driven enumeration through dask's public API, every path replayed natively. "
    "(1) percentile[...]: for EVERY 1-d array of length 1..N over a small value table (duplicates; +-inf for the methods that pick data points), EVERY "
    "chunking into <= K chunks (size-0 chunks anywhere), every q specification of a table (int / float lists, scalars, repeated values, with and "
    "without 0 and 100, dyadic and non-dyadic fractions) and every method (linear, lower, higher, midpoint, nearest), da.percentile(x, q, method=m) is "
    "computed with the synchronous scheduler and checked against the property: the declared shape equals the computed one ((len(q),) or () for a "
    "scalar q); no NaN; every value lies in [min(x), max(x)]; the values are non-decreasing along the (sorted) q; q == 100 gives max(x) and q == 0 "
    "gives min(x); when only one chunk is non-empty the result equals np.percentile(x, q, method=m); the declared dtype equals the computed one. "
    "(2) merge_percentiles[...]: the merge step called directly with 1..3 hand-made summaries (per summary: a q grid from a table, incl. grids that "
    "differ between summaries and grids that do not span 0..100, a non-decreasing value vector, a count N; N = 0 summaries are dropped) and the same "
    "clauses with min / max taken over the summaries. "
    "(3) nanpercentile[...]: for every chunking (<= K chunks per axis, size-0 chunks included) of small 1-d / 2-d / 3-d arrays with NaN patterns (incl. "
    "all-NaN slices), every axis, q in a table (scalar, list, repeated) and all five methods (+ keepdims), da.nanpercentile == np.nanpercentile on the "
    "unchunked array: shape (declared and computed), dtype, values within 1e-12 (NaN == NaN). "
    "Clauses that dask violates on the unchanged tree are kept, but sit in named regions (OPEN_REGIONS; model variable <name> == 1) and run last on the path.")
ASSUMPTIONS = [
    "percentile: the array is NaN-free, 1-d and has at least one element; q is sorted in non-decreasing order with 0 <= q <= 100 (a list, an ndarray or a scalar)",
    "+-inf data only with the methods lower / higher / nearest (np.percentile itself returns NaN when it interpolates next to an infinity: "
    "np.percentile([1, inf], 0) is nan), for percentile and nanpercentile alike",
    "'up to floating-point rounding': q values that are multiples of 1/8 make every count q * N and their sums exact in binary64, there q=0 / q=100 / the "
    "single-chunk comparison are asserted EXACTLY; for other q (33.3, 2.21, ...) method='linear' is asserted within 1e-9 * max(1, max|x|), methods "
    "higher / nearest exactly, and lower / midpoint belong to the region inexact_q_rounding",
    "a single non-empty chunk == np.percentile(x, q, method): this is the reading of 'approximate' for one chunk (the summary is then exact); it is not "
    "asserted for several non-empty chunks",
    "merge_percentiles: each summary has an ascending q grid and a non-decreasing value vector (what a percentile summary is); q=0 -> min is asserted only "
    "when every kept summary's grid starts at 0, q=100 -> max only when every grid ends at 100; at least one summary has N > 0",
    "nanpercentile reference: np.nanpercentile(x, q, axis=axis, method=method, keepdims=keepdims) (all-NaN slices give NaN; NumPy's RuntimeWarning is ignored); "
    "values are data points or interpolations of small integers: tolerance 1e-12",
    "np.argsort (default kind) inside merge_percentiles is deterministic for a given input on a given CPU (it is not stable on AVX-512 / AVX2 builds of "
    "NumPy >= 2.0, which is what makes the region lower_wraparound reachable through da.percentile)",
]
STUBS = ["none: dask runs unmodified through its public functions (scheduler='sync')"]
ENUM = [
    "EVERYTHING is concretised (all inputs pass through NumPy): array length, number of chunks and every chunk size, every element value (index into a "
    "value table) or the NaN / value pattern, the q specification (index into a table), the method, the axis, the shape; summaries of the direct "
    "merge_percentiles obligation: number of summaries, grid, base value, step pattern and N per summary, final q, method",
    "nanpercentile: q specifications, methods and keepdims are Python loops inside a path (no region depends on them)",
]
OUTSIDE = [
    "how CLOSE the approximate percentile is to the true one for several chunks (the property claims bounds and monotonicity only)",
    "internal_method='tdigest' (crick is not installed), the deprecated interpolation= / method=<internal method> spellings, unsorted q, q outside [0, 100]",
    "NaN data in percentile, +-inf data with interpolating methods, datetime / categorical / non-numeric data, arrays of length 0 (dask raises ValueError "
    "'No non-trivial arrays found'), unknown chunk sizes",
    "da.percentile on arrays of ndim >= 2 (da.quantile), nanpercentile(axis=None) with several blocks (documented NotImplementedError), weights=, the numbagg backend",
    "arrays / chunk counts / q vectors beyond the bounds of the tier; summaries with more than 5 grid points; schedulers other than 'sync'",
    "the tie order chosen by NumPy's unstable argsort on other CPUs (the in-region results may differ there; everything outside the regions does not depend on it)",
]
BOUNDS = {
    "quick": dict(percentile="float data over {0,1,3}: length 1..2 with <= 3 chunks and length 3 with <= 2 chunks (EVERY chunking, size-0 chunks anywhere, EVERY value assignment), "
                             "q in {[0,100], [0,25,25,75,100], [10,90], [0.,33.3,100.]} x 5 methods; length 3 in exactly 3 chunks, q in {50, [0.,12.5,100.]}; length 4 over {0,1} with "
                             "<= 2 chunks, q in {[0,50,100], array[0,0,100,100]}; int64 over {0,1,3}: length 1..3, <= 2 chunks, q in {[0,25,25,75,100], 0}; {-inf,0,inf}: length 1..3, "
                             "<= 2 chunks, methods lower/higher/nearest, 2 q; long arrays (arange(n) and an unsorted pattern with duplicates), n in {5,7,10,14}, chunked as one chunk / "
                             "two halves / (n//3, 0, rest), 4 non-dyadic q vectors x 5 methods",
                  merge="1..2 summaries; grids {[0,50,100], [0,0,50,100,100], [20,60]}; base value in {0,1}; 2 step patterns (first) / 1 (second); N in {1,3} (first) / {0,2} (second); "
                        "final q in {[0,10,35,50,50,80,100], [5,95]} x 5 methods",
                  nanpercentile="shapes (3,) (2,2) (1,3) (2,3), <= 2 chunks per axis (every chunking), 3 NaN/value patterns, every axis (-1, 0, .., ndim-1); (2,2,2) with <= 2 chunks on the "
                                "last two axes, 2 patterns; q in {50, [0,25,100], [30.,30.]} x 5 methods, keepdims for linear / lower; +-inf patterns with lower/higher/nearest on (3,) (2,2)"),
    "thorough": dict(percentile="float over {0,1,3}: length 1..3 with <= 3 chunks x 7 q specifications; length 4 with <= 3 chunks x 3 q; length 1..3 with <= 2 chunks x the other 8 q; "
                                "length 5 over {0,1} with <= 2 chunks; length 2..3 in exactly 4 chunks; 4 values {0,1,2,5} length 3; int64 and +-inf: length 1..3, <= 3 chunks, 3 q; "
                                "long arrays n = 5..30 (3 layouts, 2 patterns, 8 q) and int64 long arrays n in {5,8,13,21}",
                     merge="2 summaries over 5 grids (incl. [0,25,75,100], [0,100]), bases {0,1,4}, up to 3 step patterns, N in {1,2,3} / 0, up to 5 final q vectors; 3 summaries over reduced tables",
                     nanpercentile="additionally shapes (4,) (3,2) (2,4) (3,3), tuple axis (0,1), 4 patterns, 4..6 q specifications; <= 3 chunks per axis for (3,) (2,2) (2,3); EVERY value "
                                   "assignment over {0,1,nan} for (3,) (2,2); (2,2,2) with <= 2 chunks on every axis; int64 data"),
}

# ----------------------------------------------------------------------------------------------------------------------------------
# Findings on the unchanged tree.  Each region is named by a model variable (== 1 inside the region); the assertion that fails there runs LAST on
# the path, after everything that is asserted outside the regions.  With VERIF_C32_SKIP_OPEN=1 the in-region assertions of the regions listed
# here are skipped (default: asserted).
# ----------------------------------------------------------------------------------------------------------------------------------
OPEN_REGIONS = {
    "q0_not_min": (
        "da.percentile with q containing 0, method in {linear, higher, midpoint} and at least two non-empty chunks: the value returned for q=0 is not "
        "min(x) but (up to NumPy's tie order) the LARGEST of the per-chunk minima (midpoint: its mean with the minimum). merge_percentiles gives every "
        "chunk's q=0 entry a count of 0, so combined_q starts with a run of zeros; np.interp(0, combined_q, vals) returns the value at the END of that run "
        "and `right = searchsorted(combined_q, 0, 'right') - 1` points at its end as well. "
        "Reproduce: da.percentile(da.from_array(np.array([0., 2., 1.]), chunks=2), 0).compute() -> 1.0 (min is 0.0); same with method='higher'; 'midpoint' -> 0.5."),
    "lower_wraparound": (
        "merge_percentiles with method in {lower, midpoint}: when the desired cumulative count lies below combined_q[0], `right = searchsorted(..., 'right') - 1` "
        "is -1 and `lower = np.minimum(left, right)` = -1 indexes the LAST (largest) summary value: a low percentile returns the maximum (midpoint: (max + min) / 2), "
        "so q=0 does not give the minimum and the result is not monotone in q. Deterministic through merge_percentiles whenever a summary grid does not start at 0: "
        "merge_percentiles([5], [[20, 40, 60, 80]] * 2, [np.array([1, 2, 3, 4]), np.array([10, 11, 12, 13])], 'lower', [100, 100]) -> [13]. Through da.percentile "
        "(grids always start at 0) it needs a positive-count entry to sort before the zero-count entries of the same value, which NumPy's default (unstable, "
        "AVX-512/AVX2) argsort does: da.percentile(da.from_array(np.array([1., 2., 0.]), chunks=1), [0, 50, 100], method='lower').compute() -> [2., 1., 2.]."),
    "inexact_q_rounding": (
        "q values whose products q * N are not exact in binary64 (33.3, 2.21, ...), methods lower / higher / midpoint: merge_percentiles looks the desired count "
        "q * sum(Ns) up in cumsum(diff(calc_q) * N) with searchsorted, i.e. it relies on EXACT float equality; one ulp of difference selects the neighbouring summary "
        "point. Then q=100 does not give the maximum (lower, midpoint) and a single chunk does not reproduce np.percentile. "
        "Reproduce: da.percentile(da.from_array(np.arange(5.), chunks=5), [2.21, 100.0], method='lower').compute() -> [0., 0.] (q=100 must give 4.; np.percentile gives [0., 4.])."),
    "int_dtype_declared": (
        "da.percentile of an integer array with method in {lower, higher, nearest}: the lazy result declares float64 (meta is computed as int / 0.5) but the computed "
        "array is int64 (np.percentile keeps the integer dtype for methods that pick data points). "
        "Reproduce: r = da.percentile(da.from_array(np.array([0, 2, 1]), chunks=2), [0, 100], method='lower'); r.dtype -> float64, r.compute().dtype -> int64."),
    "nanq_empty_block": (
        "da.nanpercentile / da.nanquantile when a NON-reduced axis has a size-0 chunk and the reduced axes are single-chunk (no rechunk): the empty block is handed "
        "to np.nanquantile with axis as a LIST (NumPy documents int / tuple; its empty-input path fails with TypeError: 'list' object cannot be interpreted as an "
        "integer) or, for method='linear' on the last axis of a >= 3-d block, to _custom_nanquantile whose _span_indexers divides by a.shape[i] == 0 "
        "(ZeroDivisionError). Reproduce: da.nanpercentile(da.from_array(np.ones((2, 3)), chunks=((2,), (3, 0))), 50, axis=0).compute() -> TypeError."),
}
SKIP_OPEN = os.environ.get("VERIF_C32_SKIP_OPEN", "0") == "1"

METHODS = ("linear", "lower", "higher", "midpoint", "nearest")
PICKING = ("lower", "higher", "nearest")          # methods that return data points (no arithmetic on the values)


def functions():
    return [P.percentile, P._percentile, P.merge_percentiles, P.nanpercentile, R.nanquantile, R._custom_nanquantile, R._span_indexers, R._get_quantile_chunks]


# ---------------------------------------------------------------------------------------------------------------------------------- inputs

def chunking(e, tag, n, K):
    """solver-enumerated chunking of an axis of length n (plain int): 1..K chunks with sizes >= 0 adding up to n (every composition once)"""
    k = 1 + e.choice(f"k{tag}", K)
    out, left = [], n
    for i in range(k - 1):
        c = e.choice(f"c{tag}_{i}", left + 1)
        out.append(c)
        left -= c
    out.append(left)
    return tuple(out)


def values(e, tag, n, table):
    return [table[e.choice(f"{tag}{i}", len(table))] for i in range(n)]


def region(e, name, value):
    """model variable naming the region of a finding: name == 1 iff the path's concrete inputs are inside the region"""
    f = e.int(name, 0, 1)
    v = 1 if value else 0
    e.assume(lambda: f == v)
    return v


class Deferred:
    """in-region assertions: collected while the path runs, asserted LAST (after everything outside the regions)"""

    def __init__(self, e):
        self.e = e
        self.items = []

    def check(self, regions, cond, msg):
        """regions: names of the regions this clause belongs to on this path (empty: assert at once)"""
        regions = [r for r in regions if r]
        if not regions:
            self.e.check(cond() if callable(cond) else cond, msg() if callable(msg) else msg)
        else:
            self.items.append((regions, cond, msg))

    def finish(self):
        for regions, cond, msg in self.items:
            if SKIP_OPEN and builtins.any(r in OPEN_REGIONS for r in regions):
                continue
            self.e.check(cond() if callable(cond) else cond, (msg() if callable(msg) else msg) + f" [region {'+'.join(regions)}]")


def darr(x, chunks):
    d = da.from_array(np.asarray(x), chunks=chunks)
    if d.chunks != tuple(tuple(c) for c in chunks):
        raise HarnessError(f"from_array changed the chunks {chunks} -> {d.chunks}")
    return d


def attempt(fn):
    try:
        return "ok", fn()
    except (Violation, HarnessError):
        raise
    except Exception as ex:
        return "raised", type(ex).__name__ + ": " + str(ex)[:160]


def quiet(fn):
    def run(e, *a):
        with warnings.catch_warnings():
            warnings.simplefilter("ignore")
            with np.errstate(all="ignore"):
                return fn(e, *a)
    return run


def ob(name, setup, run):
    return Obligation(name, setup, quiet(run))


# ---------------------------------------------------------------------------------------------------------------------------------- q tables

# (label, q as handed to dask, exact?)   exact: every q is a multiple of 1/8, so q * N and the cumulative counts are exact in binary64
Q_SPECS = (
    ("[0,100]", [0, 100], True),
    ("[0,50,100]", [0, 50, 100], True),
    ("[0,25,25,75,100]", [0, 25, 25, 75, 100], True),
    ("50", 50, True),
    ("[10,90]", [10, 90], True),
    ("[0.,12.5,100.]", [0.0, 12.5, 100.0], True),
    ("[0.,33.3,100.]", [0.0, 33.3, 100.0], False),
    ("[2.21,100.]", [2.21, 100.0], False),
    ("0", 0, True),
    ("array[0,0,100,100]", np.array([0, 0, 100, 100]), True),
    # thorough
    ("100", 100, True),
    ("[100]", [100], True),
    ("[37.5,62.5]", [37.5, 62.5], True),
    ("[0,2.21,100.]", [0, 2.21, 100.0], False),
    ("[41.54,41.96,98.77]", [41.54, 41.96, 98.77], False),
    ("[0,1,99,100]", [0, 1, 99, 100], True),
)
Q_SMALL = (1, 2, 6, 9)            # a sub-table for the secondary obligations: [0,50,100], [0,25,25,75,100], inexact, array with repeated 0 / 100


def q_vector(q):
    return np.atleast_1d(np.asarray(q, dtype="f8"))


def _le(a, b):
    return builtins.all(bool(u <= v) for u, v in zip(a, b))


def property_clauses(e, dfr, r, qv, lo, hi, exact, method, multi, wrap, q0_ok, q100_ok, info, scale):
    """the three clauses of the property on the result vector r (floats) for the sorted q vector qv.
    multi: >= 2 non-empty chunks / summaries; wrap: the path is inside lower_wraparound; q0_ok / q100_ok: the q=0 / q=100 clauses apply"""
    tol = 1e-9 * max(1.0, scale)
    e.check(not np.isnan(r).any(), f"NaN in the result {r.tolist()} [{info}]")
    e.check(builtins.all(bool(lo <= v <= hi) for v in r), f"result {r.tolist()} leaves [min, max] = [{lo}, {hi}] [{info}]")
    # q = 100 -> max
    if q100_ok:
        idx = [i for i, qq in enumerate(qv) if qq == 100]
        if exact or method in ("higher", "nearest"):
            cond = builtins.all(r[i] == hi for i in idx)
        elif method == "linear":
            cond = builtins.all(abs(r[i] - hi) <= tol for i in idx)
        else:
            cond = builtins.all(r[i] == hi for i in idx)
        inreg = (not exact) and method in ("lower", "midpoint") and bool(idx)
        dfr.check(["inexact_q_rounding" if inreg else None], cond, f"q=100 does not give the maximum {hi}: {r.tolist()} [{info}]")
    # monotone in q
    dfr.check(["lower_wraparound" if wrap else None], _le(r[:-1], r[1:]), f"result {r.tolist()} is not non-decreasing in q [{info}]")
    # q = 0 -> min
    if q0_ok:
        idx = [i for i, qq in enumerate(qv) if qq == 0]
        in_q0 = multi and bool(idx) and method in ("linear", "higher", "midpoint")
        dfr.check(["q0_not_min" if in_q0 else None, "lower_wraparound" if (wrap and idx) else None],
                  builtins.all(r[i] == lo for i in idx), f"q=0 does not give the minimum {lo}: {r.tolist()} [{info}]")


# ---------------------------------------------------------------------------------------------------------------------------------- (1) da.percentile

def compositions(n, k):
    """every way to write n as an ordered sum of k sizes >= 0"""
    if k == 1:
        return [(n,)]
    return [(c,) + r for c in range(n + 1) for r in compositions(n - c, k - 1)]


def layouts(spec):
    """spec: (n, kmin, kmax) triples -> flat list of (n, chunking): every chunking of n elements into kmin..kmax chunks (size-0 chunks anywhere)"""
    return [(n, ch) for n, kmin, kmax in spec for k in range(kmin, kmax + 1) for ch in compositions(n, k)]


def digits(i, base, n):
    out = []
    for _ in range(n):
        out.append(i % base)
        i //= base
    return out


LONG_PATTERNS = (lambda n: list(range(n)), lambda n: [(i * 5) % 8 for i in range(n)])       # distinct ascending values / unsorted values with duplicates


def halves(ns):
    """layouts of the long-array obligations: one chunk, two halves, three chunks with an empty one in the middle"""
    return [(n, ch) for n in ns for ch in ((n,), (n // 2, n - n // 2), (n // 3, 0, n - n // 3))]


def mk_percentile(tag, table, dtype, spec, qsel, methods, lay=None):
    """spec: (n, kmin, kmax) triples.  Model variables: layout (index into layouts(spec): length and chunking), x (the element values as the base-len(table)
    digits of one number: few solver variables per path), q (index into Q_SPECS), method"""
    LAY = lay if lay is not None else layouts(spec)

    def setup(e):
        n, ch = LAY[e.choice("layout", len(LAY))]
        if table is None:       # fixed value patterns (longer arrays)
            x = np.array(LONG_PATTERNS[e.choice("x", len(LONG_PATTERNS))](n), dtype=dtype)
        else:
            x = np.array([table[dg] for dg in digits(e.choice("x", len(table) ** n), len(table), n)], dtype=dtype)
        qi = e.pick("q", qsel)
        method = e.pick("method", methods)
        label, q, exact = Q_SPECS[qi]
        qv = q_vector(q)
        multi = sum(1 for c in ch if c > 0) >= 2
        has0, has100 = bool((qv == 0).any()), bool((qv == 100).any())
        region(e, "q0_not_min", multi and has0 and method in ("linear", "higher", "midpoint"))
        wrap = region(e, "lower_wraparound", multi and method in ("lower", "midpoint"))
        region(e, "inexact_q_rounding", (not exact) and ((method in ("lower", "midpoint") and has100) or (not multi and method in ("lower", "higher", "midpoint"))))
        region(e, "int_dtype_declared", np.dtype(dtype).kind in "iu" and method in PICKING)
        return x, ch, qi, method, multi, wrap

    def run(e, x, ch, qi, method, multi, wrap):
        label, q, exact = Q_SPECS[qi]
        qv = q_vector(q)
        info = f"x={x.tolist()} chunks={ch} q={label} method={method}"
        dfr = Deferred(e)
        d = darr(x, (ch,))
        st, lazy = attempt(lambda: da.percentile(d, q, method=method))
        e.check(st == "ok", f"da.percentile raises {lazy} [{info}]")
        st, got = attempt(lambda: np.asarray(lazy.compute(scheduler="sync")))
        e.check(st == "ok", f"da.percentile(...).compute() raises {got} [{info}]")
        want_shape = () if np.ndim(q) == 0 else (len(qv),)
        e.check(tuple(lazy.shape) == want_shape, f"declared shape {lazy.shape}, expected {want_shape} [{info}]")
        e.check(got.shape == want_shape, f"computed shape {got.shape}, expected {want_shape} [{info}]")
        r = got.reshape(-1).astype("f8")
        lo, hi = float(x.min()), float(x.max())
        finite = x[np.isfinite(x)] if x.dtype.kind == "f" else x
        scale = float(np.abs(finite).max()) if len(finite) else 1.0
        property_clauses(e, dfr, r, qv, lo, hi, exact, method, multi, wrap, True, True, info, scale)
        if not multi:
            want = np.atleast_1d(np.percentile(x, q, method=method)).astype("f8")
            if exact or method == "nearest":
                cond = np.array_equal(r, want)
            elif method == "linear":
                cond = bool(np.allclose(r, want, rtol=0, atol=1e-9 * max(1.0, scale)))
            else:
                cond = np.array_equal(r, want)
            inreg = (not exact) and method in ("lower", "higher", "midpoint")
            dfr.check(["inexact_q_rounding" if inreg else None], cond,
                      f"one non-empty chunk: dask gives {r.tolist()}, np.percentile gives {want.tolist()} [{info}]")
        inreg = x.dtype.kind in "iu" and method in PICKING
        dfr.check(["int_dtype_declared" if inreg else None], lazy.dtype == got.dtype, f"declared dtype {lazy.dtype}, computed dtype {got.dtype} [{info}]")
        dfr.finish()
        return repr(r.tolist())

    dom = f"(n,kmin,kmax)={list(spec)}" if lay is None else f"n={sorted({n for n, _ in lay})}"
    return ob(f"percentile[{tag},{dom},q={len(qsel)},methods={len(methods)}]", setup, run)


# ---------------------------------------------------------------------------------------------------------------------------------- (2) merge_percentiles

GRIDS = ((0, 50, 100), (0, 0, 50, 100, 100), (0, 25, 75, 100), (20, 60), (0, 100))
STEPS = ((1, 1, 1, 1), (0, 2, 0, 2), (0, 0, 0, 0))
FINALQ = (
    ("[0,10,35,50,50,80,100]", (0, 10, 35, 50, 50, 80, 100), True),
    ("[5,95]", (5, 95), True),
    ("[0.,33.3,66.6,100.]", (0.0, 33.3, 66.6, 100.0), False),
    ("[0,100]", (0, 100), True),
    ("[0.,12.5,87.5,100.]", (0.0, 12.5, 87.5, 100.0), True),
)


def summaries(grids, bases, nsteps, Ns):
    out = []
    for gi in grids:
        g = GRIDS[gi]
        for b in bases:
            for st in STEPS[:nsteps]:
                vals = [b]
                for j in range(len(g) - 1):
                    vals.append(vals[-1] + (st[j] if g[j + 1] > g[j] else 0))      # (equal grid points carry equal values)
                for N in Ns:
                    if (g, tuple(vals), N) not in out:
                        out.append((g, tuple(vals), N))
    return out


def mk_merge(KS, first, later, nfinal):
    """first / later: (grids, bases, nsteps, Ns) for the first / the other summaries.  Model variables: k (number of summaries - 1), s<i> (index into the
    table of summaries), finalq, method"""
    S0, S1 = summaries(*first), summaries(*later)

    def setup(e):
        k = 1 + e.choice("k", KS)
        summ = []
        for i in range(k):
            tab = S0 if i == 0 else S1
            summ.append(tab[e.choice(f"s{i}", len(tab))])
        fi = e.choice("finalq", nfinal)
        method = e.pick("method", METHODS)
        kept = [s for s in summ if s[2] > 0]
        multi = len(kept) >= 2
        starts0 = builtins.all(s[0][0] == 0 for s in kept)
        qv = np.array(FINALQ[fi][1], dtype="f8")
        exact = FINALQ[fi][2]
        has0, has100 = bool((qv == 0).any()), bool((qv == 100).any())
        ends100 = builtins.all(s[0][-1] == 100 for s in kept)
        region(e, "q0_not_min", multi and has0 and starts0 and method in ("linear", "higher", "midpoint"))
        wrap = region(e, "lower_wraparound", (multi or not starts0) and method in ("lower", "midpoint"))
        region(e, "inexact_q_rounding", (not exact) and method in ("lower", "midpoint") and has100 and ends100)
        return summ, fi, method, multi, wrap

    def run(e, summ, fi, method, multi, wrap):
        label, fq, exact = FINALQ[fi]
        info = f"summaries (grid, values, N)={summ} finalq={label} method={method}"
        dfr = Deferred(e)
        finalq = np.array(fq)
        qs = [np.array(s[0], dtype=finalq.dtype) for s in summ]
        vals = [np.array(s[1], dtype="f8") for s in summ]
        Ns = [s[2] for s in summ]
        st, got = attempt(lambda: np.asarray(P.merge_percentiles(finalq, qs, vals, method, Ns)))
        e.check(st == "ok", f"merge_percentiles raises {got} [{info}]")
        e.check(got.shape == (len(fq),), f"result shape {got.shape}, expected {(len(fq),)} [{info}]")
        r = got.astype("f8")
        kept = [s for s in summ if s[2] > 0]
        lo = float(min(s[1][0] for s in kept))
        hi = float(max(s[1][-1] for s in kept))
        q0_ok = builtins.all(s[0][0] == 0 for s in kept)
        q100_ok = builtins.all(s[0][-1] == 100 for s in kept)
        property_clauses(e, dfr, r, np.array(fq, dtype="f8"), lo, hi, exact, method, multi, wrap, q0_ok, q100_ok, info, max(abs(lo), abs(hi)))
        dfr.finish()
        return repr(r.tolist())

    return ob(f"merge_percentiles[summaries<={KS},first={len(S0)},later={len(S1)},finalq={nfinal}]", setup, run)


# ---------------------------------------------------------------------------------------------------------------------------------- (3) da.nanpercentile

NAN = float("nan")
INF = float("inf")
# value patterns (cycled over the elements in C order): NaN in different places, an all-NaN slice for small shapes, duplicates
NAN_PATTERNS = (
    (0.0, NAN, 1.0, 2.0, 2.0, NAN, 5.0, 1.0, 0.0, NAN, 3.0, 3.0),
    (NAN, NAN, 1.0, NAN, NAN, 0.0, NAN, 2.0, NAN),
    (2.0, 1.0, 0.0, 5.0, 1.0, 1.0, 0.0, 3.0, 2.0, 4.0, 0.0, 1.0),
    (1.0, NAN, NAN, NAN, 0.0, 1.0, NAN, 2.0, 2.0, NAN, NAN, NAN),
)
INF_PATTERNS = (
    (0.0, INF, -INF, NAN, INF, 1.0, -INF, -INF, 2.0),
    (INF, INF, NAN, -INF, 0.0, INF, NAN, NAN, 1.0),
)
# infinities next to finite values with the INTERPOLATING method: NumPy's own answer (finite, inf or nan) is the oracle
INF_LINEAR_PATTERNS = (
    # (infinities only at the extremes and q = 50: the median's two neighbours are finite, so NumPy's lerp does not produce its inf * 0 = nan artefact)
    (1.0, 2.0, 3.0, 4.0, INF, -INF, 1.0, NAN, 2.0, INF),
    (-INF, 0.0, 2.0, 3.0, INF, INF, 1.0, 1.0, 5.0, -INF),
)
NQ = ((50, "50"), ([0, 25, 100], "[0,25,100]"), ([30.0, 30.0], "[30.,30.]"), (100, "100"), ([12.5], "[12.5]"), (np.array([0.0, 62.5]), "array[0.,62.5]"))


def mk_nanpercentile(tag, shapes, K, npat=None, table=None, methods=METHODS, nq=3, patterns=NAN_PATTERNS, dtype="f8", tuple_axes=False, kaxes=None):
    """npat: number of fixed patterns; table: instead, every assignment of table values to the elements; kaxes: per-axis chunk-count bound (default K)"""
    def setup(e):
        shape = e.pick("shape", shapes)
        chunks = tuple(chunking(e, f"a{a}", dd, (kaxes[a] if kaxes else K)) for a, dd in enumerate(shape))
        size = int(np.prod(shape))
        if table is not None:
            vals = values(e, "x", size, table)
        else:
            pat = patterns[e.choice("pattern", npat)]
            vals = [pat[i % len(pat)] for i in range(size)]
        x = np.array(vals, dtype=dtype).reshape(shape)
        axes = list(range(-1, len(shape)))
        if tuple_axes and len(shape) >= 2:
            axes.append((0, 1))
        axis = e.pick("axis", axes)
        red = {a % len(shape) for a in (axis if isinstance(axis, tuple) else (axis,))}
        no_rechunk = builtins.all(len(chunks[a]) == 1 for a in red)
        empty_kept = builtins.any(c == 0 for a in range(len(shape)) if a not in red for c in chunks[a])
        inreg = region(e, "nanq_empty_block", no_rechunk and empty_kept)
        return x, chunks, axis, inreg

    def run(e, x, chunks, axis, inreg):
        if inreg and SKIP_OPEN and "nanq_empty_block" in OPEN_REGIONS:
            return "skipped (open region nanq_empty_block)"
        d = darr(x, chunks)
        items = []
        for q, qlabel in NQ[:nq]:
            for method in methods:
                for keepdims in ((False, True) if method in ("linear", "lower") else (False,)):
                    info = f"x={x.tolist()} chunks={chunks} axis={axis} q={qlabel} method={method} keepdims={keepdims}"
                    want = np.asarray(np.nanpercentile(x, q, axis=axis, method=method, keepdims=keepdims))
                    st, lazy = attempt(lambda: da.nanpercentile(d, q, axis=axis, method=method, keepdims=keepdims))
                    items.append([info, want, st, lazy])
        good = [it for it in items if it[2] == "ok"]
        st, res = attempt(lambda: dask.compute(*[it[3] for it in good], scheduler="sync"))
        if st == "ok":
            for it, v in zip(good, res):
                it.append(("ok", np.asarray(v)))
        else:
            for it in good:
                it.append(attempt(lambda: np.asarray(it[3].compute(scheduler="sync"))))
        suffix = " [region nanq_empty_block]" if inreg else ""
        out = []
        for it in items:
            info, want, st, lazy = it[:4]
            e.check(st == "ok", f"da.nanpercentile raises {lazy} [{info}]{suffix}")
            cst, got = it[4]
            e.check(cst == "ok", f"da.nanpercentile(...).compute() raises {got}, NumPy gives {want.tolist()} [{info}]{suffix}")
            e.check(tuple(lazy.shape) == want.shape, f"declared shape {lazy.shape}, NumPy's result has shape {want.shape} [{info}]{suffix}")
            e.check(got.shape == want.shape, f"computed shape {got.shape}, NumPy's result has shape {want.shape} [{info}]{suffix}")
            e.check(bool(np.allclose(got, want, rtol=1e-12, atol=1e-12, equal_nan=True)) and np.array_equal(np.isinf(got), np.isinf(want)),
                    f"dask gives {got.tolist()}, np.nanpercentile gives {want.tolist()} [{info}]{suffix}")
            e.check(lazy.dtype == got.dtype and got.dtype == want.dtype, f"dtype: declared {lazy.dtype}, computed {got.dtype}, NumPy {want.dtype} [{info}]{suffix}")
            out.append(repr(got.tolist()))
        return out

    dom = f"all values of {list(table)}" if table is not None else f"{npat} patterns"
    return ob(f"nanpercentile[{tag},shapes={list(shapes)},chunks<={kaxes or K},{dom},methods={len(methods)},q={nq}]", setup, run)


# ---------------------------------------------------------------------------------------------------------------------------------- obligations

def obligations(tier):
    F3 = (0.0, 1.0, 3.0)
    I3 = (0, 1, 3)
    INF3 = (-INF, 0.0, INF)
    if tier == "quick":
        return [
            mk_percentile("float", F3, "f8", [(1, 1, 3), (2, 1, 3), (3, 1, 2)], (0, 2, 4, 6), METHODS),
            mk_percentile("float,3 chunks", F3, "f8", [(3, 3, 3)], (3, 5), METHODS),
            mk_percentile("float,n=4", (0.0, 1.0), "f8", [(4, 1, 2)], (1, 9), METHODS),
            mk_percentile("int", I3, "i8", [(1, 1, 2), (2, 1, 2), (3, 1, 2)], (2, 8), METHODS),
            mk_percentile("inf", INF3, "f8", [(1, 1, 2), (2, 1, 2), (3, 1, 2)], (1, 9), PICKING),
            mk_percentile("long", None, "f8", None, (6, 7, 13, 14), METHODS, lay=halves((5, 7, 10, 14))),
            mk_merge(2, ((0, 1, 3), (0, 1), 2, (1, 3)), ((0, 1, 3), (0, 1), 1, (0, 2)), 2),
            mk_nanpercentile("nan", [(3,), (2, 2), (1, 3), (2, 3)], 2, npat=3),
            mk_nanpercentile("nan3d", [(2, 2, 2)], 2, npat=2, kaxes=(1, 2, 2)),
            mk_nanpercentile("inf", [(3,), (2, 2)], 2, npat=2, methods=PICKING, patterns=INF_PATTERNS),
            mk_nanpercentile("inf,linear", [(2, 5)], 2, npat=2, methods=("linear",), patterns=INF_LINEAR_PATTERNS, nq=1),
        ]
    return [
        mk_percentile("float", F3, "f8", [(1, 1, 3), (2, 1, 3), (3, 1, 3)], (0, 1, 2, 4, 6, 7, 9), METHODS),
        mk_percentile("float,n=4", F3, "f8", [(4, 1, 3)], (2, 6, 9), METHODS),
        mk_percentile("float,more q", F3, "f8", [(1, 1, 2), (2, 1, 2), (3, 1, 2)], (5, 8, 10, 11, 12, 13, 14, 15), METHODS),
        mk_percentile("float,n=5", (0.0, 1.0), "f8", [(5, 1, 2)], (1, 2, 6, 14), METHODS),
        mk_percentile("float,4 chunks", F3, "f8", [(2, 4, 4), (3, 4, 4)], (2, 6, 9), METHODS),
        mk_percentile("float,4 values", (0.0, 1.0, 2.0, 5.0), "f8", [(3, 1, 2)], (1, 3, 6, 9), METHODS),
        mk_percentile("int", I3, "i8", [(1, 1, 3), (2, 1, 3), (3, 1, 3)], (2, 6, 8), METHODS),
        mk_percentile("inf", INF3, "f8", [(1, 1, 3), (2, 1, 3), (3, 1, 3)], (1, 6, 9), PICKING),
        mk_percentile("long", None, "f8", None, (1, 2, 5, 6, 7, 12, 13, 14), METHODS, lay=halves(tuple(range(5, 31)))),
        mk_percentile("long int", None, "i8", None, (1, 6, 7, 14), METHODS, lay=halves((5, 8, 13, 21))),
        mk_merge(2, ((0, 1, 2, 3, 4), (0, 1), 2, (1, 3)), ((0, 1, 2, 3, 4), (0, 4), 2, (0, 2)), 3),
        mk_merge(2, ((0, 1, 3), (0, 4), 3, (2,)), ((1, 2, 3), (0, 1), 3, (1, 3)), 5),
        mk_merge(3, ((0, 1, 3), (0, 1), 1, (1, 3)), ((0, 3), (0, 1), 2, (0, 2)), 2),
        mk_nanpercentile("nan", [(3,), (4,), (2, 2), (1, 3), (2, 3), (3, 2), (2, 4), (3, 3)], 2, npat=4, nq=4, tuple_axes=True),
        mk_nanpercentile("nan,more q", [(3,), (2, 3)], 2, npat=2, nq=6),
        mk_nanpercentile("nan,3 chunks", [(3,), (2, 2), (2, 3)], 3, npat=2, nq=3),
        mk_nanpercentile("nan,all values", [(3,), (2, 2)], 2, table=(0.0, 1.0, NAN), nq=2),
        mk_nanpercentile("nan3d", [(2, 2, 2)], 2, npat=2, nq=3, tuple_axes=True),
        mk_nanpercentile("int", [(3,), (2, 3)], 2, npat=1, patterns=NAN_PATTERNS[2:3], dtype="i8", nq=6),
        mk_nanpercentile("inf", [(3,), (2, 2), (2, 3)], 2, npat=2, methods=PICKING, patterns=INF_PATTERNS, nq=6),
    ]
