"""C45 -- division planning never splits equal index values"""
from __future__ import annotations

import numpy as np
import pandas as pd

from symx.core import Violation
from symx.run import Obligation
from props.dfstub import dd

IO = __import__("dask.dataframe.io.io", fromlist=["x"])

PROPERTY = "C45"
LEVEL = "other"
BUDGET = {"quick": 150, "thorough": 1500}
EXPLANATION = (
    "Bounded symbolic execution of the real sorted_division_locations with `npartitions` / `chunksize` a symbolic integer and "
    "the sorted input sequence solver-enumerated over a 4-letter alphabet (its values are hashed by set() inside the kernel, "
    "so they concretise). For every path class z3 shows: locations strictly increase from 0 to len(seq); divisions[i] is the "
    "value at locations[i] and the last division is the last value; no interior boundary separates two equal values; exactly "
    "npartitions partitions whenever there are at least that many distinct values. Each path model is replayed natively and "
    "run through dd.from_pandas on a real frame (e2e: divisions truthful, rows preserved). The quantile-based divisions of set_index "
    "(_repartition_quantiles: non-decreasing, first == column min, last == column max; set_index result truthful) are decided on "
    "solver-enumerated frames only: partition sizes 0..k incl. single-row partitions holding the extreme value, four value patterns.")
ASSUMPTIONS = [
    "the input must be an ndarray (the kernel's tolist() dispatch rejects plain lists); the harness passes np.array(values)",
    "dask.dataframe is imported with a stub `pyarrow` package (absent from the sandbox)",
]
STUBS = ["stub pyarrow package for import"]
ENUM = ["the sorted sequence (all non-decreasing sequences of the given length over {0,1,2,3})", "every input of quantile_divisions (partition sizes incl. empty and single-row partitions, value pattern, target count)"]
OUTSIDE = ["quantile sketches beyond the enumerated cases (process_val_weights / percentiles_summary are NumPy float code: no symbolic claim)", "sequences longer than the bound, alphabets > 4"]
BOUNDS = {
    "quick": dict(length="1..6", alphabet=4, npartitions="symbolic in [1, len+2]", chunksize="symbolic in [1, len+2]"),
    "thorough": dict(length="1..9", alphabet=4, npartitions="symbolic in [1, len+3]", chunksize="symbolic in [1, len+3]"),
}


def functions():
    return [IO.sorted_division_locations]


def mk(L, mode, pad):
    def setup(e):
        seq = []
        for i in range(L):
            s = e.int(f"s{i}", 0, 3)
            if seq:
                e.assume(lambda: s >= seq[-1])
            seq.append(s)
        k = e.int("k", 1, L + pad)
        return seq, k

    def run(e, seq, k):
        seqc = [s.__index__() for s in seq]
        arr = np.array(seqc)
        if mode == "npartitions":
            divs, locs = IO.sorted_division_locations(arr, npartitions=k)
        else:
            divs, locs = IO.sorted_division_locations(arr, chunksize=k)
        e.check(len(divs) == len(locs) and len(locs) >= 2, "divisions/locations malformed")
        e.check(locs[0] == 0 and locs[-1] == len(seqc), "locations do not span [0, len]")
        for x, y in zip(locs, locs[1:]):
            e.check(x < y, "locations not strictly increasing")
        for d, l in zip(divs[:-1], locs[:-1]):
            e.check(d == seqc[l], "division is not the value at its location")
        e.check(divs[-1] == seqc[-1], "last division is not the last value")
        for l in locs[1:-1]:
            e.check(seqc[l - 1] != seqc[l], "equal values straddle a partition boundary")
        if mode == "npartitions":
            nd = len(set(seqc))
            if nd >= k:
                e.check(lambda: e.equal(len(locs) - 1, k), "npartitions not met although enough distinct values exist")
        return (list(divs), list(locs))

    def e2e(model):
        seqc = [model[f"s{i}"] for i in range(L)]
        k = model["k"]
        letters = "ABCD"
        df = pd.DataFrame({"x": range(L)}, index=[letters[s] for s in seqc])
        kw = {"npartitions": k} if mode == "npartitions" else {"chunksize": k}
        d = dd.from_pandas(df, sort=True, **kw)
        divs = d.divisions
        if d.npartitions != len(divs) - 1:
            raise Violation("npartitions != len(divisions)-1")
        got = d.compute(scheduler="sync")
        if not got.equals(df):
            raise Violation(f"from_pandas({kw}) changed rows for index {df.index.tolist()}")
        n = d.npartitions
        for i in range(n):
            ix = d.get_partition(i).compute(scheduler="sync").index
            for x in ix:
                ok = (divs[i] <= x <= divs[i + 1]) if i == n - 1 else (divs[i] <= x < divs[i + 1])
                if not ok:
                    raise Violation(f"partition {i} of divisions {divs} holds {x} (index {df.index.tolist()}, {kw})")
        if mode == "npartitions" and len(set(seqc)) >= k and n != k:
            raise Violation(f"from_pandas(npartitions={k}) gave {n} partitions for {df.index.tolist()}")

    return Obligation(f"sdl[L={L},{mode}]", setup, run, e2e=e2e, e2e_every=4)


KINDS = ("float", "int", "str", "categorical", "datetime", "datetime_tz")


def mk_quantiles(nparts, maxrows, maxout):
    """quantile-based divisions for set_index / _repartition_quantiles: non-decreasing, spanning the column's min and max.
    The sketches are NumPy float code: partition sizes, the value pattern and the target count are enumerated by the solver."""
    import operator

    def setup(e):
        sizes = [e.int(f"rows{i}", 0, maxrows) for i in range(nparts)]
        e.assume(lambda: sizes[0] + sum(sizes[1:]) >= 1)
        order = e.pick("order", ("ascending", "descending", "zigzag", "constant"))
        nout = e.int("nout", 1, maxout)
        kind = e.pick("dtype", KINDS)
        # number of partitions set_index ends up with: a guess variable pinned to the observed value in run(), so that the known-finding
        # predicate "fewer partitions than requested" can be stated over the model
        parts = e.int("parts", 0, maxout)
        return sizes, order, nout, kind, parts

    def run(e, sizes, order, nout, kind, parts_var):
        sizes = [operator.index(x) for x in sizes]
        nout = operator.index(nout)
        n = sum(sizes)
        if order == "ascending":
            vals = [float(3 * i) for i in range(n)]
        elif order == "descending":
            vals = [float(3 * (n - i)) for i in range(n)]
        elif order == "zigzag":
            vals = [float((i * 7) % 11) for i in range(n)]
        else:
            vals = [5.0] * n
        key = lambda v: v
        if kind == "int":
            vals = [int(v) for v in vals]
        elif kind == "str":
            vals = [f"k{int(v):03d}" for v in vals]
        elif kind == "categorical":
            # ordered categorical with FEW levels in a custom (non-lexical) order: fewer distinct values than partitions is the rule
            levels = ["low", "mid", "high"]
            vals = [levels[int(v) % 3] for v in vals]
            key = levels.index
        elif kind in ("datetime", "datetime_tz"):
            base = pd.Timestamp("2021-03-01 02:35:44")
            vals = [base + pd.Timedelta(minutes=37 * int(v)) for v in vals]
            if kind == "datetime_tz":
                vals = [v.tz_localize("US/Eastern") for v in vals]
        if kind == "categorical":
            df = pd.DataFrame({"a": pd.Categorical(vals, categories=levels, ordered=True), "b": range(n)})
        else:
            df = pd.DataFrame({"a": vals, "b": range(n)})
        # partitions of exactly the given sizes (empty ones included)
        parts, pos = [], 0
        for sz in sizes:
            parts.append(df.iloc[pos:pos + sz])
            pos += sz
        import dask
        ddf = dd.from_delayed([dask.delayed(p) for p in parts], meta=df.iloc[:0], verify_meta=False)
        q = ddf.a._repartition_quantiles(nout).compute(scheduler="sync")
        qs = list(q)
        obs = [str(x) for x in qs]
        for x, y in zip(qs, qs[1:]):
            e.check(key(x) <= key(y), f"quantile divisions not non-decreasing: {qs}")
        lo, hi = min(vals, key=key), max(vals, key=key)
        e.check(qs[0] == lo and qs[-1] == hi, f"quantile divisions {qs} do not span the data's min/max [{lo}, {hi}] (partition sizes {sizes}, dtype {kind})")
        if len(set(vals)) < 2:
            e.assume(lambda: parts_var == 0)
            return obs       # set_index on a single distinct key is outside this property (shuffle plumbing, C40)
        out = ddf.set_index("a", npartitions=nout)
        d = out.divisions
        if d[0] is None:
            e.assume(lambda: parts_var == 0)
            return obs       # unknown divisions: nothing is reported, nothing to be untruthful about
        nparts = len(d) - 1
        e.assume(lambda: parts_var == nparts)
        e.check(list(d) == sorted(d, key=key), f"set_index divisions not sorted: {d}")
        try:
            got = out.compute(scheduler="sync")
        except AssertionError:
            e.check(False, f"set_index('a', npartitions={nout}) raised AssertionError at compute time: divisions {d} describe {nparts} partition(s) "
                           f"but .npartitions reports {out.npartitions} (partition sizes {sizes}, dtype {kind})")
            raise
        e.check(sorted(got.index.tolist(), key=key) == sorted(vals, key=key) and sorted(got.b.tolist()) == list(range(n)), "set_index changed the multiset of rows")
        import dask as _d
        frames = _d.compute(*out.to_delayed(), scheduler="sync")
        m = len(frames)
        e.check(m == len(d) - 1, "npartitions != len(divisions)-1")
        for i, fr in enumerate(frames):
            for x in fr.index:
                ok = (key(d[i]) <= key(x) <= key(d[i + 1])) if i == m - 1 else (key(d[i]) <= key(x) < key(d[i + 1]))
                e.check(ok, f"set_index: partition {i} of divisions {d} holds index {x} (partition sizes {sizes}, values {order}, dtype {kind})")
        return obs

    return Obligation(f"quantile_divisions[parts={nparts},rows<={maxrows},nout<={maxout}]", setup, run)


CHUNK_PATHS = 15


def obligations(tier):
    Ls, pad = ((1, 2, 3, 4, 5, 6), 2) if tier == "quick" else ((1, 2, 3, 4, 5, 6, 7, 8, 9), 3)
    obs = [mk(L, m, pad) for L in Ls for m in ("npartitions", "chunksize")]
    obs.append(mk_quantiles(3, 2, 2) if tier == "quick" else mk_quantiles(3, 4, 3))
    return obs
