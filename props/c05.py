"""C05 -- scheduler callbacks fire in protocol order and contexts nest like a stack"""
from __future__ import annotations

from symx.core import Violation
from symx.run import Obligation
from symx.patch import patched
from props import sched as SC

import dask.local as L
import dask.callbacks as CB
from dask.callbacks import Callback, add_callbacks

PROPERTY = "C05"
LEVEL = "other"
BUDGET = {"quick": 200, "thorough": 2400}
CHUNK_PATHS = 150
EXPLANATION = (
    "(i) protocol order: the real get_async loop is run symbolically (symbolic num_workers, enumerated chunksize, solver-"
    "picked completion order, solver-enumerated graphs, optional failing task) with two callback tuples (one with holes), "
    "passed explicitly or through Callback.active; monitors assert start once per callback before any pretask, finish once "
    "at the end with the right failure flag, one pretask before one posttask per executed key. (ii) context nesting: all "
    "histories up to a bounded length over two Callback objects of the real operations with-Callback, add_callbacks, exit "
    "innermost, register, unregister and a scheduler call; after every exit, every callback that was active and was activated "
    "by an enclosing open context or by a register() made before the exited context was entered must still be active; a "
    "scheduler call fires exactly the active callbacks and restores the active set. Histories are solver-enumerated choice "
    "sequences (bounded exhaustive, no arithmetic); the tree is exhausted and each path is replayed natively.")
ASSUMPTIONS = SC.SCHED_ASSUMPTIONS
STUBS = SC.SCHED_STUBS
ENUM = ["everything except num_workers: graphs, failing task, history operations"]
OUTSIDE = ["non-LIFO exit orders of context objects", "callbacks that raise", "histories longer than the bound"]
BOUNDS = {
    "quick": dict(protocol="N<=3 nodes {Task,DataNode}, <=1 failing task, explicit and global callbacks", histories="length <= 4, 2 callback objects, 8 operation kinds (incl. a failing compute)"),
    "thorough": dict(protocol="N<=3 nodes {Task,DataNode,Alias,legacy list}, N=4 {Task}", histories="length <= 6"),
}


def functions():
    return SC.sched_functions() + [Callback.__enter__, Callback.__exit__, Callback.register, Callback.unregister,
                                   add_callbacks.__init__, add_callbacks.__exit__, CB.normalize_callback]


def mk_protocol(N, kinds, chunks=SC.CHUNKSIZES):
    def setup(e):
        spec = SC.gen_graph(e, N, kinds, sym_leaf=False)
        want, shape = SC.gen_request(e, N, allow_empty=False, shapes=(0, 1, 2))
        fails = {}
        tasks = [j for j in range(N) if spec[j]["kind"] not in ("data", "alias")]
        if tasks and e.flag("anyfail"):
            j = e.pick("failnode", tasks)
            fails[j] = SC.EXC[e.choice("exc", 3)]
        via_global = e.flag("global")
        threaded = e.flag("threaded_pack")
        nw = e.int("num_workers", 1)
        cs = e.pick("chunksize", chunks)
        return spec, want, shape, fails, via_global, threaded, nw, cs

    def run(e, spec, want, shape, fails, via_global, threaded, nw, cs):
        import dask.threaded
        log = []
        dsk = SC.build(spec, log, fails)
        keys, pack = SC.request_keys(want, shape)
        mon = SC.Monitors(log, e)
        cbs = [mon.tuple("A", "sSpPf"), mon.tuple("B", "spf")]
        raised = None
        saved = Callback.active
        try:
            if via_global:
                Callback.active = set(cbs)
            try:
                SC.run_scheduler(e, dsk, keys, nw, cs, log, callbacks=None if via_global else cbs,
                                 pack=dask.threaded.pack_exception if threaded else None, use_loads=False)
            except Violation:
                raise
            except BaseException as ex:
                if type(ex).__module__.startswith("symx"):
                    raise
                raised = ex
            if via_global:
                e.check(Callback.active == set(cbs), "global callbacks not restored after the scheduler call")
        finally:
            Callback.active = saved
        needed = SC.needed_set(spec, want)
        must_fail = any(j in needed for j in fails)
        e.check((raised is not None) == must_fail, f"unexpected outcome: raised={raised!r}")
        first_pre = min([t for t, ev in enumerate(log) if ev[0] == "cb_pretask"], default=len(log))
        for tag in "AB":
            st = [t for t, ev in enumerate(log) if ev[0] == "cb_start" and ev[1] == tag]
            fi = [t for t, ev in enumerate(log) if ev[0] == "cb_finish" and ev[1] == tag]
            e.check(len(st) == 1 and st[0] < first_pre, f"start callback {tag} fired {len(st)} times / after a task")
            e.check(len(fi) == 1, f"finish callback {tag} fired {len(fi)} times")
            e.check(fi[0] == max(t for t, ev in enumerate(log) if ev[0].startswith("cb_") and ev[1] == tag), "finish is not the last callback")
            e.check(log[fi[0]][2] == must_fail, "finish callback got the wrong failure flag")
            pre = {}
            for t, ev in enumerate(log):
                if ev[0] == "cb_pretask" and ev[1] == tag:
                    e.check(ev[2] not in pre, f"two pretask calls for {ev[2]!r}")
                    pre[ev[2]] = t
            handed = [ev[1] for ev in log if ev[0] == "submit"]
            submitted = {k for batch in handed for k in batch}
            e.check(set(pre) == submitted, "pretask calls do not match the submitted tasks")
            if tag == "A":
                post = {}
                for t, ev in enumerate(log):
                    if ev[0] == "cb_posttask" and ev[1] == tag:
                        e.check(ev[2] not in post and ev[2] in pre and pre[ev[2]] < t, f"posttask for {ev[2]!r} duplicated or before its pretask")
                        post[ev[2]] = t
                if not must_fail:
                    e.check(set(post) == set(pre), "an executed task has no posttask call")
        return sorted(repr(ev[:3]) for ev in log if ev[0].startswith("cb_"))

    return Obligation(f"protocol[N={N},kinds={'+'.join(kinds)}]", setup, run)


OPS = ("with_cb", "add_cb", "add_both", "exit", "register", "unregister", "compute", "compute_fail")


def mk_history(Lmax):
    def setup(e):
        n = 1 + e.choice("len", Lmax)
        ops = []
        depth = 0
        for t in range(n):
            op = e.pick(f"op{t}", OPS)
            who = e.choice(f"who{t}", 2) if op in ("with_cb", "add_cb", "register", "unregister") else 0
            if op == "exit":
                e.assume(depth > 0)
                depth -= 1
            elif op in ("with_cb", "add_cb", "add_both"):
                depth += 1
            ops.append((op, who))
        return (ops,)

    def run(e, ops):
        fired = []

        def mkcb(i):
            return Callback(start=lambda dsk: fired.append(i))

        cbs = [mkcb(0), mkcb(1)]
        tup = [c._callback for c in cbs]
        saved = Callback.active
        Callback.active = set()
        stack = []          # (context manager, set of ids, registered-at-entry)
        registered = set()
        trace = []
        try:
            for op, who in ops:
                if op == "with_cb":
                    cbs[who].__enter__()
                    stack.append((cbs[who], {who}, set(registered)))
                elif op == "add_cb":
                    cm = add_callbacks(cbs[who])
                    cm.__enter__()
                    stack.append((cm, {who}, set(registered)))
                elif op == "add_both":
                    cm = add_callbacks(cbs[0], tup[1])
                    cm.__enter__()
                    stack.append((cm, {0, 1}, set(registered)))
                elif op == "register":
                    cbs[who].register()
                    registered.add(who)
                elif op == "unregister":
                    if who not in registered or tup[who] not in Callback.active:
                        trace.append("skip")
                        continue     # unregister without a matching register(): not a history the property speaks about
                    cbs[who].unregister()
                    # unregister deactivates the callback outright: earlier activations are void
                    registered.discard(who)
                    for _, ids2, reg in stack:
                        reg.discard(who)
                        ids2.discard(who)
                elif op == "exit":
                    before = {i for i in (0, 1) if tup[i] in Callback.active}
                    cm, ids, reg_at_entry = stack.pop()
                    cm.__exit__(None, None, None)
                    keep = set()
                    for _, ids2, _ in stack:
                        keep |= ids2
                    keep |= (reg_at_entry & registered)
                    for i in before & keep:
                        e.check(tup[i] in Callback.active,
                                f"leaving a context deactivated callback {i} that an enclosing context / earlier register() activated")
                elif op in ("compute", "compute_fail"):
                    before = {i for i in (0, 1) if tup[i] in Callback.active}
                    del fired[:]
                    log = []
                    dsk = SC.build([dict(kind="task", deps=[], leaf=None)], log, {0: SC.Boom} if op == "compute_fail" else {})
                    try:
                        SC.run_scheduler(e, dsk, SC.key_of(0), 1, 1, log, callbacks=None, use_loads=False)
                        e.check(op == "compute", "failing task did not raise")
                    except SC.Boom:
                        e.check(op == "compute_fail", "unexpected Boom")
                    e.check(sorted(fired) == sorted(before), f"scheduler fired start callbacks {sorted(fired)}, active were {sorted(before)}")
                    after = {i for i in (0, 1) if tup[i] in Callback.active}
                    e.check(after == before, "scheduler call changed the set of active callbacks")
                # inside a context its callbacks are active (activation itself)
                if op in ("with_cb", "add_cb", "add_both"):
                    for i in stack[-1][1]:
                        e.check(tup[i] in Callback.active, "entering a context did not activate its callback")
                # claims are only kept for callbacks that are active now: a callback that
                # was deactivated without breaking the rule above (e.g. register() made
                # *inside* the context that was just left) has no standing activation
                for i in (0, 1):
                    if tup[i] not in Callback.active:
                        registered.discard(i)
                        for _, ids2, reg in stack:
                            reg.discard(i)
                            ids2.discard(i)
                trace.append(tuple(sorted(i for i in (0, 1) if tup[i] in Callback.active)))
        finally:
            Callback.active = saved
        return trace

    return Obligation(f"nesting[len<={Lmax}]", setup, run)


def obligations(tier):
    if tier == "quick":
        return [mk_protocol(2, ("task", "data")), mk_protocol(3, ("task", "data"), chunks=(-1, 2)), mk_history(4)]
    return [mk_protocol(2, SC.ALL_KINDS), mk_protocol(3, ("task", "data", "alias", "legacylist")),
            mk_protocol(4, ("task",), chunks=(-1, 2)), mk_history(6)]
