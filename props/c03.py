"""C03 -- intermediate results are never released early and never leaked"""
from __future__ import annotations

from symx.core import Violation
from symx.run import Obligation
from props import sched as SC

PROPERTY = "C03"
LEVEL = "model_checking"
BUDGET = {"quick": 200, "thorough": 2400}
CHUNK_PATHS = 150
EXPLANATION = (
    "Bounded model checking of the real scheduler state machine: the real get_async loop is executed symbolically "
    "(symbolic num_workers, enumerated chunksize, solver-picked completion order, solver-enumerated graphs/requests) "
    "and the real `state` dict (cache/ready/waiting/waiting_data/running/finished/released) is inspected at every "
    "start_state/pretask/posttask/finish callback. Invariants: a computed key is absent from the cache only if every needed "
    "dependent has finished; requested keys are never released; a task's dependencies are all cached when it starts; "
    "at return the caller-supplied cache holds exactly the requested keys. states = distinct (graph, request, scheduler "
    "state) snapshots visited, transitions = callback events; every path is replayed natively on the unpatched code.")
ASSUMPTIONS = SC.SCHED_ASSUMPTIONS + ["the state machine inspected is the implementation's own `state` dict, not an abstraction of it"]
STUBS = SC.SCHED_STUBS
ENUM = ["graph shape bits, node kinds, requested subset/nesting, chunksize, completion picks"]
OUTSIDE = ["multiprocessing scheduler", "graphs with more than N nodes", "user-supplied non-empty caches"]
BOUNDS = {
    "quick": dict(N="<=2 (all kinds), 3 (kinds {Task,DataNode,Alias} / {legacy,List arg,legacy list})", num_workers="symbolic >= 1, unbounded", chunksize=list(SC.CHUNKSIZES)),
    "thorough": dict(N="<=3 (all kinds), 4 (kinds {Task,DataNode,Alias})", num_workers="symbolic >= 1, unbounded", chunksize=list(SC.CHUNKSIZES)),
}


# request shapes: the small graphs get every nesting and the empty request; the largest quick graphs only scalar/flat and list-first
REQ = {False: dict(), True: dict(allow_empty=False, shapes=(0, 2))}


def functions():
    return SC.sched_functions()


def mc_counts(res):
    states = set()
    trans = 0
    for o in res["obligations"]:
        states |= o["notes"].get("states", set())
        trans += o["notes"].get("transitions", 0)
    return dict(states=len(states), transitions=trans)


def oracle(e, spec, want, log, cache, gid, supplied=()):
    needed = SC.needed_set(spec, want)
    N = len(spec)
    keyidx = {SC.key_of(j): j for j in range(N)}
    dependents = {j: [i for i in needed if j in spec[i]["deps"]] for j in range(N)}
    requested = {SC.key_of(j) for j in want}
    states = e.notes.setdefault("states", set())
    ntrans = 0
    for ev in log:
        if ev[0] not in ("cb_start_state", "cb_pretask", "cb_posttask", "cb_finish"):
            continue
        snap = ev[3] if ev[0] in ("cb_pretask", "cb_posttask", "cb_finish") else ev[2]
        if snap is None:
            continue
        ntrans += 1
        fin = snap["finished"]
        cached = snap["cache"]
        states.add(hash((gid, frozenset(fin), frozenset(cached), frozenset(snap["running"]),
                         frozenset(snap["released"]), tuple(snap["ready"]), frozenset(snap["waiting"]))))
        if ev[0] == "cb_pretask":
            k = ev[2]
            for i in spec[keyidx[k]]["deps"]:
                e.check(SC.key_of(i) in cached, f"{k!r} starts but its dependency {SC.key_of(i)!r} is not in the cache")
        for j in needed:
            k = SC.key_of(j)
            computed = (k in fin) or spec[j]["kind"] == "data"
            if not computed:
                continue
            if k in requested:
                e.check(k in cached and k not in snap["released"], f"requested key {k!r} was released")
            elif k not in cached:
                for d in dependents[j]:
                    e.check(SC.key_of(d) in fin, f"{k!r} released although its dependent {SC.key_of(d)!r} has not finished")
        for k in snap["released"]:
            e.check(k not in cached, f"{k!r} marked released but still cached")
        for k in snap["running"]:
            e.check(k not in fin, f"{k!r} both running and finished")
    e.notes["transitions"] = e.notes.get("transitions", 0) + ntrans
    left = set(cache) - set(supplied)
    e.check(requested <= set(cache), f"a requested result is missing from the cache at return: {sorted(map(str, cache))}")
    e.check(left <= requested, f"at return the cache still holds {sorted(map(str, left - requested))} (neither requested nor supplied by the caller)")


def mk(N, kinds, chunks=SC.CHUNKSIZES, small=False):
    def setup(e):
        spec = SC.gen_graph(e, N, kinds, sym_leaf=False)
        want, shape = SC.gen_request(e, N, **REQ[small])
        nw = e.int("num_workers", 1)
        cs = e.pick("chunksize", chunks)
        return spec, want, shape, nw, cs

    def run(e, spec, want, shape, nw, cs):
        log = []
        dsk = SC.build(spec, log, {})
        keys, pack = SC.request_keys(want, shape)
        mon = SC.Monitors(log, e, snapshot=True)
        cache = {}
        SC.run_scheduler(e, dsk, keys, nw, cs, log, callbacks=[mon.tuple("m", "SpPf")], cache=cache, use_loads=False)
        gid = (tuple((s["kind"], tuple(s["deps"])) for s in spec), tuple(want))
        oracle(e, spec, want, log, cache, gid)
        return [(ev[0], str(ev[2])) for ev in log if ev[0] in ("cb_pretask", "cb_posttask")]

    return Obligation(f"release[N={N},kinds={'+'.join(kinds)}{',fewshapes' if small else ''}]", setup, run)


def mk_supplied(N, kinds):
    """caller-supplied cache with an unrelated entry and stale values under literal keys"""
    def setup(e):
        spec = SC.gen_graph(e, N, kinds, sym_leaf=False)
        want, shape = SC.gen_request(e, N, shapes=(1,))
        pre = [j for j, s in enumerate(spec) if s["kind"] == "data" and e.flag(f"pre{j}")]
        nw = e.int("num_workers", 1)
        cs = e.pick("chunksize", (-1, 1, 2))
        return spec, want, shape, pre, nw, cs

    def run(e, spec, want, shape, pre, nw, cs):
        log = []
        dsk = SC.build(spec, log, {})
        keys, pack = SC.request_keys(want, shape)
        mon = SC.Monitors(log, e, snapshot=True)
        cache = {SC.key_of(j): -99 for j in pre}
        cache["unrelated"] = None
        supplied = set(cache)
        SC.run_scheduler(e, dsk, keys, nw, cs, log, callbacks=[mon.tuple("m", "SpPf")], cache=cache, use_loads=False)
        gid = (tuple((s["kind"], tuple(s["deps"])) for s in spec), tuple(want), tuple(pre))
        oracle(e, spec, want, log, cache, gid, supplied)
        e.check("unrelated" in cache, "the scheduler dropped a cache entry it does not own")
        return sorted(map(str, cache))

    return Obligation(f"supplied_cache[N={N},kinds={'+'.join(kinds)}]", setup, run)


def obligations(tier):
    A, B = ("task", "data", "alias"), ("legacy", "listarg", "legacylist")
    if tier == "quick":
        return [mk(1, SC.ALL_KINDS), mk(2, SC.ALL_KINDS), mk(3, A, small=True), mk(3, B, small=True), mk(3, SC.NONE_KINDS, small=True), mk_supplied(3, ("task", "data", "none"))]
    return [mk(1, SC.ALL_KINDS), mk(2, SC.ALL_KINDS), mk(3, SC.ALL_KINDS), mk(3, SC.NONE_KINDS), mk(4, A), mk_supplied(3, SC.ALL_KINDS + ("none",)), mk_supplied(4, ("task", "data", "none"))]
