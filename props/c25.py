"""C25 -- lazy array metadata (.shape / .dtype / .chunks / block keys) matches the computed data.

The property has no kernel of its own: every dask.array operation declares the chunks, shape and dtype of its result while it builds the
graph, and the blocks that the graph later produces have to fit that declaration.  It is decided here on solver-ENUMERATED pipelines: the
solver picks a small input (1-d / 2-d / 3-d, every chunking with at most K chunks per axis, chunks of size 1 and 0 included, a dtype) and
a pipeline of 1-3 operations from a table that covers the operation families of C19-C24 and C26-C27 (elementwise / broadcasting, indexing,
item assignment, reductions and scans, rechunk, structural operations, overlap, counting / set / search routines).  The resulting array r is
then computed three independent ways -- r.compute(), the raw block keys of r.__dask_keys__() through the synchronous scheduler, and every
block separately through r.to_delayed() and r.blocks[idx] -- and exactly what the property states is asserted: computed shape == r.shape
(entries that are NaN make no claim), computed dtype == r.dtype, every separately computed block has the shape that r.chunks declares for
its block index, and the blocks placed by their block index (plain np.concatenate, innermost axis first) reassemble r.compute().

No NumPy oracle of the VALUES is involved (C19-C24, C26, C27 do that), so the check is independent of what the operations mean.
"""
from __future__ import annotations

import builtins
import itertools
import math
import os
import warnings
import zlib

import numpy as np

from symx.core import Violation, HarnessError
from symx.run import Obligation

import dask
import dask.array as da
import dask.array.core as AC
import dask.array.overlap as OV

PROPERTY = "C25"
LEVEL = "other"
BUDGET = {"quick": 400, "thorough": 2400}      # caps, not targets
CHUNK_PATHS = 60
EXPLANATION = (
    "Solver-driven enumeration of array pipelines through dask's PUBLIC API, computed with the synchronous scheduler. The solver enumerates the "
    "input (number of dimensions, axis lengths, EVERY chunking with at most K chunks per axis including chunks of size 1 and 0, dtype) and the "
    "operation of every pipeline stage from a table of 54 operation entries (about 200 parameterised forms) covering the families of C19-C24 and C26-C27; the operation's parameters (axis, "
    "slice, keepdims, split_every, k, boundary, ...) are either enumerated by the solver as well ('full' stages) or a fixed number of "
    "deterministic draws derived from a CRC of the operation name and the operand's chunks ('lite' stages, used to keep deep pipelines bounded). "
    "For the pipeline's result r (every element of a tuple result) the harness asserts: (1) r.compute() has r.ndim dimensions, its shape equals "
    "r.shape on every axis whose declared length is not NaN, and its dtype equals r.dtype; (2) r.__dask_keys__() is the nested list of "
    "(r.name, i, j, ...) with the extents of r.numblocks, and every block computed from those raw keys has r.ndim dimensions, the dtype r.dtype and, on "
    "every axis, the length r.chunks[axis][i_axis] (NaN entries make no claim); (3) the raw blocks joined by their block index with np.concatenate "
    "equal r.compute() exactly (NaN == NaN); (4) the blocks computed one by one through r.to_delayed() (optimised graph) and through r.blocks[idx] "
    "have the same shape, dtype and values as the raw blocks. An operation or a compute() that raises on an input the table marks as valid is "
    "reported as a violation. Every path is replayed natively.")
ASSUMPTIONS = [
    "the table only applies an operation where NumPy defines it (no min / max / arg reduction over an empty extent, no edge / reflect padding or "
    "boundary of an axis that is too short, overlap.overlap only with every chunk >= depth, bincount only on the non-negative integer input, ...); "
    "the applicability predicate of every operation is a function of the operand's concrete shape / chunks / dtype",
    "shape or chunk entries that are NaN (unknown sizes after boolean indexing, unique, nonzero, ...) make no claim; the dtype, the number of "
    "dimensions, the known entries and the reassembly are still asserted for such arrays",
    "regions of OPEN known findings of other properties are excluded and named by a model variable (== 1 inside the region, nothing is asserted "
    "there): deg_axis (an OPERAND with an axis of length <= 1 cut into several chunks: C19 / C24 / C27 degenerate-axis findings), arg_empty (arg "
    "reductions with an empty chunk along the reduced axis: C22), cum_empty (sequential cumsum / cumprod with an empty chunk before a non-empty one: "
    "C22), minmax_empty_nd (min / max of an n-d array that has an empty chunk: C22), bincount_minlength_too_small (C27)",
    "index tuples whose advanced items are separated by a slice (NumPy moves those dimensions to the front, dask does not: open finding of C20) "
    "are not generated; dask is self-consistent there, the finding is about NumPy's layout",
    "synchronous scheduler; map_overlap / map_blocks functions are shape-preserving elementwise lambdas",
]
STUBS = ["none: dask runs unmodified through its public API"]
ENUM = [
    "ALL inputs are concretised (they pass through NumPy): number of dimensions, axis lengths, number of chunks and every chunk size, dtype, the "
    "operation of every stage: solver-enumerated shape variables",
    "operation parameters: solver-enumerated in 'full' stages; in 'lite' stages V deterministic draws per (operation, operand) derived from "
    "zlib.crc32(operation name, operand chunks and dtype, draw number) -- a reproducible sample, not an enumeration",
    "element values are a fixed function of the shape ((7 i + 3) mod 5, cast to the dtype); the thresholds of x[x > k] are enumerated (all / some / "
    "no element selected)",
]
OUTSIDE = [
    "the VALUES of the operations (C19-C24, C26, C27 compare them with NumPy); here they only have to be the same along the three ways of computing",
    "pipelines longer than 3 operations, arrays with more dimensions / elements / chunks than the tier's bounds, operations not in the table "
    "(linear algebra, fft, random, masked arrays, gufuncs, map_blocks with user-declared chunks, store / to_zarr, dataframe conversions)",
    "unknown (NaN) sizes: no claim about those entries; operations that need known chunks are not applied to such arrays",
    "the regions of the open findings listed in ASSUMPTIONS; separated advanced indices",
    "schedulers other than the synchronous one; the array-expression backend; user-supplied meta= / dtype= / chunks= declarations that are wrong",
]
BOUNDS = {
    "quick": dict(single="pipelines of 1 operation, one obligation per family: 1-d length 0..4 with <= 3 chunks (EVERY chunking, zero-size chunks anywhere; 48 inputs) x every "
                         "operation of the family, 1 lite parameter draw, dtype i8 or f4 by CRC; 2-d shapes (2,3) (0,2) with <= 2 chunks per axis x every operation; 3-d: 4 "
                         "fixed inputs x every operation; the indexing and structural families additionally with FULLY enumerated parameters on the inputs (4,):(1,0,3) and "
                         "(3,3):((2,1),(1,2))",
                  pairs="pipelines of 2 operations: inputs (4,):(1,0,3) and (3,3):((2,1),(1,2)), first operation from the 15 'producer' operations (those that create unusual "
                        "chunk structures), second from the whole table, 1 lite draw each",
                  triples="pipelines of 3 operations: input (4,):(1,0,3), 8 'strong' producers -> 15 producers -> 14 'late' operations, 1 lite draw each",
                  blocks=".blocks[idx] for the first and the last block, to_delayed() and the raw keys for every block"),
    "thorough": dict(single="per family: fully enumerated parameters on 8 fixed inputs (4 1-d, 3 2-d, 1 3-d); 1-d length 0..5 with <= 4 chunks (every chunking), dtype i8 / f4 / "
                            "i2 / bool by CRC, 1 lite draw; 2-d shapes (2,3) (3,2) (4,4) with <= 2 and (3,1) (0,2) (2,0) with <= 3 chunks per axis; 3-d (2,1,2) (0,2,2) with <= 2 "
                            "chunks per axis; 4 fixed 3-d inputs x every operation x 2 draws x 2 dtypes; .blocks[idx] for every block",
                     pairs="every operation -> every operation on 3 fixed inputs (1-d, 2-d, 3-d); producers -> every operation (2 draws) on 4 further inputs",
                     triples="producer -> producer -> late on (3,3):((2,1),(1,2)); strong -> strong -> every operation on (4,):(1,0,3)"),
}

# ----------------------------------------------------------------------------------------------------------------------------------
# Regions that are NOT asserted.  Each is named by a model variable that is 1 exactly on the paths inside the region.
#
# (a) open known findings of OTHER properties (known_findings.json), excluded as documented preconditions:
#   deg_axis                      the OPERAND of a pipeline stage has an axis of length <= 1 that is cut into several chunks, e.g. chunks (1, 0) or
#                                 (0, 0) as left behind by boolean indexing + compute_chunk_sizes(): C19-degenerate-axis-several-chunks,
#                                 C27-flatten-degenerate-axis, C22-flatten-degenerate-axis (broadcasting and ravel / reshape do not recognise such axes).
#                                 The pipeline stops in front of that stage; nothing is asserted on the path.
#   arg_empty                     argmin / argmax / nanargmax / argtopk-free arg reductions with an empty block along the reduced axis: C22-arg-reduction-empty-chunk
#   cum_empty                     sequential cumsum / cumprod with an empty chunk before a non-empty one along the scanned axis: C22-cumulative-empty-chunk
#   minmax_empty_nd               min / max of an array of >= 2 dimensions that has a zero-size chunk: C22-minmax-empty-chunk-nd
#   bincount_minlength_too_small  da.bincount(x, minlength=m) with m <= x.max(): declared shape (m,), computed max + 1: C27-bincount-minlength-declared-shape
#
# (b) OPEN_REGIONS: defects of the unchanged tree found with THIS harness.  The in-region assertion runs LAST on the path and is skipped only
#     when VERIF_C25_SKIP_OPEN=1 (default: asserted, i.e. the check reports the violation with <name> == 1 in its model).
# ----------------------------------------------------------------------------------------------------------------------------------
EXCLUDED = ("deg_axis", "arg_empty", "cum_empty", "minmax_empty_nd", "bincount_minlength_too_small")

# (tri_empty_first_chunk, coarsen_empty_axis_nd, rechunk_balance_zero_median and negstep_slice_after_empty_chunk were repaired in /repo and are no longer listed)
REPAIRED_REGIONS = {"tri_empty_first_chunk", "coarsen_empty_axis_nd", "rechunk_balance_zero_median", "negstep_slice_after_empty_chunk",
                    "swv_unit_window_empty_chunk", "swv_empty_axis", "repeat_empty_chunk"}
OPEN_REGIONS = {
    "swv_unit_window_empty_chunk":
        "sliding_window_view with a window of length 1 along an axis that has a zero-size chunk: the lazy array is declared (input chunks + a trailing "
        "(1,)) but compute() raises ValueError('window shape cannot be larger than input array shape'); NumPy returns x[..., None]. sliding_window_view "
        "only repairs too-small chunks on axes with depth = window - 1 != 0 (`s if d != 0 else c`), so np.lib.stride_tricks.sliding_window_view is "
        "handed the empty block. Reproduce: import numpy as np, dask.array as da; "
        "da.lib.stride_tricks.sliding_window_view(da.from_array(np.arange(3), chunks=((3, 0),)), 1).compute()",
    "swv_empty_axis":
        "sliding_window_view of an array that has an axis of length 0 (windowed along ANOTHER, long enough axis): building raises ValueError('The "
        "overlapping depth 1 is larger than your array 0.') although NumPy returns an empty result of shape e.g. (0, 1, 2): "
        "ensure_minimum_chunksize(d + 1, c) is called for every axis, also those with depth d = 0, and refuses an axis shorter than 1. Reproduce: "
        "da.lib.stride_tricks.sliding_window_view(da.from_array(np.zeros((0, 2)), chunks=((0,), (2,))), 2, axis=1)",
    "repeat_empty_chunk":
        "da.repeat(x, repeats >= 2, axis) when x has a zero-size chunk along that axis: AssertionError while building: repeat cuts x into slabs "
        "x[c_start:c_stop] per chunk and asserts that every slab has exactly one chunk, but slicing keeps the neighbouring zero-size chunk. "
        "Reproduce: da.repeat(da.from_array(np.arange(3), chunks=((0, 3),)), 2)",
}

SKIP_OPEN = os.environ.get("VERIF_C25_SKIP_OPEN", "") == "1"


def functions():
    A = da.Array
    return [A.__dask_keys__, A.to_delayed, A.compute_chunk_sizes, A.shape.func, A.dtype.fget, A.chunks.fget, A.numblocks.func,
            AC.BlockView.__getitem__, AC.normalize_chunks, AC.from_array, AC.blockwise, AC.elemwise, AC.unify_chunks, AC.common_blockdim,
            AC.broadcast_shapes, AC.concatenate, AC.stack, AC.block, AC.broadcast_to, A.__getitem__, A.__setitem__, A.reshape, A.rechunk]


# ---------------------------------------------------------------------------------------------------------------------------------- helpers

def isnan(v):
    return isinstance(v, float) and math.isnan(v)


def known(x):
    return not builtins.any(isnan(c) for cs in x.chunks for c in cs)


def known_shape(x):
    return not builtins.any(isnan(s) for s in x.shape)


def has_empty(x):
    return builtins.any(c == 0 for cs in x.chunks for c in cs)


def degenerate(x):
    """an axis of (known) length <= 1 that is cut into several chunks"""
    return builtins.any(len(cs) > 1 and not builtins.any(isnan(c) for c in cs) and builtins.sum(cs) <= 1 for cs in x.chunks)


def describe(x):
    return f"shape={x.shape} chunks={x.chunks} dtype={x.dtype}"


class Excluded(Exception):
    """the stage would enter the region of an open known finding of another property"""

    def __init__(self, name):
        super().__init__(name)
        self.region = name


def attempt(fn):
    try:
        return "ok", fn()
    except (Violation, HarnessError, Excluded):
        raise
    except Exception as ex:
        return "raised", type(ex).__name__ + ": " + str(ex)[:160].replace("\n", " ")


def quiet(fn):
    def run(e, *a):
        with warnings.catch_warnings():
            warnings.simplefilter("ignore")
            with np.errstate(all="ignore"):
                return fn(e, *a)
    return run


class Par:
    """parameters of one pipeline stage: enumerated by the solver ('full') or derived from a CRC ('lite')"""

    def __init__(self, e, tag, mode, salt):
        self.e, self.tag, self.mode, self.salt = e, tag, mode, salt
        self.used = []
        self.opened = []

    def open(self, name):
        """the stage is inside the OPEN region `name` (a defect of the unchanged tree found with this harness): the operation is still applied"""
        if name in REPAIRED_REGIONS:
            return          # repaired in /repo: an ordinary stage now
        if name not in OPEN_REGIONS:
            raise HarnessError(f"unknown open region {name}")
        self.opened.append(name)

    def choice(self, name, n):
        if n <= 1:
            v = 0
        elif self.mode == "full":
            v = self.e.choice(f"{self.tag}_{name}", n)
        else:
            v = zlib.crc32(f"{self.salt}|{name}|{n}".encode()) % n
        self.used.append(f"{name}={v}")
        return v

    def pick(self, name, seq):
        seq = list(seq)
        return seq[self.choice(name, len(seq))]

    def flag(self, name):
        return bool(self.choice(name, 2))

    def axis(self, x, name="axis"):
        return self.choice(name, x.ndim)


# ---------------------------------------------------------------------------------------------------------------------------------- inputs

def values(shape, dtype):
    n = 1
    for s in shape:
        n *= s
    v = (np.arange(n, dtype="i8") * 7 + 3) % 5
    if np.dtype(dtype).kind == "f":
        v = v * 0.5
    return v.astype(dtype).reshape(shape)


def chunking(e, tag, n, K):
    """every chunking of an axis of length n into 1..K chunks of size >= 0 (an axis of length <= 1 is kept in one chunk: the inputs themselves are
    outside the degenerate-axis region)"""
    if n <= 1:
        return (n,)
    k = 1 + e.choice(f"k{tag}", K)
    out, left = [], n
    for i in range(k - 1):
        c = e.choice(f"c{tag}_{i}", left + 1)
        out.append(c)
        left -= c
    out.append(left)
    return tuple(out)


def darr(x, chunks):
    d = da.from_array(x, chunks=chunks)
    if d.chunks != tuple(tuple(c) for c in chunks):
        raise HarnessError(f"from_array changed the chunks {chunks} -> {d.chunks}")
    return d


# ---------------------------------------------------------------------------------------------------------------------------------- the table
#
# an operation: fn(p, x) -> Array | tuple of Arrays; ok(x) -> applicable?; excl(p-less predicate) is evaluated inside fn through `Excluded`

class Op:
    def __init__(self, name, fam, fn, ok=None, producer=False, consumer=False):
        self.name, self.fam, self.fn = name, fam, fn
        self.ok = ok or (lambda x: True)
        self.producer, self.consumer = producer, consumer


OPS = []


def op(name, fam, ok=None, producer=False, consumer=False):
    def deco(fn):
        OPS.append(Op(name, fam, fn, ok, producer, consumer))
        return fn
    return deco


def K(x):
    return known(x)


def nonempty_axes(x):
    return [a for a in range(x.ndim) if x.shape[a] >= 1]


def is_int(x):
    return x.dtype.kind in "iu"


def is_num(x):
    return x.dtype.kind in "iuf"


# -- elementwise / broadcasting (C19) ------------------------------------------------------------------------------------------------

@op("add_bcast", "elem", ok=lambda x: K(x) and x.ndim >= 1 and is_num(x), consumer=True)
def _add_bcast(p, x):
    """x + y with y of the trailing axis' length, chunked like x / in one chunk / in chunks of 1 (unify_chunks has to refine)"""
    n = x.shape[-1]
    how = p.choice("ychunks", 3 if n > 1 else 1)
    ch = (x.chunks[-1], (n,), (1,) * n)[how]
    y = darr(values((n,), "i8") + 1, (ch,))
    return x + y


@op("plus_ynone", "elem", ok=lambda x: K(x) and x.ndim >= 1 and is_num(x))
def _plus_ynone(p, x):
    """x + y[None] with y a reduction of x over its first axis"""
    y = x.sum(axis=0) if p.flag("sum") else x.mean(axis=0)
    return x + y[None]


@op("outer", "elem", ok=lambda x: K(x) and x.ndim == 1 and is_num(x), producer=True)
def _outer(p, x):
    return x[:, None] * x[None, :]


def _negstep_lost(cs):
    """x[::-1] along an axis whose last element sits alone in its chunk, directly behind a zero-size chunk: dask returns an EMPTY result"""
    ne = [i for i, c in enumerate(cs) if c > 0]
    return bool(ne) and cs[ne[-1]] == 1 and ne[-1] >= 1 and cs[ne[-1] - 1] == 0 and len(ne) >= 2


@op("add_rev", "elem", ok=lambda x: K(x) and x.ndim >= 1 and is_num(x), consumer=True)
def _add_rev(p, x):
    """x + x[::-1] along one axis: two different chunkings of the same axis are unified"""
    a = p.axis(x)
    ind = (slice(None),) * a + (slice(None, None, -1),)
    if _negstep_lost(x.chunks[a]):
        p.open("negstep_slice_after_empty_chunk")
    return x + x[ind]


@op("where", "elem", ok=lambda x: K(x) and is_num(x), consumer=True)
def _where(p, x):
    how = p.choice("form", 3 if x.ndim else 2)
    if how == 0:
        return da.where(x > 2, x, -x)
    if how == 1:
        return da.where(x > 2, x, 0.5)
    return da.where(x % 2 == 0, x, x[..., :1])


@op("astype", "elem", consumer=True)
def _astype(p, x):
    return x.astype(p.pick("dtype", ("f4", "i2", "bool", "c8")))


@op("clip", "elem", ok=is_num)
def _clip(p, x):
    return da.clip(x, 1, 3) if p.flag("both") else x.clip(min=1)


@op("ufunc", "elem", ok=is_num, consumer=True)
def _ufunc(p, x):
    how = p.choice("fn", 8)
    if how == 0:
        return x / 2
    if how == 1:
        return x // 2
    if how == 2:
        return x > 2
    if how == 3:
        return -x
    if how == 4:
        return da.sqrt(abs(x))
    if how == 5:
        return x ** 2
    if how == 6:
        return da.isfinite(x)
    return da.maximum(x, 2.5)


@op("map_blocks", "elem")
def _map_blocks(p, x):
    return x.map_blocks(lambda b: b * 2) if p.flag("plain") else da.map_blocks(lambda b: b.astype("f8"), x, dtype="f8")


# -- indexing (C20) --------------------------------------------------------------------------------------------------------------------

SLICES = (slice(None, None, -1), slice(None, None, 2), slice(1, None), slice(None, -1), slice(-1, None, -2), slice(0, 0), slice(1, 3), slice(-2, 0, -1))


def _on_axis(x, a, item):
    return (slice(None),) * a + (item,)


@op("slice", "index", ok=lambda x: K(x) and x.ndim >= 1, producer=True, consumer=True)
def _slice(p, x):
    a = p.axis(x)
    return x[_on_axis(x, a, p.pick("slice", SLICES))]


@op("slice2", "index", ok=lambda x: K(x) and x.ndim >= 2)
def _slice2(p, x):
    return x[p.pick("s0", SLICES), ..., p.pick("s1", SLICES)]


@op("int", "index", ok=lambda x: K(x) and len(nonempty_axes(x)) >= 1)
def _int(p, x):
    a = p.pick("axis", nonempty_axes(x))
    return x[_on_axis(x, a, p.pick("i", (0, -1)))]


@op("newaxis", "index", ok=lambda x: x.ndim <= 2, consumer=True)
def _newaxis(p, x):
    how = p.choice("pos", 3 if x.ndim else 1)
    if how == 0:
        return x[None]
    if how == 1:
        return x[..., None]
    return x[:, None]


@op("list", "index", ok=lambda x: K(x) and x.ndim >= 1, producer=True)
def _list(p, x):
    a = p.axis(x)
    n = x.shape[a]
    forms = [np.zeros(0, dtype="i8")]
    if n >= 1:
        forms += [[n - 1, 0, 0], [0, n - 1], np.array([n - 1, n // 2, 0, n - 1])]
    return x[_on_axis(x, a, p.pick("idx", forms))]


def _mask(n, pattern):
    if pattern == 0:
        return np.arange(n) % 2 == 0
    if pattern == 1:
        return np.zeros(n, dtype=bool)
    if pattern == 2:
        return np.ones(n, dtype=bool)
    return np.arange(n) % 3 == 1


@op("boolmask", "index", ok=lambda x: K(x) and x.ndim >= 1, producer=True)
def _boolmask(p, x):
    """x[NumPy boolean mask along one axis]: known chunks, zero-size chunks appear"""
    a = p.axis(x)
    return x[_on_axis(x, a, _mask(x.shape[a], p.choice("pattern", 4)))]


@op("boolmask_dask", "index", ok=lambda x: K(x) and x.ndim >= 1, producer=True)
def _boolmask_dask(p, x):
    """x[dask boolean mask along one axis]: unknown chunks; optionally compute_chunk_sizes()"""
    a = p.axis(x)
    n = x.shape[a]
    m = darr(_mask(n, p.choice("pattern", 4)), (x.chunks[a],))
    r = x[_on_axis(x, a, m)]
    if p.flag("compute_chunk_sizes"):
        r.compute_chunk_sizes()
    return r


@op("gt", "index", ok=lambda x: K(x) and x.ndim >= 1 and is_num(x), producer=True)
def _gt(p, x):
    """x[x > k]: unknown chunk sizes (flattened for n-d); optionally compute_chunk_sizes()"""
    k = p.pick("k", (-1, 1, 9))
    r = x[x > k]
    if p.flag("compute_chunk_sizes"):
        r.compute_chunk_sizes()
    return r


@op("mask_nd", "index", ok=lambda x: K(x) and x.ndim >= 2)
def _mask_nd(p, x):
    n = 1
    for s in x.shape:
        n *= s
    return x[_mask(n, p.choice("pattern", 4)).reshape(x.shape)]


@op("vindex", "index", ok=lambda x: K(x) and x.ndim >= 2 and x.shape[0] >= 1 and x.shape[1] >= 1)
def _vindex(p, x):
    i = [0, x.shape[0] - 1, 0]
    j = [x.shape[1] - 1, 0, 0]
    return x.vindex[i, j] if p.flag("plain") else x.vindex[i, j[::-1]]


@op("take", "index", ok=lambda x: K(x) and len(nonempty_axes(x)) >= 1)
def _take(p, x):
    a = p.pick("axis", nonempty_axes(x))
    n = x.shape[a]
    return da.take(x, [n - 1, 0, n // 2], axis=a)


# -- item assignment (C21) --------------------------------------------------------------------------------------------------------------

@op("setitem", "setitem", ok=lambda x: K(x) and x.ndim >= 1 and is_num(x), consumer=True)
def _setitem(p, x):
    y = x + 0
    forms = ["step", "tail", "mask", "empty", "float"]
    if x.shape[0] >= 1:
        forms += ["int", "list", "dask"]
    if x.shape[0] >= 2 and x.ndim >= 2:
        forms += ["row"]
    how = p.pick("form", forms)
    if how == "step":
        y[::2] = -1
    elif how == "tail":
        y[..., 1:] = 3
    elif how == "mask":
        y[y > 2] = 0
    elif how == "empty":
        y[0:0] = 1
    elif how == "float":
        y[..., :1] = 0.5
    elif how == "int":
        y[0] = 7
    elif how == "list":
        y[[0, x.shape[0] - 1]] = 5
    elif how == "dask":
        y[:1] = y[-1:]
    else:
        y[1:] = np.arange(x.shape[-1])
    return y


# -- reductions and scans (C22) -----------------------------------------------------------------------------------------------------------

def _axes_choices(x):
    out = [None]
    if x.ndim >= 1:
        out += [0, -1]
    if x.ndim >= 2:
        out += [(0, 1)]
    if x.ndim >= 3:
        out += [(0, 2), 1]
    return out


def _reduced_axes(x, axis):
    if axis is None:
        return tuple(range(x.ndim))
    if isinstance(axis, int):
        return (axis % x.ndim,)
    return tuple(a % x.ndim for a in axis)


@op("reduce", "reduce", ok=lambda x: is_num(x) or x.dtype.kind == "b", consumer=True)
def _reduce(p, x):
    """sum / mean / var / any / prod / std / nansum: defined on empty extents; work with unknown chunk sizes"""
    f = p.pick("fn", ("sum", "mean", "var", "any", "prod", "std", "nansum", "all"))
    axis = p.pick("axis", _axes_choices(x))
    kw = dict(axis=axis, keepdims=p.flag("keepdims"), split_every=p.pick("split_every", (None, 2, 3)))
    return getattr(da, f)(x, **kw)


@op("minmax", "reduce", ok=lambda x: K(x) and is_num(x), consumer=True)
def _minmax(p, x):
    f = p.pick("fn", ("max", "min", "nanmax"))
    axes = [ax for ax in _axes_choices(x) if builtins.all(x.shape[a] >= 1 for a in _reduced_axes(x, ax))]
    if not axes:
        raise Excluded("__na__")
    axis = p.pick("axis", axes)
    kw = dict(axis=axis, keepdims=p.flag("keepdims"), split_every=p.pick("split_every", (None, 2)))
    if x.ndim >= 2 and has_empty(x):
        raise Excluded("minmax_empty_nd")
    return getattr(da, f)(x, **kw)


@op("argred", "reduce", ok=lambda x: K(x) and is_num(x) and x.ndim >= 1)
def _argred(p, x):
    f = p.pick("fn", ("argmax", "argmin", "nanargmax"))
    axes = [ax for ax in (None, 0, -1) if builtins.all(x.shape[a] >= 1 for a in _reduced_axes(x, ax))]
    if not axes:
        raise Excluded("__na__")
    axis = p.pick("axis", axes)
    kw = dict(axis=axis, split_every=p.pick("split_every", (None, 2)))
    if p.flag("keepdims"):
        kw["keepdims"] = True
    if (has_empty(x) if (axis is None or x.ndim == 1) else 0 in x.chunks[axis % x.ndim]):
        raise Excluded("arg_empty")
    return getattr(da, f)(x, **kw)


def _cum_empty_region(cs):
    return builtins.any(cs[i] == 0 and builtins.any(v > 0 for v in cs[i + 1:]) for i in range(len(cs)))


@op("cum", "reduce", ok=lambda x: K(x) and is_num(x) and x.ndim >= 1, consumer=True)
def _cum(p, x):
    f = p.pick("fn", ("cumsum", "cumprod", "nancumsum"))
    axis = p.pick("axis", (None, 0, -1))
    method = p.pick("method", ("sequential", "blelloch"))
    if axis is None and x.ndim > 1:
        if degenerate(x):
            raise Excluded("deg_axis")
        scanned = x.flatten().chunks[0]          # (only used to NAME the region: cumsum(axis=None) scans the flattened array)
    else:
        scanned = x.chunks[0 if axis is None else axis % x.ndim]
    if method == "sequential" and _cum_empty_region(scanned):
        raise Excluded("cum_empty")
    dt = p.pick("dtype", (None, "f4", "i8", "f8"))      # an explicit dtype= (narrower / other kind than the input's) must be the dtype of every block
    if dt is None:
        return getattr(da, f)(x, axis=axis, method=method)
    return getattr(da, f)(x, axis=axis, method=method, dtype=dt)


@op("out_arg", "elem", ok=lambda x: K(x) and x.ndim >= 1 and is_num(x) and x.shape[0] >= 2)
def _out_arg(p, x):
    """ufunc / reduction with out=<dask array> whose chunks differ from the result's (same shape; same OR different number of blocks): afterwards
    `out` must describe the blocks it now holds"""
    n = x.shape[0]
    layouts = [c for c in ((n,), (1, n - 1), (n - 1, 1), (n - 2, 2) if n > 2 else None, (1,) * n) if c is not None]
    ch0 = layouts[p.choice("out_chunks", len(layouts))]
    o = darr(values(x.shape, "f8"), (ch0,) + tuple(x.chunks[1:]))
    which = p.pick("call", ("add", "negative", "cumsum"))
    if which == "add":
        da.add(x, 1, out=o)
    elif which == "negative":
        np.negative(x, out=o)
    else:
        da.cumsum(x, axis=0, out=o) if not _cum_empty_region(x.chunks[0]) else da.add(x, 2, out=o)
    return o


@op("topk", "reduce", ok=lambda x: K(x) and is_num(x) and x.ndim >= 1)
def _topk(p, x):
    axis = p.pick("axis", (0, -1))
    n = x.shape[axis]
    k = p.pick("k", (1, -2, n + 1, -n if n else -1))
    f = da.topk if p.flag("values") else da.argtopk
    return f(x, k, axis=axis, split_every=p.pick("split_every", (None, 2)))


@op("median", "reduce", ok=lambda x: K(x) and is_num(x) and x.ndim >= 1 and builtins.all(s >= 1 for s in x.shape))
def _median(p, x):
    axis = p.pick("axis", (0, -1))
    return da.median(x, axis=axis, keepdims=p.flag("keepdims"))


# -- rechunk (C23) ----------------------------------------------------------------------------------------------------------------------

@op("rechunk", "rechunk", ok=lambda x: K(x) and x.ndim >= 1, producer=True, consumer=True)
def _rechunk(p, x):
    n0 = x.shape[0]
    forms = [1, 2, -1, {0: -1}, {x.ndim - 1: 1}, (2,) * x.ndim, "auto", {0: (n0 // 2, 0, n0 - n0 // 2)}, {0: (0, n0)}]
    how = p.pick("chunks", forms)
    kw = {}
    if p.flag("balance"):
        kw["balance"] = True
        target = x.rechunk(how).chunks           # (only used to NAME the region)
        if builtins.any(int(np.median(cs)) == 0 for cs in target):
            p.open("rechunk_balance_zero_median")
    return x.rechunk(how, **kw)


# -- structural operations (C24) -----------------------------------------------------------------------------------------------------------

def _reshape_targets(shape):
    n = 1
    for s in shape:
        n *= s
    out = [(-1,), (n, 1), (1, n), (1, -1, 1)]
    if n % 2 == 0:
        out += [(2, n // 2), (n // 2, 2)]
    if len(shape) == 2:
        a, b = shape
        out += [(b, a), (a, b, 1), (a, 1, b)]
    if len(shape) == 3:
        a, b, c = shape
        out += [(a * b, c), (a, b * c), (c, b, a)]
    return out


@op("reshape", "struct", ok=lambda x: K(x) and x.ndim >= 1, producer=True, consumer=True)
def _reshape(p, x):
    if degenerate(x):
        raise Excluded("deg_axis")
    tgt = p.pick("shape", _reshape_targets(x.shape))
    try:
        if p.flag("merge_chunks"):
            return x.reshape(tgt)
        return x.reshape(tgt, merge_chunks=False)
    except NotImplementedError:
        raise Excluded("__na__")        # "Dask's reshape only supports operations that merge or split existing dimensions evenly": an honest refusal, no claim


@op("ravel", "struct", ok=lambda x: K(x), consumer=True)
def _ravel(p, x):
    return x.ravel() if p.flag("ravel") else x.flatten()


@op("transpose", "struct", ok=lambda x: x.ndim >= 2, producer=True, consumer=True)
def _transpose(p, x):
    how = p.choice("form", 4)
    if how == 0:
        return x.T
    if how == 1:
        return da.transpose(x, tuple(range(1, x.ndim)) + (0,))
    if how == 2:
        return da.swapaxes(x, 0, -1)
    return da.moveaxis(x, 0, -1)


@op("squeeze", "struct", ok=lambda x: x.ndim >= 1)
def _squeeze(p, x):
    ones = [a for a in range(x.ndim) if x.shape[a] == 1]
    if ones and p.flag("axis"):
        return x.squeeze(axis=ones[-1])
    return x.squeeze()


@op("expand_dims", "struct", ok=lambda x: K(x) and x.ndim <= 2)
def _expand_dims(p, x):
    return da.expand_dims(x, axis=p.pick("axis", (0, -1, (0, 2), x.ndim)))


@op("concatenate", "struct", ok=lambda x: K(x) and x.ndim >= 1, producer=True, consumer=True)
def _concatenate(p, x):
    a = p.axis(x)
    how = p.choice("form", 4)
    if how == 0:
        return da.concatenate([x, x], axis=a)
    if how == 1:
        return da.concatenate([x[_on_axis(x, a, slice(0, 0))], x, x[_on_axis(x, a, slice(0, 1))]], axis=a)
    if how == 2:
        return da.concatenate([x, x.rechunk(1)], axis=a)           # the other axes have to be unified
    return da.concatenate([x.rechunk(-1), x, x.rechunk(2)], axis=a)


@op("stack", "struct", ok=lambda x: K(x) and x.ndim <= 2, consumer=True)
def _stack(p, x):
    a = p.pick("axis", (0, -1, x.ndim // 2))
    return da.stack([x, x, x.rechunk(1) if x.ndim else x], axis=a) if p.flag("three") else da.stack([x, x], axis=a)


@op("block", "struct", ok=lambda x: K(x) and 1 <= x.ndim <= 2)
def _block(p, x):
    how = p.choice("form", 3)
    if how == 0:
        return da.block([x, x])
    if how == 1:
        return da.block([[x, x], [x, x]])
    return da.block([[x], [x]])


@op("broadcast_to", "struct", ok=lambda x: K(x) and x.ndim <= 2, consumer=True)
def _broadcast_to(p, x):
    how = p.choice("form", 3)
    if how == 0:
        return da.broadcast_to(x, (2,) + x.shape)
    if how == 1:
        return da.broadcast_to(x, (3,) + x.shape, chunks=((1, 2),) + x.chunks)
    ones = [a for a in range(x.ndim) if x.shape[a] == 1 and len(x.chunks[a]) == 1]
    if not ones:
        return da.broadcast_to(x, (1, 2) + x.shape)
    a = ones[0]
    return da.broadcast_to(x, x.shape[:a] + (3,) + x.shape[a + 1:])


@op("flip", "struct", ok=lambda x: x.ndim >= 1 and K(x))
def _flip(p, x):
    how = p.choice("form", 4 if x.ndim >= 2 else 2)
    if how == 0:
        return da.flip(x)
    if how == 1:
        return da.flip(x, axis=-1)
    if how == 2:
        return da.rot90(x)
    return da.rot90(x, k=2, axes=(0, x.ndim - 1))


@op("repeat", "struct", ok=lambda x: K(x) and x.ndim >= 1, producer=True)
def _repeat(p, x):
    reps, a = p.pick("repeats", (2, 3, 1, 0)), p.axis(x)
    if reps >= 2 and 0 in x.chunks[a]:
        p.open("repeat_empty_chunk")
    return da.repeat(x, reps, axis=a)


@op("tile", "struct", ok=lambda x: K(x) and 1 <= x.ndim <= 2)
def _tile(p, x):
    return da.tile(x, p.pick("reps", (2, (2, 1), (1, 2), (2, 1, 2), 1, 0)))


@op("pad", "struct", ok=lambda x: K(x) and x.ndim >= 1 and is_num(x), producer=True)
def _pad(p, x):
    modes = ["constant"]          # (mode="empty" leaves the padding uninitialised: two computations legitimately differ)
    if builtins.all(s >= 1 for s in x.shape):
        modes += ["edge", "wrap", "maximum", "linear_ramp"]
    if builtins.all(s >= 2 for s in x.shape):
        modes += ["reflect", "symmetric"]
    mode = p.pick("mode", modes)
    if mode == "maximum" and x.ndim >= 2 and has_empty(x):
        raise Excluded("minmax_empty_nd")        # the stat modes reduce with x.max(axis=...)
    width = p.pick("width", (1, 2, ((1, 0),) * x.ndim, ((0, 2),) + ((0, 0),) * (x.ndim - 1)))
    if mode in ("reflect", "symmetric", "wrap") and width == 2 and not builtins.all(s >= 3 for s in x.shape):
        width = 1
    return da.pad(x, width, mode=mode)


@op("roll", "struct", ok=lambda x: K(x) and x.ndim >= 1, consumer=True)
def _roll(p, x):
    axis = p.pick("axis", (None, 0, -1) + (((0, 1),) if x.ndim >= 2 else ()))
    shift = p.pick("shift", (1, -2, 0, 5))
    if axis is None and degenerate(x):
        raise Excluded("deg_axis")
    if isinstance(axis, tuple):
        shift = (shift, 1)
    return da.roll(x, shift, axis=axis)


@op("diff", "struct", ok=lambda x: K(x) and x.ndim >= 1 and is_num(x), consumer=True)
def _diff(p, x):
    how = p.choice("form", 4)
    a = p.pick("axis", (0, -1))
    if how == 0:
        return da.diff(x, axis=a)
    if how == 1:
        return da.diff(x, n=2, axis=a)
    if how == 2:
        return da.diff(x, n=x.shape[a] + 1, axis=a)
    return da.diff(x, axis=a, prepend=0, append=1) if x.ndim == 1 else da.diff(x, n=0, axis=a)


@op("tril", "struct", ok=lambda x: K(x) and x.ndim >= 2 and is_num(x))
def _tril(p, x):
    f = da.tril if p.flag("lower") else da.triu
    if x.chunks[-2][0] == 0 or x.chunks[-1][0] == 0:
        p.open("tri_empty_first_chunk")
    return f(x, k=p.pick("k", (0, 1, -1)))


# -- overlap (C26) -------------------------------------------------------------------------------------------------------------------------

@op("map_overlap", "overlap", ok=lambda x: K(x) and x.ndim >= 1 and is_num(x) and builtins.all(s >= 1 for s in x.shape), consumer=True)
def _map_overlap(p, x):
    b = p.pick("boundary", ("none", 0, "nearest", "periodic", "reflect"))
    depth = p.pick("depth", (1, {0: 1}, {x.ndim - 1: 1, 0: 0} if x.ndim > 1 else 2))
    if depth == 2 and not builtins.all(s >= 2 for s in x.shape):
        depth = 1
    depth = {a: (depth.get(a, 0) if isinstance(depth, dict) else depth) for a in range(x.ndim)}
    if b != "none" and not p.flag("trim"):
        # trim=False: "set this to False if your mapping function already does this for you" -- the function trims the depth itself
        cut = tuple(slice(d, -d) if d else slice(None) for a, d in sorted(depth.items()))
        return x.map_overlap(lambda blk: blk[cut] + 1, depth=depth, boundary=b, trim=False)
    return x.map_overlap(lambda blk: blk + 1, depth=depth, boundary=b, trim=True)


@op("overlap", "overlap", ok=lambda x: K(x) and x.ndim >= 1 and is_num(x), producer=True)
def _overlap(p, x):
    axes = [a for a in range(x.ndim) if builtins.min(x.chunks[a]) >= 1]
    if not axes:
        raise Excluded("__na__")
    a = p.pick("axis", axes)
    b = p.pick("boundary", ("none", 0, "nearest", "periodic", "reflect"))
    g = OV.overlap(x, depth={a: 1}, boundary={a: b})
    if p.flag("trim"):
        return OV.trim_internal(g, {a: 1}, boundary={a: b})
    return g


@op("sliding_window_view", "overlap", ok=lambda x: K(x) and builtins.any(s >= 2 for s in x.shape))
def _swv(p, x):
    axes = [a for a in range(x.ndim) if x.shape[a] >= 2]
    a = p.pick("axis", axes)
    if builtins.any(s == 0 for s in x.shape):
        p.open("swv_empty_axis")
    if len(axes) >= 2 and p.flag("two"):
        return da.lib.stride_tricks.sliding_window_view(x, (2, 2), axis=(axes[0], axes[-1]))
    w = p.pick("window", (2, 1, x.shape[a]))
    if w == 1 and 0 in x.chunks[a]:
        p.open("swv_unit_window_empty_chunk")
    return da.lib.stride_tricks.sliding_window_view(x, w, axis=a)


# -- counting / set / search routines (C27) -----------------------------------------------------------------------------------------------------

def _flattens(x):
    if x.ndim >= 2 and degenerate(x):
        raise Excluded("deg_axis")


@op("unique", "routines", ok=lambda x: K(x) and x.ndim >= 1, producer=True)
def _unique(p, x):
    _flattens(x)
    how = p.choice("form", 3)
    if how == 0:
        return da.unique(x)
    if how == 1:
        return da.unique(x, return_counts=True)
    return da.unique(x, return_index=True, return_inverse=True)


@op("bincount", "routines", ok=lambda x: K(x) and x.ndim == 1 and is_int(x) and getattr(x, "_c25_raw", False))
def _bincount(p, x):
    how = p.choice("form", 4)
    if how == 0:
        return da.bincount(x)
    if how == 1:
        return da.bincount(x, minlength=8)
    if how == 2:
        return da.bincount(x, weights=x.astype("f8"), minlength=6, split_every=2)
    if x.shape[0] >= 1:      # every non-empty input contains the value 3 > minlength - 1
        raise Excluded("bincount_minlength_too_small")
    return da.bincount(x, minlength=2)


@op("nonzero", "routines", ok=lambda x: K(x) and x.ndim >= 1, producer=True)
def _nonzero(p, x):
    _flattens(x)
    how = p.choice("form", 4)
    if how == 0:
        return da.nonzero(x)
    if how == 1:
        return da.argwhere(x)
    if how == 2:
        return da.flatnonzero(x)
    return da.count_nonzero(x, axis=p.pick("axis", (None, 0, -1)))


@op("coarsen", "routines", ok=lambda x: K(x) and x.ndim >= 1 and is_num(x))
def _coarsen(p, x):
    a = p.axis(x)
    k = p.pick("factor", (2, 3, 1))
    axes = {a: k}
    if x.ndim >= 2 and p.flag("two"):
        axes = {0: 2, x.ndim - 1: k}
    if x.ndim >= 2 and builtins.any(x.shape[i] == 0 for i in axes):
        p.open("coarsen_empty_axis_nd")
    return da.coarsen(np.sum, x, axes, trim_excess=True)


@op("histogram", "routines", ok=lambda x: K(x) and is_num(x))
def _histogram(p, x):
    how = p.choice("form", 3)
    if how == 0:
        h, edges = da.histogram(x, bins=3, range=(0, 6))
    elif how == 1:
        h, edges = da.histogram(x, bins=np.array([0, 2, 5]))
    else:
        h, edges = da.histogram(x, bins=2, range=(0, 4), weights=x)
    return (h, edges) if isinstance(edges, da.Array) else h


@op("search", "routines", ok=lambda x: K(x) and is_num(x) and x.ndim >= 1)
def _search(p, x):
    how = p.choice("form", 3)
    if how == 0:
        return da.digitize(x, np.array([1, 3]))
    if how == 1:
        return da.isin(x, [1, 2])
    if x.ndim >= 2 and has_empty(x):
        raise Excluded("minmax_empty_nd")        # searchsorted combines the per-block results with out.max(axis=0)
    a = darr(np.array([0, 1, 1, 3, 4]), ((2, 0, 3),))
    return da.searchsorted(a, x.astype("i8"))


@op("compress", "routines", ok=lambda x: K(x) and x.ndim >= 1 and is_num(x))
def _compress(p, x):
    how = p.choice("form", 3)
    if how == 0:
        a = p.axis(x)
        return da.compress(_mask(x.shape[a], p.choice("pattern", 4)), x, axis=a)
    _flattens(x)
    if how == 1:
        return da.extract(x > 2, x)
    n = 1
    for s in x.shape:
        n *= s
    return da.compress(_mask(n, 0), x)


OPS_BY_NAME = {o.name: o for o in OPS}
FAMILIES = ("elem", "index", "setitem", "reduce", "rechunk", "struct", "overlap", "routines")


# ---------------------------------------------------------------------------------------------------------------------------------- pipeline

class Pipe:
    """result of building a pipeline: the arrays to check, a label, the regions hit, a build error"""

    def __init__(self):
        self.results = []
        self.label = ""
        self.regions = {}
        self.error = None
        self.stopped = False


def applicable(x, names):
    return [n for n in names if OPS_BY_NAME[n].ok(x)]


def main_of(r):
    return r[-1] if isinstance(r, tuple) else r


def apply_stage(e, pipe, x, stage, names, mode, draws):
    """pick (solver) an applicable operation for `x`, apply it; returns the result or None when the pipeline ends here"""
    names = applicable(x, names)
    if not names:
        e.assume(False)            # no operation of this stage's table applies (e.g. every one needs known chunk sizes)
    name = e.pick(f"op{stage}", names)
    o = OPS_BY_NAME[name]
    draw = e.choice(f"draw{stage}", draws) if mode == "lite" else 0
    p = Par(e, f"s{stage}", mode, f"{name}|{x.chunks}|{x.dtype}|{draw}")
    pre = describe(x)
    if degenerate(x):
        # the OPERAND has a degenerate axis cut into several chunks: open findings of C19 / C24 / C27 (broadcasting, ravel, reshape)
        pipe.regions["deg_axis"] = 1
        pipe.label += f" -> [{name}: excluded, operand {pre} is in the region deg_axis]"
        return None
    try:
        st, r = attempt(lambda: o.fn(p, x))
    except Excluded as ex:
        if ex.region == "__na__":
            e.assume(False)        # the operation has no valid parameters for this operand
        pipe.regions[ex.region] = 1
        pipe.label += f" -> [{name}({', '.join(p.used)}): excluded, region {ex.region}]"
        return None
    pipe.label += f" -> {name}({', '.join(p.used)})"
    for reg in p.opened:
        pipe.regions[reg] = 1
        pipe.label += f" [open region {reg}]"
    if st == "raised":
        pipe.error = f"{pipe.label} raises {r} [operand: {pre}]"
        return None
    for part in (r if isinstance(r, tuple) else (r,)):
        if not isinstance(part, da.Array):
            raise HarnessError(f"{pipe.label}: not an Array: {type(part)}")
    return r


def build(e, x, stages):
    """stages: list of (op names, mode, draws)"""
    pipe = Pipe()
    pipe.label = f"from_array({describe(x)})"
    cur = x
    r = None
    for i, (names, mode, draws) in enumerate(stages, 1):
        r = apply_stage(e, pipe, cur, i, names, mode, draws)
        if r is None:
            break
        cur = main_of(r)
    if r is not None:
        pipe.results = list(r) if isinstance(r, tuple) else [r]
    # model variables naming the excluded regions and the open regions
    for name in EXCLUDED + tuple(OPEN_REGIONS):
        f = e.int(name, 0, 1)
        v = 1 if pipe.regions.get(name) else 0
        e.assume(lambda: f == v)
    return pipe


# ---------------------------------------------------------------------------------------------------------------------------------- the assertion

def _assemble(nested, ndim, axis=0):
    """the blocks placed by their block index: concatenate the innermost lists along the last axis, and so on outwards"""
    if ndim == 0:
        return np.asanyarray(nested[0])
    if axis == ndim - 1:
        return np.concatenate([np.asanyarray(b) for b in nested], axis=axis)
    return np.concatenate([_assemble(n, ndim, axis + 1) for n in nested], axis=axis)


def _same(a, b):
    a, b = np.asanyarray(a), np.asanyarray(b)
    if a.shape != b.shape or a.dtype != b.dtype:
        return False
    return bool(np.array_equal(a, b, equal_nan=a.dtype.kind in "fc"))


def _nested_get(nested, idx):
    for i in idx:
        nested = nested[i]
    return nested


def _expected_keys(name, numblocks, prefix=()):
    if not numblocks:
        return [(name,)]
    if len(prefix) + 1 == len(numblocks):
        return [(name,) + prefix + (i,) for i in range(numblocks[len(prefix)])]
    return [_expected_keys(name, numblocks, prefix + (i,)) for i in range(numblocks[len(prefix)])]


def check_meta(e, r, label, every_block=True):
    """exactly the statement of C25 for the array r"""
    shape, chunks, dtype, numblocks, ndim = tuple(r.shape), r.chunks, r.dtype, tuple(r.numblocks), r.ndim
    lab = f"{label} [declared shape={shape} chunks={chunks} dtype={dtype}]"
    e.check(len(shape) == ndim == len(chunks) and numblocks == tuple(len(c) for c in chunks), f"{lab}: inconsistent declaration (ndim / numblocks)")
    e.check(builtins.all(isnan(c) or (isinstance(c, (int, np.integer)) and c >= 0) for cs in chunks for c in cs), f"{lab}: a declared chunk size is negative or not an integer")

    # (1) the computed result
    st, val = attempt(lambda: r.compute(scheduler="sync"))
    e.check(st == "ok", f"{lab}: compute() raises {val}")
    v = np.asanyarray(val)
    e.check(v.ndim == ndim, f"{lab}: computed result has {v.ndim} dimensions (shape {v.shape})")
    e.check(builtins.all(isnan(s) or v.shape[a] == s for a, s in enumerate(shape)), f"{lab}: computed result has shape {v.shape}")
    e.check(v.dtype == dtype, f"{lab}: computed result has dtype {v.dtype}")

    # (2) the blocks behind the raw keys
    keys = r.__dask_keys__()
    e.check(keys == _expected_keys(r.name, numblocks), f"{lab}: __dask_keys__() is not the nested list of (name, *block index) over numblocks {numblocks}")
    st, nested = attempt(lambda: dask.get(r.__dask_graph__(), keys))
    e.check(st == "ok", f"{lab}: computing the raw block keys raises {nested}")
    idxs = list(itertools.product(*[range(n) for n in numblocks]))
    for idx in idxs:
        b = np.asanyarray(_nested_get(nested, idx + (0,) if not ndim else idx))
        want = tuple(chunks[a][i] for a, i in enumerate(idx))
        e.check(b.ndim == ndim and builtins.all(isnan(w) or b.shape[a] == w for a, w in enumerate(want)),
                f"{lab}: block {idx} has shape {b.shape}, chunks declare {want}")
        e.check(b.dtype == dtype, f"{lab}: block {idx} has dtype {b.dtype}")

    # (3) reassembly
    st, whole = attempt(lambda: _assemble(nested, ndim))
    e.check(st == "ok", f"{lab}: the blocks do not fit together: {whole}")
    e.check(_same(whole, v), f"{lab}: the blocks placed by their block index give {np.asanyarray(whole).tolist()!r} (shape {np.shape(whole)}), "
                             f"compute() gives {v.tolist()!r} (shape {v.shape})")

    # (4) every block computed separately: to_delayed() and .blocks
    st, dl = attempt(lambda: r.to_delayed())
    e.check(st == "ok", f"{lab}: to_delayed() raises {dl}")
    e.check(tuple(dl.shape) == numblocks, f"{lab}: to_delayed() has shape {dl.shape}, numblocks is {numblocks}")
    for idx in idxs:
        st, b = attempt(lambda: dl[idx].compute(scheduler="sync"))
        e.check(st == "ok", f"{lab}: computing the delayed block {idx} raises {b}")
        raw = _nested_get(nested, idx + (0,) if not ndim else idx)
        e.check(_same(b, raw), f"{lab}: delayed block {idx} is {np.asanyarray(b).tolist()!r} (shape {np.shape(b)}, dtype {np.asanyarray(b).dtype}), the block of "
                               f"the raw key is {np.asanyarray(raw).tolist()!r} (shape {np.shape(raw)}, dtype {np.asanyarray(raw).dtype})")
    if ndim:
        sub = idxs if every_block or len(idxs) <= 2 else [idxs[0], idxs[-1]]
        for idx in sub:
            st, b = attempt(lambda: r.blocks[idx].compute(scheduler="sync"))
            e.check(st == "ok", f"{lab}: .blocks[{idx}].compute() raises {b}")
            raw = _nested_get(nested, idx)
            e.check(_same(b, raw), f"{lab}: .blocks[{idx}] computes to {np.asanyarray(b).tolist()!r} (shape {np.shape(b)}, dtype {np.asanyarray(b).dtype}), the block of "
                                   f"the raw key is {np.asanyarray(raw).tolist()!r} (shape {np.shape(raw)}, dtype {np.asanyarray(raw).dtype})")
    return [repr(shape), repr(chunks), str(dtype), repr(v.shape)]


# ---------------------------------------------------------------------------------------------------------------------------------- obligations

def run_pipe(e, pipe, every_block):
    if pipe.regions and not builtins.any(pipe.regions.get(n) for n in OPEN_REGIONS):
        return ["excluded", sorted(pipe.regions)]
    in_open = sorted(n for n in OPEN_REGIONS if pipe.regions.get(n))
    if in_open and SKIP_OPEN:
        return ["open region skipped", in_open]
    if pipe.error is not None:
        e.check(False, pipe.error)
    out = [pipe.label]
    for i, r in enumerate(pipe.results):
        out.append(check_meta(e, r, pipe.label + (f" [result {i}]" if len(pipe.results) > 1 else ""), every_block))
    return out


def _pick_dtype(e, dtypes, key):
    """dtypes a tuple: enumerated by the solver; a list: ONE of them, chosen by a CRC of the input's shape and chunks (a reproducible sample)"""
    if isinstance(dtypes, tuple):
        return e.pick("dtype", dtypes)
    return dtypes[zlib.crc32(repr(key).encode()) % len(dtypes)]


def declare_input(e, shapes, Kmax, dtypes):
    shape = e.pick("shape", shapes)
    kk = Kmax.get(shape, Kmax.get(len(shape), 2)) if isinstance(Kmax, dict) else Kmax
    chunks = tuple(chunking(e, f"a{a}", n, kk) for a, n in enumerate(shape))
    dtype = _pick_dtype(e, dtypes, (shape, chunks))
    x = darr(values(shape, dtype), chunks)
    x._c25_raw = True
    return x


def fixed_input(e, inputs, dtypes):
    shape, chunks = e.pick("input", inputs)
    dtype = _pick_dtype(e, dtypes, (shape, chunks))
    x = darr(values(shape, dtype), chunks)
    x._c25_raw = True
    return x


def mk_enum(name, shapes, Kmax, dtypes, stages, every_block=True):
    def setup(e):
        x = declare_input(e, shapes, Kmax, dtypes)
        return (build(e, x, stages),)

    def run(e, pipe):
        return run_pipe(e, pipe, every_block)

    return Obligation(name, quiet(setup), quiet(run))


def mk_fixed(name, inputs, dtypes, stages, every_block=True):
    def setup(e):
        x = fixed_input(e, inputs, dtypes)
        return (build(e, x, stages),)

    def run(e, pipe):
        return run_pipe(e, pipe, every_block)

    return Obligation(name, quiet(setup), quiet(run))


def names_of(fam=None, producer=None, consumer=None):
    out = []
    for o in OPS:
        if fam is not None and o.fam not in (fam if isinstance(fam, tuple) else (fam,)):
            continue
        if producer and not o.producer:
            continue
        if consumer and not o.consumer:
            continue
        out.append(o.name)
    return out


ALL = names_of()
PRODUCERS = names_of(producer=True)
CONSUMERS = names_of(consumer=True)

IN_1D_A = ((4,), ((1, 0, 3),))
IN_1D_B = ((4,), ((2, 2),))
IN_1D_C = ((3,), ((3,),))
IN_1D_D = ((5,), ((2, 1, 1, 1),))
IN_1D_E = ((3,), ((0, 2, 1, 0),))
IN_2D_A = ((3, 3), ((2, 1), (1, 2)))
IN_2D_B = ((3, 2), ((3,), (0, 2)))
IN_2D_C = ((2, 4), ((1, 1), (2, 2)))
IN_2D_D = ((1, 3), ((1,), (1, 1, 1)))
IN_3D_A = ((2, 1, 2), ((1, 1), (1,), (2,)))
IN_3D_B = ((2, 2, 3), ((2,), (1, 1), (2, 1)))
IN_3D_C = ((2, 1, 2), ((0, 2), (1,), (1, 1)))
IN_3D_D = ((0, 2, 2), ((0,), (1, 1), (2,)))


STRONG = ("boolmask", "boolmask_dask", "gt", "pad", "concatenate", "rechunk", "reshape", "slice")
LATE = ("add_bcast", "add_rev", "where", "slice", "setitem", "reduce", "cum", "rechunk", "reshape", "ravel", "concatenate", "stack", "roll", "map_overlap")


def obligations(tier):
    q = tier == "quick"
    obs = []
    sh1 = [(0,), (1,), (2,), (3,), (4,)]
    if q:
        for fam in FAMILIES:
            obs.append(mk_enum(f"single[{fam},1-d,n<=4,chunks<=3,lite]", sh1, 3, ["i8", "f4"], [(names_of(fam), "lite", 1)], every_block=False))
        obs.append(mk_enum("single[all,2-d,chunks<=2,lite]", [(2, 3), (0, 2)], 2, ["i8", "f4"], [(ALL, "lite", 1)], every_block=False))
        obs.append(mk_fixed("single[all,3-d,4 inputs,lite]", [IN_3D_A, IN_3D_B, IN_3D_C, IN_3D_D], ["i8", "f4"], [(ALL, "lite", 1)], every_block=False))
        for fam in ("index", "struct"):
            obs.append(mk_fixed(f"single[{fam},2 inputs,full parameters]", [IN_1D_A, IN_2D_A], ("i8",), [(names_of(fam), "full", 1)], every_block=False))
        obs.append(mk_fixed("pairs[producer->all,2 inputs]", [IN_1D_A, IN_2D_A], ("i8",), [(PRODUCERS, "lite", 1), (ALL, "lite", 1)], every_block=False))
        obs.append(mk_fixed("triples[strong->producer->late,1 input]", [IN_1D_A], ("i8",),
                            [(STRONG, "lite", 1), (PRODUCERS, "lite", 1), (LATE, "lite", 1)], every_block=False))
    else:
        full_in = [IN_1D_A, IN_1D_B, IN_1D_C, IN_1D_E, IN_2D_A, IN_2D_B, IN_2D_C, IN_3D_A]
        for fam in FAMILIES:
            obs.append(mk_fixed(f"single[{fam},8 inputs,full parameters]", full_in, ["i8", "f4"], [(names_of(fam), "full", 1)]))
            obs.append(mk_enum(f"single[{fam},1-d,n<=5,chunks<=4,lite]", sh1 + [(5,)], 4, ["i8", "f4", "i2", "bool"], [(names_of(fam), "lite", 1)]))
            obs.append(mk_enum(f"single[{fam},2-d,chunks<=3,lite]", [(2, 3), (3, 2), (3, 1), (0, 2), (2, 0), (4, 4)], {2: 2, (3, 1): 3, (0, 2): 3, (2, 0): 3},
                               ["i8", "f4", "i2", "bool"], [(names_of(fam), "lite", 1)]))
            obs.append(mk_enum(f"single[{fam},3-d,chunks<=2,lite]", [(2, 1, 2), (0, 2, 2)], 2, ["i8", "f4"], [(names_of(fam), "lite", 1)]))
        obs.append(mk_fixed("single[all,3-d,4 inputs,lite x2]", [IN_3D_A, IN_3D_B, IN_3D_C, IN_3D_D], ("i8", "f4"), [(ALL, "lite", 2)]))
        obs.append(mk_fixed("pairs[all->all,3 inputs]", [IN_1D_A, IN_2D_A, IN_3D_B], ["i8", "f4"], [(ALL, "lite", 1), (ALL, "lite", 1)], every_block=False))
        obs.append(mk_fixed("pairs[producer->all,4 inputs,2 draws]", [IN_1D_B, IN_1D_D, IN_2D_B, IN_2D_D], ["i8", "f4"],
                            [(PRODUCERS, "lite", 1), (ALL, "lite", 2)], every_block=False))
        obs.append(mk_fixed("triples[producer->producer->late,1 input]", [IN_2D_A], ("i8",),
                            [(PRODUCERS, "lite", 1), (PRODUCERS, "lite", 1), (LATE, "lite", 1)], every_block=False))
        obs.append(mk_fixed("triples[strong->strong->all,1 input]", [IN_1D_A], ("i8",),
                            [(STRONG, "lite", 1), (STRONG, "lite", 1), (ALL, "lite", 1)], every_block=False))
    return obs
