"""C23 -- chunk normalisation and rechunking are exact"""
from __future__ import annotations

import math

import numpy as np

from symx.core import Violation, HarnessError, SInt, SRatio
from symx.patch import patched, math_shim, ModuleShim, INT_SHIM, _isnan
from symx.run import Obligation

import dask.array.core as AC
import dask.array as da

R = __import__("sys").modules["dask.array.rechunk"]

PROPERTY = "C23"
LEVEL = "other"
BUDGET = {"quick": 150, "thorough": 1500}
PATH_TIMEOUT_S = 60      # the planners are instant; a path that takes this long is a hang
EXPLANATION = (
    "Bounded symbolic execution of the chunk arithmetic kernels. normalize_chunks / blockdims_from_blockshape / "
    "_convert_int_chunk_to_tuple with symbolic shape dims and chunk sizes for every chunk-spec kind (int, per-axis ints, explicit "
    "tuples, -1/None, dict): every returned dimension has only positive sizes (or is the single (0,)) and sums to the shape. "
    "old_to_new / _intersect_1d / _breakpoints with symbolic old and new chunk tuples and a symbolic probe position: the "
    "(old block, slice) pieces listed for the probe's new chunk, concatenated in order, address exactly the probe's global "
    "position, piece lengths add up to the new chunk, slices lie inside their old block. divide_to_width / merge_to_number with "
    "symbolic widths: sums preserved, bounds respected, merges only adjacent. plan_rechunk: every stage adds up to the shape "
    "and the last stage is the target. auto chunks (one auto dimension): block bytes within the limit whenever the fixed "
    "dimensions alone fit. Path trees exhausted; per-path native replay; e2e x.rechunk(...) against NumPy.")
ASSUMPTIONS = [
    "module globals of dask.array.core / dask.array.rechunk are shimmed for the symbolic run only: int -> ShimInt, math.isnan/np.isnan accept SInt "
    "(chunk sizes are never NaN here: unknown chunk sizes are outside the claim), np.ceil accepts the exact-ratio proxy",
    "auto_chunks and plan_rechunk compute in floats (limit/itemsize/largest_block, np.log ratios): their integer inputs are concretised "
    "(solver-enumerated) and CPython/NumPy IEEE arithmetic is used, so for these two the solver contributes bounded exhaustive enumeration only",
    "int/int true divisions whose operands are provably < 2**53 are kept as exact rationals (see DESIGN.md lemma), validated natively per path",
]
STUBS = ["dask.array.core.{int,math,np} and dask.array.rechunk.{int,math,np} shims (isnan, ceil)"]
ENUM = ["chunk-spec kind, number of chunks", "all inputs of auto_chunks and most of plan_rechunk (float arithmetic concretises them)"]
OUTSIDE = ["auto_chunks with previous_chunks / >= 2 auto dimensions beyond the solver-enumerated cases of auto_previous_chunks[...] (fractional powers, np.median: no symbolic claim)", "byte-string limits", "p2p rechunk (needs distributed)",
           "unknown (NaN) chunk sizes", "_balance_chunksizes"]
BOUNDS = {
    "quick": dict(normalize="ndim<=2, dim in [0,8], chunk in [1,9]", old_to_new="<=3 old x <=3 new chunks, sizes >= 0 unbounded above", divide_to_width="<=2 chunks in [1,12], width in [1,12]",
                  plan="2-d, <=2x3 chunks of size [1,3], threshold in {1,2}, block_size_limit in [1,8] elements", auto="dim [0,8], limit [1,32], itemsize {1,2,4,8}"),
    "thorough": dict(normalize="ndim<=2, dim in [0,12], chunk in [1,13]", old_to_new="<=4 old x <=4 new chunks", divide_to_width="<=3 chunks in [1,20]",
                     plan="2-d, <=3x3 chunks of size [1,3]", auto="dim [0,12], limit [1,64]"),
}


def functions():
    return [AC.normalize_chunks, AC.blockdims_from_blockshape, AC._convert_int_chunk_to_tuple, AC.auto_chunks, AC.round_to,
            R.old_to_new, R._intersect_1d, R._breakpoints, R.cumdims_label, R.intersect_chunks, R.divide_to_width, R.merge_to_number,
            R.find_merge_rechunk, R.find_split_rechunk, R.plan_rechunk, R.estimate_graph_size]


def _np_shim():
    def ceil(x):
        if isinstance(x, (SInt, SRatio)):
            return math.ceil(x)
        return np.ceil(x)
    def log(x):
        return np.log(float(x) if isinstance(x, (SInt, SRatio)) else x)
    return ModuleShim(np, isnan=_isnan(np.isnan), ceil=ceil, log=log)


def _patches():
    ms = math_shim()
    nps = _np_shim()
    return patched((AC, "int", INT_SHIM), (AC, "math", ms), (AC, "np", nps),
                   (R, "int", INT_SHIM), (R, "math", ms), (R, "np", nps))


def check_dim(e, out, s, tag):
    tot = 0
    for c in out:
        tot = tot + c
    e.check(lambda: e.equal(tot, s), f"{tag}: chunks do not add up to the shape")
    if len(out) == 1:
        e.check(lambda: out[0] >= 0, f"{tag}: negative chunk")
        if s != 0:
            e.check(lambda: out[0] > 0, f"{tag}: zero chunk in a non-empty dimension")
    else:
        for c in out:
            e.check(lambda: c > 0, f"{tag}: non-positive chunk size")


KINDS = ("int", "tuple", "minus1", "none", "explicit", "dict")


def mk_normalize(ndim, hi):
    def setup(e):
        shape = tuple(e.int(f"s{i}", 0, hi) for i in range(ndim))
        kind = e.pick("kind", KINDS)
        cs = tuple(e.int(f"c{i}", 1, hi + 1) for i in range(ndim))
        ex = None
        if kind == "explicit":
            ex = []
            for i in range(ndim):
                n = 1 + e.choice(f"n{i}", 3)
                parts = [e.int(f"x{i}_{j}", 0, hi) for j in range(n)]
                ex.append(tuple(parts))
        return shape, kind, cs, ex

    def run(e, shape, kind, cs, ex):
        if kind == "int":
            spec = cs[0]
        elif kind == "tuple":
            spec = cs
        elif kind == "minus1":
            spec = (-1,) + cs[1:]
        elif kind == "none":
            spec = cs[:-1] + (None,)
        elif kind == "dict":
            spec = {0: cs[0]}
        else:
            spec = tuple(ex)
        valid = True
        if kind == "explicit":
            for i in range(ndim):
                tot = 0
                for x in ex[i]:
                    tot = tot + x
                if tot != shape[i]:
                    valid = False
        try:
            out = AC.normalize_chunks(spec, shape=shape)
        except ValueError:
            e.check(not valid, "ValueError for a valid chunk specification")
            return "ValueError"
        e.check(valid, "chunks that do not add up to the shape were accepted")
        e.check(len(out) == ndim, "wrong number of dimensions")
        for i in range(ndim):
            if kind == "explicit":
                # explicit tuples are passed through: only the sum is promised here
                tot = 0
                for c in out[i]:
                    tot = tot + c
                e.check(lambda: e.equal(tot, shape[i]), "explicit chunks changed")
            else:
                check_dim(e, out[i], shape[i], f"dim{i}")
        return out

    def e2e(model):
        ne_shape = tuple(model[f"s{i}"] for i in range(ndim))
        kind = KINDS[model.get("kind", 0)]
        if kind == "explicit":
            return
        cs = tuple(model[f"c{i}"] for i in range(ndim))
        spec = {"int": cs[0], "tuple": cs, "minus1": (-1,) + cs[1:], "none": cs[:-1] + (None,), "dict": {0: cs[0]}}[kind]
        x = np.arange(int(np.prod(ne_shape))).reshape(ne_shape)
        d = da.from_array(x, chunks=spec)
        if tuple(sum(c) for c in d.chunks) != ne_shape:
            raise Violation(f"from_array chunks {d.chunks} do not add up to {ne_shape}")
        if not (d.compute(scheduler="sync") == x).all():
            raise Violation("from_array changed values")

    return Obligation(f"normalize[ndim={ndim}]", setup, run, patches=_patches, e2e=e2e, e2e_every=9)


def mk_old_to_new(no, nn, zero_ok):
    lo = 0 if zero_ok else 1

    def setup(e):
        old = tuple(e.int(f"o{i}", lo) for i in range(no))
        new = tuple(e.int(f"n{i}", lo) for i in range(nn))
        so = sum(old[1:], old[0])
        sn = sum(new[1:], new[0])
        e.assume(lambda: so == sn)
        e.assume(lambda: so <= 40)
        p = e.int("p", 0)
        e.assume(lambda: p < sn)
        return old, new, p

    def run(e, old, new, p):
        (pieces,) = R.old_to_new((old,), (new,))
        nonzero_new = [c for c in new]
        e.check(len(pieces) <= len(new), "more piece lists than new chunks")
        # map piece lists to new chunks: zero-size new chunks may or may not get an (empty) entry,
        # so walk both with their sizes
        off = 0
        nj = None
        for j in range(len(new)):
            if p < off + new[j]:
                nj, q = j, p - off
                break
            off = off + new[j]
        # align: entries correspond to new chunks in order; compute sizes of entries
        sizes = []
        for lst in pieces:
            t = 0
            for (oi, sl) in lst:
                e.check(lambda: (sl.start >= 0) & (sl.start <= sl.stop) & (sl.stop <= old[oi]), "slice outside its old block")
                t = t + (sl.stop - sl.start)
            sizes.append(t)
        # entries must match the sequence of new chunk sizes after dropping unmatched zero-size chunks
        k = 0
        target = None
        for j in range(len(new)):
            if k < len(sizes) and e.equal(sizes[k], new[j]).__bool__():
                if j == nj:
                    target = k
                k += 1
            else:
                e.check(lambda: new[j] == 0, "a non-empty new chunk has no piece list")
        e.check(k == len(sizes), "piece lists do not line up with the new chunks")
        e.check(target is not None, "probe's new chunk has no piece list")
        acc = 0
        cum_old = [0]
        for c in old:
            cum_old.append(cum_old[-1] + c)
        found = False
        last_old = -1
        for (oi, sl) in pieces[target]:
            e.check(oi >= last_old, "pieces not in old-block order")
            last_old = oi
            ln = sl.stop - sl.start
            if q < acc + ln:
                e.check(lambda: e.equal(cum_old[oi] + sl.start + (q - acc), p), "piece addresses the wrong global position")
                found = True
                break
            acc = acc + ln
        e.check(found, "probe position not covered by the pieces of its new chunk")
        return (nj, [(oi, sl) for oi, sl in pieces[target]])

    def e2e(model):
        old = tuple(model[f"o{i}"] for i in range(no))
        new = tuple(model[f"n{i}"] for i in range(nn))
        if 0 in old or 0 in new or sum(old) == 0:
            return
        x = np.arange(sum(old)) * 2 + 1
        d = da.from_array(x, chunks=(old,)).rechunk((new,))
        if d.chunks != (new,):
            raise Violation(f"rechunk({new}) gave chunks {d.chunks}")
        if not (d.compute(scheduler="sync") == x).all():
            raise Violation(f"rechunk {old}->{new} changed values")
        for j in range(len(new)):
            blk = d.blocks[j].compute(scheduler="sync")
            lo_ = sum(new[:j])
            if not (blk == x[lo_:lo_ + new[j]]).all():
                raise Violation(f"rechunk {old}->{new}: block {j} wrong")

    return Obligation(f"old_to_new[{no}x{nn},zero={zero_ok}]", setup, run, patches=_patches, e2e=e2e, e2e_every=3)


def mk_divide(n, hi):
    def setup(e):
        cs = tuple(e.int(f"c{i}", 1, hi) for i in range(n))
        w = e.int("w", 1, hi)
        return cs, w

    def run(e, cs, w):
        out = R.divide_to_width(cs, w)
        tot = 0
        for c in out:
            e.check(lambda: (c >= 1) & (c <= w), "piece wider than max_width or empty")
            tot = tot + c
        e.check(lambda: e.equal(tot, sum(cs[1:], cs[0])), "divide_to_width changed the total")
        # pieces refine the input chunks
        k = 0
        for c in cs:
            t = 0
            while k < len(out) and (t + out[k] <= c):
                t = t + out[k]
                k += 1
            e.check(lambda: e.equal(t, c), "pieces do not refine the desired chunks")
        e.check(k == len(out), "left-over pieces")
        return out

    return Obligation(f"divide_to_width[n={n}]", setup, run, patches=_patches)


def mk_merge(n, hi):
    def setup(e):
        cs = tuple(e.int(f"c{i}", 1, hi) for i in range(n))
        m = e.int("m", 1, n + 1)
        return cs, m

    def run(e, cs, m):
        out = R.merge_to_number(cs, m)
        e.check(lambda: e.equal(len(out) <= m, True) if isinstance(len(out) <= m, bool) else (len(out) <= m), "more chunks than max_number")
        tot = 0
        for c in out:
            tot = tot + c
        e.check(lambda: e.equal(tot, sum(cs[1:], cs[0])), "merge_to_number changed the total")
        homogeneous = len(set(__import__("operator").index(c) for c in cs)) == 1
        if not homogeneous:
            k = 0
            for c in out:
                t = 0
                while k < len(cs) and (t + cs[k] <= c):
                    t = t + cs[k]
                    k += 1
                e.check(lambda: e.equal(t, c), "result is not a merge of adjacent chunks")
        return out

    return Obligation(f"merge_to_number[n={n}]", setup, run, patches=_patches)


def mk_plan(n0, n1, chi):
    def setup(e):
        old0 = tuple(e.int(f"a{i}", 1, chi) for i in range(n0))
        new1 = tuple(e.int(f"b{i}", 1, chi) for i in range(n1))
        # old: n0 chunks on axis 0, one chunk on axis 1; new: one chunk on axis 0, n1 on axis 1 (the classic transpose-rechunk)
        thr = e.int("threshold", 1, 2)
        lim = e.int("limit", 1, 8)
        return old0, new1, thr, lim

    def run(e, old0, new1, thr, lim):
        s0 = sum(old0[1:], old0[0])
        s1 = sum(new1[1:], new1[0])
        old = (old0, (s1,))
        new = ((s0,), new1)
        steps = R.plan_rechunk(old, new, 1, threshold=thr, block_size_limit=lim)
        e.check(len(steps) >= 1, "empty plan")
        for st in steps:
            e.check(len(st) == 2, "stage with wrong ndim")
            for ax, tgt in ((0, s0), (1, s1)):
                tot = 0
                for c in st[ax]:
                    e.check(lambda: c > 0, "non-positive chunk in a stage")
                    tot = tot + c
                e.check(lambda: e.equal(tot, tgt), "stage does not add up to the shape")
        e.check(lambda: e.equal(steps[-1], new), "last stage is not the target")
        return steps

    def e2e(model):
        old0 = tuple(model[f"a{i}"] for i in range(n0))
        new1 = tuple(model[f"b{i}"] for i in range(n1))
        s0, s1 = sum(old0), sum(new1)
        x = np.arange(s0 * s1).reshape(s0, s1)
        d = da.from_array(x, chunks=(old0, (s1,)))
        r = d.rechunk(((s0,), new1), threshold=model["threshold"], block_size_limit=model["limit"] * x.dtype.itemsize)
        if r.chunks != ((s0,), new1):
            raise Violation(f"rechunk gave {r.chunks}")
        if not (r.compute(scheduler="sync") == x).all():
            raise Violation("multi-stage rechunk changed values")

    return Obligation(f"plan_rechunk[{n0}->{n1},c<={chi}]", setup, run, patches=_patches, e2e=e2e, e2e_every=5)


def mk_auto(hi, limhi):
    def setup(e):
        s0 = e.int("s0", 0, hi)
        s1 = e.int("s1", 1, 4)
        c1 = e.int("c1", 1, 4)
        limit = e.int("limit", 1, limhi)
        item = e.pick("itemsize", (1, 2, 4, 8))
        e.assume(lambda: c1 <= s1)
        return s0, s1, c1, limit, item

    def run(e, s0, s1, c1, limit, item):
        dt = np.dtype(f"i{item}")
        out = AC.normalize_chunks(("auto", c1), shape=(s0, s1), limit=limit, dtype=dt)
        check_dim(e, out[0], s0, "auto dim")
        check_dim(e, out[1], s1, "fixed dim")
        m0 = max(out[0])
        m1 = max(out[1])
        if item * m1 <= limit:
            e.check(lambda: m0 * m1 * item <= limit, "auto chunk exceeds the byte limit although the fixed dimensions fit")
        return out

    return Obligation(f"auto[s<={hi},limit<={limhi}]", setup, run, patches=_patches)


def _compositions(n, kmax):
    import itertools
    out = []
    for k in range(1, min(kmax, n) + 1):
        for cuts in itertools.combinations(range(1, n), k - 1):
            b = (0,) + cuts + (n,)
            out.append(tuple(y - x for x, y in zip(b, b[1:])))
    return out


def mk_plan_general(chi, lims, single1=False):
    """plan_rechunk on 2-d arrays with two old and two new chunks per axis (every combination with equal sums, sizes <= chi; with
    single1 the old chunking of axis 1 is a single chunk), tight block_size_limits and thresholds 1-2 that force the split-then-merge
    pass: every stage adds up to the shape, the last stage is the target, and the planner must not fail (its inputs are concretised by
    its own float arithmetic: solver-enumerated)"""
    def setup(e):
        axes = []
        for ax in range(2):
            c, d = e.int(f"new{ax}_0", 1, chi), e.int(f"new{ax}_1", 1, chi)
            if ax == 1 and single1:
                axes.append(((c + d,), (c, d)))
                continue
            a = e.int(f"old{ax}_0", 1, chi)
            b = c + d - a
            e.assume(lambda: (b >= 1) & (b <= chi))
            axes.append(((a, b), (c, d)))
        thr = e.pick("threshold", (1, 2))
        lim = e.pick("limit", lims)
        return axes, thr, lim

    def run(e, axes, thr, lim):
        import operator
        old = tuple(tuple(operator.index(x) for x in ax[0]) for ax in axes)
        new = tuple(tuple(operator.index(x) for x in ax[1]) for ax in axes)
        shape = tuple(sum(c) for c in old)
        steps = R.plan_rechunk(old, new, 1, threshold=thr, block_size_limit=lim)
        e.check(len(steps) >= 1, "empty plan")
        for st in steps:
            e.check(tuple(sum(c) for c in st) == shape and all(x > 0 for c in st for x in c), f"stage {st} does not tile the shape {shape}")
        e.check(tuple(tuple(c) for c in steps[-1]) == new, f"last stage {steps[-1]} is not the target {new}")
        return [tuple(tuple(int(x) for x in c) for c in st) for st in steps]

    def e2e(model):
        from symx.core import NativeEngine
        axes, thr, lim = setup(NativeEngine(model))
        old = tuple(ax[0] for ax in axes)
        new = tuple(ax[1] for ax in axes)
        shape = tuple(sum(c) for c in old)
        x = np.arange(int(np.prod(shape))).reshape(shape)
        r = da.from_array(x, chunks=old).rechunk(new, threshold=thr, block_size_limit=lim * x.dtype.itemsize)
        if r.chunks != new or not (r.compute(scheduler="sync") == x).all():
            raise Violation(f"rechunk {old} -> {new} (threshold={thr}, block_size_limit={lim} elements): chunks {r.chunks} or values differ")

    return Obligation(f"plan_rechunk_general[c<={chi},limits={list(lims)}{',axis1 from one chunk' if single1 else ''}]", setup, run, e2e=e2e, e2e_every=23)


def mk_auto_prev(shapes, kmax, limits, what):
    """'auto' on BOTH axes with previous_chunks (what x.rechunk('auto') does): fractional powers and np.median make this float code, so
    shapes, previous chunkings and limits are solver-enumerated. Bound asserted: block bytes <= limit * array.chunk-size-tolerance (the
    documented slack of this mode; the property's plain 'within the limit' is asserted by auto[...] for the mode without previous_chunks)."""
    import dask

    def setup(e):
        shape = e.pick("shape", shapes)
        prev = tuple(e.pick(f"prev{a}", _compositions(d, kmax)) for a, d in enumerate(shape))
        # zero-width chunks among the previous ones (as left behind by boolean indexing + compute_chunk_sizes)
        zeros = e.pick("zero_chunks", ("none", "front0", "front1", "both_ends0"))      # model variable zero_chunks: index into this tuple
        if zeros == "front0":
            prev = ((0,) * len(prev[0]) + prev[0],) + prev[1:]
        elif zeros == "front1":
            prev = prev[:1] + ((0,) * len(prev[1]) + prev[1],)
        elif zeros == "both_ends0":
            prev = ((0,) + prev[0] + (0,),) + prev[1:]
        limit = e.pick("limit", limits)
        return shape, prev, limit

    def run(e, shape, prev, limit):
        tol = dask.config.get("array.chunk-size-tolerance")
        out = AC.normalize_chunks(("auto", "auto"), shape=shape, limit=limit, dtype=np.dtype("u1"), previous_chunks=prev)
        for a in range(2):
            e.check(sum(out[a]) == shape[a] and all(c > 0 for c in out[a]), f"auto chunks {out[a]} do not tile dimension {shape[a]} (previous chunks {prev})")
        if what == "bound":
            blk = max(out[0]) * max(out[1])
            e.check(blk <= limit * tol + 1e-9, f"auto chunks {out} (largest block {blk} bytes) exceed limit {limit} x tolerance {tol} for previous chunks {prev}")
        return out

    # two obligations over the same inputs: `tiling` (chunks tile the shape, no exception, no hang) and `bound` (block bytes); the
    # listed known finding about zero-width previous chunks only concerns `bound`
    return Obligation(f"auto_previous_{what}[{len(shapes)} shapes,<= {kmax} chunks/axis]", setup, run)


def obligations(tier):
    if tier == "quick":
        return [mk_normalize(1, 8), mk_normalize(2, 5),
                mk_old_to_new(1, 3, True), mk_old_to_new(3, 1, True), mk_old_to_new(2, 2, True), mk_old_to_new(3, 3, False), mk_old_to_new(2, 3, True),
                mk_divide(1, 12), mk_divide(2, 8), mk_merge(3, 3), mk_plan(2, 3, 2), mk_plan_general(4, (4, 8, 16)), mk_plan_general(6, (3, 8), single1=True), mk_auto(8, 32), mk_auto_prev([(6, 6), (8, 5), (12, 12)], 2, (4, 8, 16, 40), "tiling"), mk_auto_prev([(6, 6), (8, 5), (12, 12)], 2, (4, 8, 16, 40), "bound")]
    return [mk_normalize(1, 12), mk_normalize(2, 8),
            mk_old_to_new(1, 4, True), mk_old_to_new(4, 1, True), mk_old_to_new(3, 3, True), mk_old_to_new(4, 4, False), mk_old_to_new(3, 4, True), mk_old_to_new(4, 2, True),
            mk_divide(1, 20), mk_divide(2, 12), mk_divide(3, 8), mk_merge(4, 3), mk_merge(5, 2), mk_plan(3, 3, 3), mk_plan(2, 4, 2), mk_plan_general(6, (4, 8, 16, 30)), mk_plan_general(7, (2, 3, 4, 8, 16), single1=True), mk_auto(12, 64), mk_auto_prev([(6, 6), (8, 5), (12, 12), (7, 9), (20, 20)], 2, (4, 8, 16, 24, 40, 100), "tiling"), mk_auto_prev([(6, 6), (8, 5), (12, 12), (7, 9), (20, 20)], 2, (4, 8, 16, 24, 40, 100), "bound"),
            mk_auto_prev([(6, 6), (8, 5)], 3, (4, 16), "tiling"), mk_auto_prev([(6, 6), (8, 5)], 3, (4, 16), "bound")]
