"""C06 -- static task ordering is a total order consistent with dependencies"""
from __future__ import annotations

from symx.core import Violation
from symx.run import Obligation

import dask.order as O
from dask._task_spec import Task, TaskRef, Alias, DataNode, List

PROPERTY = "C06"
LEVEL = "other"
BUDGET = {"quick": 150, "thorough": 1800}
EXPLANATION = (
    "The real dask.order.order is executed on every graph of a bounded grammar: N nodes in topological order, each a legacy "
    "tuple task, a data literal, a plain alias (value is another key), a list-of-keys non-task node, or the task-spec "
    "objects Task / Alias / DataNode / Task-with-List; every subset of edges to earlier nodes; optional references to a key "
    "outside the graph; and cyclic variants obtained by adding one back edge. Assertions: the result's key set equals the "
    "graph's, priorities are pairwise distinct, every key's priority exceeds those of its in-graph dependencies, cyclic "
    "graphs are rejected with an exception. The inputs have no arithmetic, so the solver's role is bounded-exhaustive enumeration of the "
    "shape bits and the proof that the decision tree is exhausted (stated candidly in DESIGN.md).")
ASSUMPTIONS = ["graph shapes are solver-enumerated choice variables (bounded exhaustive); no symbolic arithmetic input exists for this property"]
STUBS = []
ENUM = ["all shape bits, node kinds, external references, back edge"]
OUTSIDE = ["quality of the ordering", "graphs with more nodes than the bound", "return_stats=True"]
BOUNDS = {
    "quick": dict(nodes="<=3 (all 8 kinds + external refs), 4 (legacy kinds), 5 (task/literal/list with node 0 a literal and node 4 a list-of-keys), 7 (fixed kinds list,task,literal,list,list,literal,list; all edge subsets)", cyclic="one back edge, N<=3"),
    "thorough": dict(nodes="<=4 (all kinds), 5 (legacy task/literal/list), 6 (node 0 literal, nodes 4,5 lists), 7 (fixed kinds list,task,literal,list,list,literal,list)", cyclic="one back edge, N<=4"),
}

LEGACY = ("t", "d", "a", "l")
SPEC = ("T", "D", "A", "L")


def functions():
    return [O.order, O.ndependencies, O._connecting_to_roots]


def f(*a):
    return a


def gen(e, N, kinds, ext, fixed=None):
    nodes = []
    for j in range(N):
        kind = fixed[j] if fixed and j in fixed else e.pick(f"kind{j}", kinds)
        deps = [i for i in range(j) if e.flag(f"e{i}_{j}")] if kind not in ("d", "D") else []
        x = bool(ext and kind in ("T", "L") and e.flag(f"x{j}"))
        nodes.append((kind, deps, x))
    return nodes


def build(nodes, back=None):
    dsk = {}
    deps_of = {}
    for j, (kind, deps, x) in enumerate(nodes):
        k = f"k{j}"
        dk = [f"k{i}" for i in deps]
        if back is not None and back[1] == j:
            dk = dk + [f"k{back[0]}"]
        if x:
            dk = dk + ["ext"]
        if kind == "t":
            dsk[k] = (f,) + tuple(dk)
        elif kind == "d":
            dsk[k] = 7
            dk = []
        elif kind == "a":
            if len(dk) == 1:
                dsk[k] = dk[0]
            elif dk:
                dsk[k] = (f,) + tuple(dk)
            else:
                dsk[k] = 7
        elif kind == "l":
            dsk[k] = list(dk)
        elif kind == "T":
            dsk[k] = Task(k, f, *[TaskRef(d) for d in dk])
        elif kind == "D":
            dsk[k] = DataNode(k, 7)
            dk = []
        elif kind == "A":
            if len(dk) == 1:
                dsk[k] = Alias(k, dk[0])
            else:
                dsk[k] = Task(k, f, *[TaskRef(d) for d in dk])
        elif kind == "L":
            dsk[k] = Task(k, f, List(*[TaskRef(d) for d in dk]))
        deps_of[k] = [d for d in dk if d != "ext"]
    return dsk, deps_of


def mk(N, kinds, ext, tag, fixed=None):
    def setup(e):
        return (gen(e, N, kinds, ext, fixed),)

    def run(e, nodes):
        dsk, deps_of = build(nodes)
        res = O.order(dict(dsk))
        e.check(set(res) == set(dsk), f"order() keys {sorted(res)} != graph keys {sorted(dsk)}")
        vals = list(res.values())
        e.check(len(set(vals)) == len(vals), f"priorities not pairwise distinct: {res}")
        for k, ds in deps_of.items():
            for d in ds:
                e.check(res[k] > res[d], f"{k} (priority {res[k]}) does not come after its dependency {d} ({res[d]})")
        return sorted(res.items())

    return Obligation(f"order[N={N},{tag}{',ext' if ext else ''}]", setup, run)


def mk_cyclic(N, kinds):
    def setup(e):
        nodes = gen(e, N, kinds, False)
        hi = e.choice("back_to", N)
        lo = e.choice("back_from", N)
        e.assume(lo <= hi)
        return nodes, lo, hi

    def run(e, nodes, lo, hi):
        # add the edge "node lo depends on node hi" (hi >= lo): a cycle iff hi reaches lo, always when hi == lo
        kind = nodes[lo][0]
        if kind in ("d", "D"):
            return "skip"
        dsk, deps_of = build(nodes, back=(hi, lo))
        # recompute cyclicity independently
        adj = {k: set(v) for k, v in deps_of.items()}
        # effective deps as built (alias/literal kinds may have dropped deps)
        import dask.core
        def reach(a, b, seen=None):
            seen = seen or set()
            for d in adj[a]:
                if d == b or (d not in seen and not seen.add(d) and reach(d, b, seen)):
                    return True
            return False
        cyclic = any(reach(k, k) for k in adj)
        try:
            res = O.order(dict(dsk))
        except Exception as ex:
            # the property asks for "an error"; order() raises RuntimeError on most cyclic graphs and a
            # KeyError (from its cycle reporter) when a data root was already peeled off
            e.check(cyclic, f"{type(ex).__name__} for an acyclic graph")
            return "rejected"
        e.check(not cyclic, f"cyclic graph was ordered: {res}")
        return sorted(res.items())

    return Obligation(f"cyclic[N={N},{''.join(kinds)}]", setup, run)


def ORPHAN():
    """7 nodes with fixed kinds (list, task, literal, list, list, literal, list) and every edge subset: the smallest shape on which
    literal roots are cut out and *all* their dependents are then peeled off as list-of-keys leaves"""
    return mk(7, ("t", "d", "l"), False, "kinds=l,t,d,l,l,d,l", fixed={0: "l", 1: "t", 2: "d", 3: "l", 4: "l", 5: "d", 6: "l"})


def obligations(tier):
    if tier == "quick":
        return [mk(1, LEGACY + SPEC, True, "all"), mk(2, LEGACY + SPEC, True, "all"), mk(3, LEGACY + SPEC, True, "all"),
                mk(4, LEGACY, False, "legacy"), mk(4, ("t", "l", "T"), True, "tlT"),
                mk(5, ("t", "d", "l"), False, "tdl;node0=data,node4=list", fixed={0: "d", 4: "l"}), ORPHAN(), mk_cyclic(3, ("t", "l", "T"))]
    return [mk(1, LEGACY + SPEC, True, "all"), mk(2, LEGACY + SPEC, True, "all"), mk(3, LEGACY + SPEC, True, "all"),
            mk(4, LEGACY + SPEC, False, "all"), mk(4, ("t", "l", "a", "T"), True, "tlaT"), mk(5, ("t", "d", "l"), False, "tdl"), ORPHAN(),
            mk(6, ("t", "d", "l"), False, "tdl;node0=data,node4,5=list", fixed={0: "d", 4: "l", 5: "l"}), mk_cyclic(4, ("t", "l", "T", "a"))]
