"""C22 -- array reductions and scans equal NumPy for every chunking and split_every.

Kernels: dask.array._reductions_generic.reduction / _tree_reduce / partial_reduce (tree grouping from split_every, lol_tuples wiring,
result chunks), dask.array.reductions.arg_reduction (offset table) / arg_chunk / _arg_combine / arg_agg, cumreduction (sequential carry
chain) and prefixscan_blelloch (up-sweep / down-sweep strides), topk / argtopk with dask.array.chunk.topk / topk_aggregate / argtopk /
argtopk_aggregate, the mean / moment chunk-combine-aggregate triples, chunk_min / chunk_max, and the public wrappers sum, prod, min, max,
any, all, mean, var, std, moment, argmin, argmax, cumsum, cumprod and their nan-variants.

The values are NumPy's.  What is decided here is everything dask adds: which blocks reach which output block (exactly once, in order), the
offsets that turn block-local arg positions into global ones, the carry chain of the scans, the selection logic of topk over a tree, and the
declared shape / dtype / chunks -- for solver-enumerated chunkings (size-1 and size-0 chunks, many blocks so that the tree has several
levels), axis selections, keepdims and split_every.  Integer data, so the comparison with NumPy is exact; a free-monoid witness (object
arrays whose `+` is tuple concatenation) makes a dropped block, a block used twice or a wrong order visible in sum and cumsum.
"""
from __future__ import annotations

import builtins
import itertools
import math
import operator
import warnings

import numpy as np

from symx.core import SInt, Violation, HarnessError
from symx.patch import patched, ModuleShim
from symx.run import Obligation

import dask
import dask.array as da
import dask.array.reductions as R
import dask.array._reductions_generic as G
import dask.array.chunk as CK

PROPERTY = "C22"
LEVEL = "other"
BUDGET = {"quick": 600, "thorough": 3000}
CHUNK_PATHS = 40
EXPLANATION = (
    "(1) arg_reduction's offset table with SYMBOLIC, unbounded chunk sizes: the real arg_reduction is run on a recording array whose chunk sizes are "
    "solver variables; for every block the offset handed to arg_chunk is proved (z3, all sizes at once) to be the exclusive prefix sum of the chunk "
    "sizes along every axis (axis=None: the offset vector and the total shape; axis=k: the k-th component), and the intermediate array is proved to "
    "keep the chunks of the free axes and to have one element per block along the reduced ones. "
    "(2) Everything else runs dask's PUBLIC functions on da.from_array inputs whose chunking (number of chunks per axis, every chunk size, size-0 "
    "chunks), k of topk, value pattern / values are solver-enumerated, with Python loops over axis selections, keepdims, split_every (ints, None, "
    "per-axis dicts) and scan method inside each path, computed with scheduler='sync' and compared with NumPy: exact equality of values, shape "
    "and dtype, declared shape == computed shape, chunks adding up. sum / prod / min / max / any / all / nan-variants on int64 data where every "
    "element is a distinct power (sum) or prime (prod), so that multiplicities are visible; the same sum and cumsum on object arrays whose elements "
    "form a free monoid (tuple concatenation): every element must occur exactly once and, along a single axis, in order. argmin / argmax / "
    "nanargmin / nanargmax on data with ties (1-d: every 0/1 vector; n-d: tie patterns incl. all-equal) must return NumPy's first occurrence. "
    "cumsum / cumprod / nancumsum / nancumprod, sequential and Blelloch, all axes incl. None. topk / argtopk for every k with 1 <= |k| <= axis "
    "length + 1 on distinct values (exact index equality) and on tied values (the indices must select the topk values and be distinct). mean / var "
    "/ std / moment(3, 4) / ddof / nan-variants on small ints within rtol 1e-9. 'deep' obligations use up to 9 (quick) / 33 (thorough) blocks per "
    "axis so that split_every = 2, 3, 4 give reduction trees of several levels and the Blelloch scan several sweep levels. Every path is replayed "
    "natively; arrays of total size 0 are not generated.")
ASSUMPTIONS = [
    "split_every is None, an int >= 2, or a dict axis -> int >= 2 (documented domain; a dict value 1 for a reduced axis makes dask return the "
    "unreduced blocks)",
    "the arrays have at least one element (every axis has total length >= 1); size-0 CHUNKS inside an axis are generated",
    "int64 / bool / object data: equality with NumPy is exact; the float results of mean / var / std / moment on small ints are compared with "
    "rtol = atol = 1e-9 (the tolerance the property grants for a different summation order)",
    "object-dtype sum over SEVERAL axes: the order in which NumPy folds the elements is not specified for a tree; the result is compared as a "
    "multiset of witness elements (single axis: ordered)",
    "argtopk on tied values: any index set that selects the topk values is accepted (NumPy has no argtopk; the docstring fixes only the order by value)",
    "np.isnan(chunk sizes) is False (unknown chunk sizes are outside the claim) in the symbolic arg_reduction obligation",
]
STUBS = [
    "arg_offsets only: recording stand-in for the input Array (ndim / chunks / numblocks / shape / name / dtype), dask.array.reductions.Array, "
    "HighLevelGraph, _tree_reduce, tokenize, meta_from_array replaced by recorders / constants, dask.array.reductions.np -> shim with "
    "isnan(tuple of ints) = all False; the code that computes keys, offsets and chunks is dask's own",
    "all other obligations: none (public API, unpatched)",
]
ENUM = [
    "number of chunks per axis, every chunk size, k of topk, 0/1 values of the 1-d arg obligations, value / size patterns, number of blocks of the "
    "'deep' obligations: solver-enumerated (they reach NumPy / range())",
    "axis selections, keepdims, split_every, scan method, operation: Python loops inside each path",
    "only the chunk sizes of the arg_offsets obligations are genuinely symbolic (unbounded); the number of blocks there is enumerated",
]
OUTSIDE = [
    "floating-point data, NaN / inf content, the tolerance analysis of float summation order, complex / masked / datetime data",
    "median, nanmedian, quantile, nanquantile (single-chunk-per-axis NumPy calls; float interpolation)",
    "arrays of total size 0 (NumPy raises / warns there; dask's behaviour is not compared), unknown (NaN) chunk sizes, out=, dtype= arguments, weights=",
    "ddof >= number of reduced elements (division by zero), moment(order < 2, keepdims=True) (dask ignores keepdims there; NumPy has no moment)",
    "split_every values < 2, more blocks per axis than the tier's bound (the float logarithm in _tree_reduce's depth is only exercised for those block counts)",
    "schedulers other than 'sync', the array-expression backend (dask.array._array_expr)",
]
BOUNDS = {
    "quick": dict(arg_offsets="block grids (1) (2) (3) (2,2) (3,2) (2,3) (2,2,2); chunk sizes >= 0 unbounded (symbolic)",
                  reduce="1-d <= 4 chunks of 1..3, length <= 5; 2-d <= 3 chunks of 1..2 per axis, length <= 3 per axis; with empty chunks: 1-d <= 4 chunks of 0..2, length <= 2; "
                         "2-d <= 2x2 chunks of 0..2, length <= 2; every axis selection, keepdims, split_every in {None, 2, 3, {0: 2}} (1-d) / {None, 2, {0: 2, 1: 3}, {0: 3}} (2-d)",
                  arg="1-d <= 3 chunks of 1..3, length <= 4, every 0/1 vector; 2-d <= 2x3 chunks of 1..2, length <= 3, 3 tie patterns; with empty chunks: 1-d <= 3 chunks of 0..2, "
                      "length <= 3, every 0/1 vector; 2-d <= 2x2 chunks, length <= 2, 2 patterns; axis None / every int, keepdims, split_every as above",
                  cum="1-d <= 4 chunks of 1..2, length <= 5; 2-d <= 3x2 chunks of 1..2, length <= 3; with empty chunks: 1-d <= 4 chunks of 0..2, length <= 3; 2-d <= 2x2 chunks; "
                      "both methods, axis None / every int",
                  topk="1-d <= 3 chunks of 1..3, length <= 4; 2-d <= 2x2 chunks of 1..2, length <= 3; with empty chunks 1-d <= 3 chunks of 0..2, length <= 3; every k with "
                       "1 <= |k| <= length + 1; split_every {None, 2, 3}; wide: 3 layouts of blocks of 17..33 elements, |k| in {1, 3, 7, 17, 20}",
                  stats="1-d <= 3 chunks of 1..3, length <= 4; 2-d <= 2x2 chunks of 1..2, length <= 3; with empty chunks 1-d <= 3 chunks of 0..2, length <= 3",
                  deep="1-d 1..9 blocks x 3 size patterns (ones / 1,2,1,2.. / 1,0,1,1,0..), split_every {None, 2, 3, 4, {0: 2}}; 2-d <= 5x3 blocks x 2 size patterns, "
                       "split_every {None, 2, 3, 9, dicts}"),
    "thorough": dict(arg_offsets="block grids (1)..(6), (2,2) (3,2) (2,3) (3,3) (4,3) (4,4), (2,2,2) (3,2,2) (2,2,3)",
                     reduce="1-d <= 5 chunks of 1..3, length <= 6; 2-d <= 3 chunks of 1..2, length <= 4; 3-d <= 2 chunks of 1..2, lengths <= (3,2,2); with empty chunks: 1-d <= 5 chunks "
                            "of 0..2, length <= 4; 2-d <= 3x2 chunks, lengths <= (3,2); more axis selections; split_every additionally 4, {0: 3} (1-d) / 3, 9, {1: 2} (n-d)",
                     arg="1-d <= 4 chunks, length <= 4 with values 0..2 and length <= 5 with values 0..1; 2-d <= 3x3 chunks of 1..2, length <= 4, 6 patterns; 3-d 2x2x2 chunks, length <= 2; "
                         "with empty chunks 1-d <= 4 chunks length <= 3, 2-d <= 3x2 chunks",
                     cum="1-d <= 5 chunks of 1..3, length <= 6; 2-d <= 3x3 chunks, length <= 4; 3-d <= 2 chunks per axis, length <= 3; with empty chunks 1-d <= 5 chunks length <= 4, 2-d <= 3x3 chunks length <= 3",
                     topk="1-d <= 4 chunks of 1..3, length <= 5; 2-d <= 3x3 chunks, length <= 4; with empty chunks 1-d <= 4 chunks length <= 4, 2-d <= 2x2 chunks length <= 3; wide: |k| in 10 values up to 40",
                     stats="1-d <= 4 chunks length <= 5; 2-d <= 3x2 chunks lengths <= (4,3); with empty chunks 1-d <= 4 chunks length <= 4, 2-d <= 2x2 chunks",
                     deep="1-d 1..33 blocks x 4 size patterns, split_every {None, 2, 3, 4, 5, 8, dicts}; 2-d <= 9x4 blocks"),
}

# Defects of the unchanged tree found with this harness (each reproduced through the public API, see the notes next to the region predicates).
# (arg_tie, moment_empty, argtopk_short, topk_shape and the general part of flatten_empty were repaired in /repo; arg_empty, minmax_empty_nd, cum_empty
# and the degenerate rest of flatten_empty are open known findings in known_findings.json, matched by "kf_<name> == 1".)
# While an entry is True the failing REGION (a model variable kf_<name> == 1 names it) is left out of the strict comparison; set an entry to
# False once dask is repaired (or to have the violation reported / matched by a known-finding predicate "kf_<name> == 1").
KNOWN = {
    "arg_tie": False,          # argmin/argmax(axis=None) of an n-d array: tie between blocks -> not NumPy's first occurrence
    "arg_empty": False,        # arg reductions raise ValueError when a block is empty along the reduced axis
    "minmax_empty_nd": False,  # min/max/nanmin/nanmax of an n-d (n >= 2) array that has an empty chunk raise ValueError
    "moment_empty": False,     # var/std/moment (+nan) give NaN when an empty chunk passes through moment_combine (tree of >= 2 levels)
    "cum_empty": False,        # sequential cumsum/cumprod: an empty chunk before a non-empty one -> ValueError or silently empty blocks
    "flatten_empty": False,    # cumsum/cumprod(axis=None) of an n-d array with an empty chunk: x.flatten() raises (reshape defect)
    "argtopk_short": False,    # argtopk: the final aggregate sees <= |k| candidates in >= 2 pieces -> AttributeError / ValueError
    "topk_shape": False,       # topk/argtopk with |k| > axis length declare a result of length |k| but compute one of the axis length
}

_strict = __import__("os").environ.get("C22_STRICT", "")      # development: C22_STRICT=all (or a comma list of names) asserts inside those regions too
if _strict:
    KNOWN = {k: (False if _strict in ("1", "all") or k in _strict.split(",") else v) for k, v in KNOWN.items()}


def functions():
    return [G.reduction, G._tree_reduce, G.partial_reduce, R.arg_reduction, R.arg_chunk, R._arg_combine, R.arg_combine, R.arg_agg, R.nanarg_agg,
            R.cumreduction, R.prefixscan_blelloch, R._prefixscan_combine, R._prefixscan_first, R._cumsum_merge, R._cumprod_merge,
            R.topk, R.argtopk, CK.topk, CK.topk_aggregate, CK.argtopk, CK.argtopk_aggregate, CK.argtopk_preprocess,
            R.mean_chunk, R.mean_combine, R.mean_agg, R.moment_chunk, R.moment_combine, R.moment_agg, R._moment_helper, R.chunk_min, R.chunk_max,
            R._nanmin_skip, R._nanmax_skip, R.sum, R.prod, R.min, R.max, R.any, R.all, R.mean, R.var, R.std, R.moment, R.argmin, R.argmax,
            R.nanargmin, R.nanargmax, R.cumsum, R.cumprod, R.nansum, R.nanprod, R.nanmin, R.nanmax, R.nanmean, R.nanvar, R.nanstd,
            R.nancumsum, R.nancumprod]


# ---------------------------------------------------------------- small helpers

def _tot(t):
    s = 0
    for c in t:
        s = s + c
    return s


def _or(xs):
    r = False
    for x in xs:
        r = r | x
    return r


def _and(xs):
    r = True
    for x in xs:
        r = r & x
    return r


def _norm_axes(axis, nd):
    if axis is None:
        return tuple(range(nd))
    if isinstance(axis, int):
        return (axis % nd,)
    return tuple(sorted(a % nd for a in axis))


def _has_empty(chunks):
    return builtins.any(0 in c for c in chunks)


def _split(se, axes):
    """per-axis fan-in dask derives from split_every (only used to NAME the regions of known defects, never in an oracle)"""
    if isinstance(se, dict):
        return {a: se.get(a, 2) for a in axes}
    k = builtins.max(int((se or 4) ** (1 / (len(axes) or 1))), 2)
    return {a: k for a in axes}


def _uses_combine(chunks, axes, se):
    sp = _split(se, axes)
    return builtins.any(len(chunks[a]) > sp[a] for a in axes)


# ---------------------------------------------------------------- regions of the known defects (predicates over the concrete inputs)

def reg_arg_empty(chunks, axis):
    """D3  da.from_array(np.array([3, 1, 4]), chunks=((0, 3),)).argmin().compute() -> ValueError (NumPy: 1)"""
    nd = len(chunks)
    if axis is None or nd == 1:
        return _has_empty(chunks)
    return 0 in chunks[axis % nd]


def reg_arg_tie(x, chunks, axis, op):
    """D1  da.from_array(np.array([[1, 0], [0, 1]]), chunks=((2,), (1, 1))).argmin().compute() -> 2 (NumPy: 1)"""
    nd = len(chunks)
    if axis is not None or nd < 2 or not builtins.any(len(c) > 1 for c in chunks[1:]):
        return False
    ext = x.min() if "min" in op else x.max()
    bounds = [np.cumsum((0,) + tuple(c)) for c in chunks]
    blocks = set()
    for pos in np.argwhere(x == ext):
        blocks.add(tuple(int(np.searchsorted(bounds[a], p, side="right")) for a, p in enumerate(pos)))
    return len(blocks) >= 2


def reg_minmax_empty(chunks):
    """D7  da.from_array(np.arange(4).reshape(2, 2), chunks=((0, 2), (2,))).min(axis=0).compute() -> ValueError"""
    return len(chunks) >= 2 and _has_empty(chunks)


def reg_moment_empty(chunks, axis, se):
    """D2  da.from_array(np.array([1, 2, 4, 7, 3]), chunks=((0, 2, 2, 1),)).var(split_every=2).compute() -> nan"""
    axes = _norm_axes(axis, len(chunks))
    return _uses_combine(chunks, axes, se) and builtins.any(0 in chunks[a] for a in axes)


def reg_cum_empty(chunks, axis, method):
    """D4  da.cumsum(da.from_array(np.array([3, 1, 4]), chunks=((0, 3),)), axis=0).compute() -> ValueError; chunks (0, 1, 1, 1) -> array([])"""
    if method != "sequential":
        return False
    nd = len(chunks)
    if axis is None and nd > 1:
        return False
    c = chunks[0 if axis is None else axis % nd]
    return builtins.any(c[i] == 0 and builtins.any(v > 0 for v in c[i + 1:]) for i in range(len(c)))


def reg_flatten_empty(chunks, axis):
    """D8  da.from_array(np.ones((1, 1)), chunks=((1,), (0, 1))).flatten().compute() -> ValueError (used by cumsum(axis=None))"""
    return axis is None and len(chunks) > 1 and _has_empty(chunks)


def reg_argtopk_short(cs, k, se):
    """D5  da.argtopk(da.from_array(np.array([3, 1]), chunks=1), 2).compute() -> AttributeError; chunks (2, 3, 0), k=1, split_every=2 too.
    Simulation of the candidate counts: a leaf keeps min(|k|, size) candidates, a combine min(|k|, sum); the final aggregate fails when it
    receives >= 2 pieces holding <= |k| candidates together (chunk.argtopk then returns the list of pieces instead of the pair)."""
    k = abs(k)
    c = [builtins.min(k, s) for s in cs]
    s = _split(se, (0,))[0]
    depth = 1
    if len(c) > 1:
        depth = int(builtins.max(1, math.ceil(math.log(len(c), s))))
    for _ in range(depth - 1):
        c = [builtins.min(k, builtins.sum(c[i:i + s])) for i in range(0, len(c), s)]
    return len(c) >= 2 and builtins.sum(c) <= k


def reg_topk_shape(L, k):
    """D9  da.topk(da.from_array(np.arange(3), chunks=2), 5) has shape (5,), its computed value shape (3,)"""
    return abs(k) > L


def declare_known(e, name, value):
    """model variable kf_<name> = 1 iff the path contains an input of the region of the known defect <name>"""
    v = e.int("kf_" + name, 0, 1)
    flag = int(bool(value))
    e.assume(lambda: v == flag)
    return flag


def skip(name, inregion):
    return bool(inregion) and KNOWN[name]


# ---------------------------------------------------------------- inputs

def declare_chunks(e, ndim, maxn, maxc, maxtot, zero=False, minc=None):
    """solver-enumerated chunking: per axis 1..maxn[a] chunks, sizes in [0 or 1, maxc], 1 <= total <= maxtot[a].
    zero=True: at least one chunk of the array is empty (the other chunkings belong to the zero=False obligation)."""
    maxn = maxn if isinstance(maxn, tuple) else (maxn,) * ndim
    maxtot = maxtot if isinstance(maxtot, tuple) else (maxtot,) * ndim
    sym = []
    for a in range(ndim):
        n = 1 + e.choice(f"n{a}", maxn[a])
        cs = [e.int(f"c{a}_{i}", 0 if zero else 1, maxc) for i in range(n)]
        t = _tot(cs)
        e.assume(lambda: (t >= 1) & (t <= maxtot[a]))
        sym.append(cs)
    if zero:
        e.assume(lambda: _or(c == 0 for cs in sym for c in cs))
    return tuple(tuple(operator.index(c) for c in cs) for cs in sym)


class W:
    """element of the free monoid over ints (+ is concatenation); 0 is accepted as the neutral element because NumPy starts empty reductions with it"""
    __slots__ = ("t",)

    def __init__(self, t=()):
        self.t = tuple(t)

    def __add__(self, o):
        if isinstance(o, W):
            return W(self.t + o.t)
        if isinstance(o, (int, np.integer)) and o == 0:
            return self
        return NotImplemented

    def __radd__(self, o):
        if isinstance(o, (int, np.integer)) and o == 0:
            return self
        return NotImplemented

    def __eq__(self, o):
        return isinstance(o, W) and self.t == o.t

    def __hash__(self):
        return hash(self.t)

    def __repr__(self):
        return f"W{self.t!r}"

    def __reduce__(self):
        return (W, (self.t,))


def x_monoid(shape):
    n = int(np.prod(shape))
    a = np.empty(n, dtype=object)
    for i in range(n):
        a[i] = W((i,))
    return a.reshape(shape)


def _mono(v):
    """object result -> (shape, list of tuples)"""
    v = np.asarray(v, dtype=object)
    out = []
    for w in v.ravel():
        if isinstance(w, W):
            out.append(w.t)
        elif isinstance(w, (int, np.integer)) and w == 0:
            out.append(())
        else:
            out.append(("?", repr(w)))
    return v.shape, out


_PRIMES = [2, 3, 5, 7, 11, 13, 17, 19, 23, 29, 31, 37, 41, 43, 47]


def x_powers(shape):
    """distinct powers: a sum determines the multiset of its terms (as long as no term is taken 3 / 5 times or more)"""
    n = int(np.prod(shape))
    base = 5 if n <= 26 else (3 if n <= 39 else None)
    if base is None:
        v = [(i * i * 2654435761 + 12345) % (2 ** 40) for i in range(n)]
    else:
        v = [base ** i for i in range(n)]
    return np.array(v, dtype="i8").reshape(shape)


def x_primes(shape):
    n = int(np.prod(shape))
    return np.array([_PRIMES[i % len(_PRIMES)] for i in range(n)], dtype="i8").reshape(shape)


def x_mixed(shape, m=11):
    n = int(np.prod(shape))
    return ((np.arange(n, dtype="i8") * 7 + 3) % m - 4).reshape(shape)


def x_perm(shape):
    """distinct values in a scrambled order"""
    n = int(np.prod(shape))
    p = 1
    for cand in (7, 11, 13, 17, 19, 23, 29, 31, 37, 41, 43, 47, 53, 59, 61, 67, 71, 73, 79, 83, 89, 97, 101):
        if math.gcd(cand, builtins.max(n, 1)) == 1:
            p = cand
            break
    return ((np.arange(n, dtype="i8") * p + 2) % builtins.max(n, 1)).reshape(shape) * 3 - n


TIE_PATTERNS = ("equal", "checker", "rows", "cols", "mod3", "perm")


def x_pattern(shape, pat):
    idx = np.indices(shape)
    flat = np.arange(int(np.prod(shape)), dtype="i8").reshape(shape)
    if pat == "equal":
        return np.full(shape, 7, dtype="i8")
    if pat == "checker":
        return (idx.sum(axis=0) % 2).astype("i8")
    if pat == "rows":
        return (idx[0] % 2).astype("i8")
    if pat == "cols":
        return (idx[-1] % 2).astype("i8")
    if pat == "mod3":
        return (flat * 5 + 1) % 3
    if pat == "perm":
        return x_perm(shape)
    raise HarnessError(pat)


def _from(x, chunks):
    d = da.from_array(x, chunks=chunks)
    if d.chunks != chunks:
        raise HarnessError(f"from_array changed the chunks {chunks} -> {d.chunks}")
    return d


# ---------------------------------------------------------------- comparing a batch of lazy results with NumPy

class Batch:
    def __init__(self, e, info):
        self.e = e
        self.info = info
        self.items = []

    def add(self, label, lazy_fn, want_fn, mode="exact", check_shape=True):
        """lazy_fn builds the dask array, want_fn the NumPy reference; NumPy never raises for the inputs generated here"""
        try:
            want = want_fn()
        except Exception as ex:
            raise HarnessError(f"reference raised for {label} ({self.info}): {type(ex).__name__}: {ex}")
        try:
            r = lazy_fn()
        except Exception as ex:
            raise Violation(f"{label}: building the dask array raised {type(ex).__name__}: {ex} ({self.info})")
        self.items.append((label, r, want, mode, check_shape))

    def run(self):
        e = self.e
        digest = 0
        for label, r, want, mode, check_shape in self.items:
            w = np.asarray(want)
            if check_shape:
                e.check(r.shape == w.shape, f"{label}: declared shape {r.shape}, NumPy {w.shape} ({self.info})")
                e.check(tuple(builtins.sum(c) for c in r.chunks) == r.shape, f"{label}: chunks {r.chunks} do not add up to the declared shape {r.shape} ({self.info})")
            if mode != "approx":
                e.check(r.dtype == w.dtype, f"{label}: declared dtype {r.dtype}, NumPy {w.dtype} ({self.info})")
        with warnings.catch_warnings():
            warnings.simplefilter("ignore")
            try:
                vals = dask.compute(*[it[1] for it in self.items], scheduler="sync")
            except Exception:
                vals = []
                for label, r, want, mode, check_shape in self.items:
                    try:
                        vals.append(r.compute(scheduler="sync"))
                    except Exception as ex:
                        raise Violation(f"{label}: compute raised {type(ex).__name__}: {str(ex)[:200]} ({self.info})")
        for (label, r, want, mode, check_shape), got in zip(self.items, vals):
            got = np.asarray(got)
            w = np.asarray(want)
            if check_shape:
                e.check(got.shape == r.shape, f"{label}: computed shape {got.shape} differs from the declared shape {r.shape} ({self.info})")
            e.check(got.shape == w.shape, f"{label}: computed shape {got.shape}, NumPy {w.shape} ({self.info})")
            if mode == "approx":
                e.check(got.dtype == w.dtype, f"{label}: computed dtype {got.dtype}, NumPy {w.dtype} ({self.info})")
                e.check(bool(np.allclose(got, w, rtol=1e-9, atol=1e-9, equal_nan=True)), f"{label}: {got.tolist()} differs from NumPy {w.tolist()} ({self.info})")
                continue
            if mode in ("ordered", "multiset"):
                gs, gl = _mono(got)
                ws, wl = _mono(w)
                if mode == "multiset":
                    gl, wl = [tuple(sorted(t)) for t in gl], [tuple(sorted(t)) for t in wl]
                e.check(gl == wl, f"{label}: witness elements {gl}, expected {wl} ({self.info})")
                digest += builtins.sum(len(t) for t in gl)
                continue
            e.check(got.dtype == w.dtype, f"{label}: computed dtype {got.dtype}, NumPy {w.dtype} ({self.info})")
            e.check(bool(np.array_equal(got, w)), f"{label}: {got.tolist()} differs from NumPy {w.tolist()} ({self.info})")
            digest = (digest * 31 + int(np.asarray(got, dtype="i8").sum() if got.size else 0)) % 1000003
        n = len(self.items)
        self.items = []
        return [n, digest]


def axis_selections(nd, tier):
    if nd == 1:
        return [None, -1, (0,)] if tier == "quick" else [None, 0, -1, (0,)]
    if nd == 2:
        out = [None, 0, 1, -1, (0, 1)]
        if tier == "thorough":
            out += [(1, 0), (-1, -2)]
        return out
    out = [None, 0, 1, 2, (0, 2), (1, 2), (0, 1, 2)]
    if tier == "thorough":
        out += [-1, (0, 1), (2, 0)]
    return out


def int_axes(nd):
    return [None] + list(range(nd)) + [-1]


def split_everys(nd, tier):
    if nd == 1:
        out = [None, 2, 3, {0: 2}]
        if tier == "thorough":
            out += [4, {0: 3}]
        return out
    # (with <= 3 blocks per axis split_every=3 builds the same trees as None or 2: thorough only)
    out = [None, 2, {0: 2, 1: 3}, {0: 3}]
    if tier == "thorough":
        out += [3, 9, {1: 2}]
    return out


def _se_name(se):
    return "None" if se is None else (str(se) if isinstance(se, int) else "{" + ",".join(f"{k}:{v}" for k, v in sorted(se.items())) + "}")


# ---------------------------------------------------------------- (1) arg_reduction's offset table, symbolic chunk sizes

class _NoNaN:
    def any(self):
        return False


def _np_shim():
    def isnan(x, *a, **k):
        if isinstance(x, SInt):
            return False
        if isinstance(x, (tuple, list)) and builtins.all(isinstance(i, (int, SInt)) for i in x):
            return _NoNaN()
        return np.isnan(x, *a, **k)
    return ModuleShim(np, isnan=isnan)


class RecX:
    """stand-in for the reduced Array: metadata only.  rechunk() (not called by the pinned tree; a repair of the empty-chunk defect may drop
    zero-length chunks first) declares the requested chunks; the offsets are then checked against the chunks of the array that is actually used"""

    def __init__(self, chunks, rec=None):
        self.chunks = chunks
        self.name = "x"
        self.dtype = np.dtype("i8")
        self.rec = rec

    ndim = property(lambda s: len(s.chunks))
    numblocks = property(lambda s: tuple(len(c) for c in s.chunks))
    shape = property(lambda s: tuple(_tot(c) for c in s.chunks))

    def rechunk(self, chunks=None, **kw):
        new = list(self.chunks)
        if isinstance(chunks, dict):
            for a, c in chunks.items():
                new[a] = tuple(c)
        else:
            new = [tuple(c) for c in chunks]
        r = RecX(tuple(new), self.rec)
        if self.rec is not None:
            self.rec.eff = r
        return r


class _Rec:
    def __init__(self):
        self.dsk = None
        self.tmp = None
        self.tree = None
        self.eff = None


def mk_arg_offsets(nblocks):
    nd = len(nblocks)

    def setup(e):
        chunks = tuple(tuple(e.int(f"c{a}_{i}", 0) for i in range(n)) for a, n in enumerate(nblocks))
        return (chunks,)

    def run(e, chunks0):
        summary = []
        for axis in [None] + list(range(nd)) + [-1]:
            for keepdims in (False, True):
                rec = _Rec()

                class FakeHLG:
                    @staticmethod
                    def from_collections(name, dsk, dependencies=()):
                        rec.dsk = dict(dsk)
                        rec.deps = list(dependencies)
                        return ("graph", name)

                def FakeArray(graph, name, chunks, dtype=None, meta=None):
                    rec.tmp = (name, chunks)
                    return ("tmp", name)

                def fake_tree(x, agg, axis, keepdims=False, dtype=None, split_every=None, combine=None, **kw):
                    rec.tree = (x, axis, keepdims, split_every)
                    return "result"

                x = RecX(chunks0, rec)
                chunk_f, comb_f, agg_f = object(), object(), object()
                with patched((R, "HighLevelGraph", FakeHLG), (R, "Array", FakeArray), (R, "_tree_reduce", fake_tree),
                             (R, "tokenize", lambda *a, **k: "tok"), (R, "meta_from_array", lambda x, *a, **k: np.empty((0,), dtype="i8")),
                             (R, "np", _np_shim() if e.mode == "sym" else np)):
                    out = R.arg_reduction(x, chunk_f, comb_f, agg_f, axis=axis, keepdims=keepdims, split_every=3)
                e.check(out == "result", "arg_reduction does not return the tree reduction's result")
                chunks = chunks0 if rec.eff is None else rec.eff.chunks       # the array the graph is built on
                numblocks = tuple(len(c) for c in chunks)
                e.check(len(chunks) == nd, "the reduced array changed its number of dimensions")
                e.check(lambda: _and(_tot(a) == _tot(b) for a, b in zip(chunks, chunks0)), "the reduced array changed its shape")
                ax = None if axis is None else axis % nd
                ravel = axis is None or nd == 1
                red = tuple(range(nd)) if axis is None else (ax,)
                e.check(rec.tree is not None and rec.tree[1] == red and rec.tree[2] == keepdims and rec.tree[3] == 3,
                        f"tree reduction called with axis={rec.tree and rec.tree[1]}, expected {red}")
                name, tchunks = rec.tmp
                keys = list(itertools.product(*[range(n) for n in numblocks]))
                e.check(set(rec.dsk) == {(name,) + k for k in keys}, "the chunk layer does not have exactly one task per input block")
                for a in range(nd):
                    if a in red:
                        e.check(tuple(tchunks[a]) == (1,) * numblocks[a], "reduced axis of the intermediate array is not one element per block")
                    else:
                        e.check(len(tchunks[a]) == numblocks[a], "free axis of the intermediate array changed its number of blocks")
                        e.check(lambda: _and(g == c for g, c in zip(tchunks[a], chunks[a])), "free axis of the intermediate array changed its chunk sizes")
                shape = tuple(_tot(c) for c in chunks)
                for k in keys:
                    t = rec.dsk[(name,) + k]
                    e.check(t[0] is chunk_f and t[1] == ("x",) + k and t[2] == red, f"task of block {k} does not apply the chunk function to block {k} with axis {red}")
                    off = t[3]
                    want = tuple(_tot(chunks[a][:k[a]]) for a in range(nd))       # exclusive prefix sums, written independently
                    if ravel:
                        e.check(isinstance(off, tuple) and len(off) == 2 and len(off[0]) == nd and len(off[1]) == nd, "offset_info of a raveled arg reduction is not (offsets, total shape)")
                        e.check(lambda: _and(o == w for o, w in zip(off[0], want)), f"block {k}: offset vector differs from the sum of the preceding chunk sizes")
                        e.check(lambda: _and(s == w for s, w in zip(off[1], shape)), f"block {k}: total shape differs from the sums of the chunk sizes")
                        summary.append([list(off[0]), list(off[1])])
                    else:
                        e.check(lambda: off == want[ax], f"block {k}: offset along axis {ax} differs from the sum of the preceding chunk sizes")
                        summary.append(off)
        return summary

    def e2e(model):
        chunks = tuple(tuple(model[f"c{a}_{i}"] % 3 for i in range(n)) for a, n in enumerate(nblocks))
        chunks = tuple(c if builtins.sum(c) else c[:-1] + (1,) for c in chunks)
        shape = tuple(builtins.sum(c) for c in chunks)
        for pat in ("perm", "checker"):
            x = x_pattern(shape, pat)
            d = _from(x, chunks)
            for axis in [None] + list(range(nd)):
                for op in ("argmin", "argmax"):
                    if reg_arg_empty(chunks, axis):
                        continue        # witnesses of this obligation stay outside the open finding C22-arg-reduction-empty-chunk (no model variable here; the arg[...] obligations cover that region)
                    got = getattr(da, op)(d, axis=axis, split_every=2).compute(scheduler="sync")
                    want = getattr(np, op)(x, axis=axis)
                    if not np.array_equal(got, want):
                        raise Violation(f"{op}(axis={axis}) chunks={chunks} x={x.tolist()}: {np.asarray(got).tolist()}, NumPy {np.asarray(want).tolist()}")

    return Obligation(f"arg_offsets[blocks={list(nblocks)}]", setup, run, e2e=e2e, e2e_every=1)


# ---------------------------------------------------------------- (2) sum / prod / min / max / any / all (+nan variants, free monoid)

def mk_reduce(tier, nd, maxn, maxc, maxtot, zero=False, nan_ops=True):
    axes_l = axis_selections(nd, tier)
    ses = split_everys(nd, tier)

    def setup(e):
        chunks = declare_chunks(e, nd, maxn, maxc, maxtot, zero)
        declare_known(e, "minmax_empty_nd", reg_minmax_empty(chunks))
        return (chunks,)

    def run(e, chunks):
        shape = tuple(builtins.sum(c) for c in chunks)
        xi, xp, xm, xo = x_powers(shape), x_primes(shape), x_mixed(shape), x_monoid(shape)
        xb1, xb2 = (xm % 3 == 0), (xm > -4)
        di, dp, dm, do, db1, db2 = (_from(x, chunks) for x in (xi, xp, xm, xo, xb1, xb2))
        no_minmax = skip("minmax_empty_nd", reg_minmax_empty(chunks))
        obs = []
        for axis in axes_l:
            nred = len(_norm_axes(axis, nd))
            B = Batch(e, f"chunks={chunks} axis={axis}")
            for se in ses:
                for kd in (False, True):
                    tag = f"(axis={axis}, keepdims={kd}, split_every={_se_name(se)})"
                    kw = dict(axis=axis, keepdims=kd)
                    B.add("sum" + tag, lambda: da.sum(di, split_every=se, **kw), lambda: np.sum(xi, **kw))
                    B.add("sum[free monoid]" + tag, lambda: da.sum(do, split_every=se, **kw), lambda: np.sum(xo, **kw), mode="ordered" if nred == 1 else "multiset")
                    if not no_minmax:
                        B.add("min" + tag, lambda: da.min(dm, split_every=se, **kw), lambda: np.min(xm, **kw))
                    if kd:          # keepdims is handled by the shared tree code: three operations suffice
                        continue
                    B.add("prod" + tag, lambda: da.prod(dp, split_every=se, **kw), lambda: np.prod(xp, **kw))
                    B.add("any" + tag, lambda: da.any(db1, split_every=se, **kw), lambda: np.any(xb1, **kw))
                    B.add("all" + tag, lambda: da.all(db2, split_every=se, **kw), lambda: np.all(xb2, **kw))
                    if not no_minmax:
                        B.add("max" + tag, lambda: da.max(dm, split_every=se, **kw), lambda: np.max(xm, **kw))
                    if nan_ops and (se is None or se == 2):
                        B.add("nansum" + tag, lambda: da.nansum(di, split_every=se, **kw), lambda: np.nansum(xi, **kw))
                        B.add("nanprod" + tag, lambda: da.nanprod(dp, split_every=se, **kw), lambda: np.nanprod(xp, **kw))
                        if not no_minmax:
                            B.add("nanmin" + tag, lambda: da.nanmin(dm, split_every=se, **kw), lambda: np.nanmin(xm, **kw))
                            B.add("nanmax" + tag, lambda: da.nanmax(dm, split_every=se, **kw), lambda: np.nanmax(xm, **kw))
            obs.append(B.run())
        return obs

    return Obligation(f"reduce[{nd}d,chunks<={maxn},size<={maxc},len<={maxtot}{',empty-chunks' if zero else ''}]", setup, run)


# ---------------------------------------------------------------- (3) argmin / argmax family

def mk_arg(tier, nd, maxn, maxc, maxtot, zero=False, nvals=2, patterns=TIE_PATTERNS):
    ses = split_everys(nd, tier)

    def setup(e):
        chunks = declare_chunks(e, nd, maxn, maxc, maxtot, zero)
        shape = tuple(builtins.sum(c) for c in chunks)
        if nd == 1:
            vals = [e.choice(f"v{i}", nvals) for i in range(shape[0])]
            x = np.array(vals, dtype="i8")
        else:
            x = x_pattern(shape, e.pick("pattern", patterns))
        declare_known(e, "arg_empty", builtins.any(reg_arg_empty(chunks, ax) for ax in int_axes(nd)))
        declare_known(e, "arg_tie", builtins.any(reg_arg_tie(x, chunks, None, op) for op in ("min", "max")))
        return chunks, x

    def run(e, chunks, x):
        d = _from(x, chunks)
        B = Batch(e, f"chunks={chunks} x={x.tolist()}")
        for axis in int_axes(nd):
            if skip("arg_empty", reg_arg_empty(chunks, axis)):
                continue
            for op in ("argmin", "argmax", "nanargmin", "nanargmax"):
                tie = skip("arg_tie", reg_arg_tie(x, chunks, axis, op))
                for se in ses:
                    for kd in (False, True):
                        if op.startswith("nan") and (kd or isinstance(se, dict)):
                            continue
                        tag = f"{op}(axis={axis}, keepdims={kd}, split_every={_se_name(se)})"
                        if tie:
                            # known defect D1: only 'the index points at an extremum' is asserted
                            B.add(tag + " value at the index", lambda: getattr(da, op)(d, axis=axis, keepdims=kd, split_every=se).map_blocks(_np_ravel_take, x=x, dtype=x.dtype),
                                  lambda: x.ravel()[np.asarray(getattr(np, op)(x, axis=axis, keepdims=kd))], check_shape=False)
                        else:
                            B.add(tag, lambda: getattr(da, op)(d, axis=axis, keepdims=kd, split_every=se), lambda: getattr(np, op)(x, axis=axis, keepdims=kd))
        return B.run()

    return Obligation(f"arg[{nd}d,chunks<={maxn},size<={maxc},len<={maxtot}{',empty-chunks' if zero else ''}{',values<' + str(nvals) if nd == 1 else ''}]", setup, run)


# ---------------------------------------------------------------- (4) cumsum / cumprod, sequential and Blelloch

def mk_cum(tier, nd, maxn, maxc, maxtot, zero=False):
    def setup(e):
        chunks = declare_chunks(e, nd, maxn, maxc, maxtot, zero)
        declare_known(e, "cum_empty", builtins.any(reg_cum_empty(chunks, ax, "sequential") for ax in int_axes(nd)))
        declare_known(e, "flatten_empty", reg_flatten_empty(chunks, None))
        return (chunks,)

    def run(e, chunks):
        shape = tuple(builtins.sum(c) for c in chunks)
        xi, xp, xo = x_powers(shape), x_primes(shape), x_monoid(shape)
        di, dp, do = (_from(x, chunks) for x in (xi, xp, xo))
        B = Batch(e, f"chunks={chunks}")
        for axis in int_axes(nd):
            if skip("flatten_empty", reg_flatten_empty(chunks, axis)):
                continue
            for method in ("sequential", "blelloch"):
                if skip("cum_empty", reg_cum_empty(chunks, axis, method)):
                    continue
                tag = f"(axis={axis}, method={method})"
                B.add("cumsum" + tag, lambda: da.cumsum(di, axis=axis, method=method), lambda: np.cumsum(xi, axis=axis))
                B.add("cumprod" + tag, lambda: da.cumprod(dp, axis=axis, method=method), lambda: np.cumprod(xp, axis=axis))
                B.add("cumsum[free monoid]" + tag, lambda: da.cumsum(do, axis=axis, method=method), lambda: np.cumsum(xo, axis=axis), mode="ordered")
                B.add("nancumsum" + tag, lambda: da.nancumsum(di, axis, method=method), lambda: np.nancumsum(xi, axis=axis))
                B.add("nancumprod" + tag, lambda: da.nancumprod(dp, axis, method=method), lambda: np.nancumprod(xp, axis=axis))
        return B.run()

    return Obligation(f"cum[{nd}d,chunks<={maxn},size<={maxc},len<={maxtot}{',empty-chunks' if zero else ''}]", setup, run)


# ---------------------------------------------------------------- (5) topk / argtopk

def ref_topk(x, k, axis):
    s = np.sort(x, axis=axis)
    if k > 0:
        s = np.flip(s, axis=axis)
    sl = [slice(None)] * x.ndim
    sl[axis] = slice(0, abs(k))
    return s[tuple(sl)]


def ref_argtopk(x, k, axis):
    """only used on distinct values"""
    s = np.argsort(x, axis=axis, kind="stable")
    if k > 0:
        s = np.flip(s, axis=axis)
    sl = [slice(None)] * x.ndim
    sl[axis] = slice(0, abs(k))
    return s[tuple(sl)].astype(np.intp)


def _ties(shape):
    return (x_mixed(shape, 3) + 4)


def mk_topk(tier, nd, maxn, maxc, maxtot, zero=False):
    ses = [None, 2, 3] if tier == "quick" else [None, 2, 3, 4]
    kmax = (maxtot if isinstance(maxtot, int) else builtins.max(maxtot)) + 1

    def setup(e):
        chunks = declare_chunks(e, nd, maxn, maxc, maxtot, zero)
        shape = tuple(builtins.sum(c) for c in chunks)
        k = e.int("k", -kmax, kmax)
        lim = builtins.max(shape) + 1
        e.assume(lambda: (k != 0) & (k <= lim) & (k >= -lim))
        k = operator.index(k)
        declare_known(e, "argtopk_short", builtins.any(reg_argtopk_short(chunks[a], k, se) for a in range(nd) for se in ses))
        declare_known(e, "topk_shape", builtins.any(reg_topk_shape(shape[a], k) for a in range(nd)))
        return chunks, k

    def run(e, chunks, k):
        shape = tuple(builtins.sum(c) for c in chunks)
        xp_, xt = x_perm(shape), _ties(shape)
        dp, dt = _from(xp_, chunks), _from(xt, chunks)
        B = Batch(e, f"chunks={chunks} k={k}")
        for axis in list(range(nd)) + [-1]:
            ax = axis % nd
            if abs(k) > shape[ax] + 1:
                continue
            cs = not skip("topk_shape", reg_topk_shape(shape[ax], k))
            for se in ses:
                tag = f"(k={k}, axis={axis}, split_every={_se_name(se)})"
                B.add("topk" + tag, lambda: da.topk(dp, k, axis=axis, split_every=se), lambda: ref_topk(xp_, k, ax), check_shape=cs)
                B.add("topk[ties]" + tag, lambda: da.topk(dt, k, axis=axis, split_every=se), lambda: ref_topk(xt, k, ax), check_shape=cs)
                if skip("argtopk_short", reg_argtopk_short(chunks[ax], k, se)):
                    continue
                B.add("argtopk" + tag, lambda: da.argtopk(dp, k, axis=axis, split_every=se), lambda: ref_argtopk(xp_, k, ax), check_shape=cs)
                # ties: the indices must select the topk values ...
                B.add("argtopk[ties] selected values" + tag, lambda: _take_along(dt, xt, da.argtopk(dt, k, axis=axis, split_every=se), ax),
                      lambda: ref_topk(xt, k, ax), check_shape=False)
                # ... and be pairwise distinct along the axis
                B.add("argtopk[ties] distinct indices" + tag, lambda: _distinct(da.argtopk(dt, k, axis=axis, split_every=se), ax),
                      lambda: np.ones(tuple(1 if a == ax else s for a, s in enumerate(shape)), dtype=bool), check_shape=False)
        return B.run()

    return Obligation(f"topk[{nd}d,chunks<={maxn},size<={maxc},len<={maxtot}{',empty-chunks' if zero else ''}]", setup, run)


def mk_topk_wide(tier):
    """blocks of more than 16 elements: np.partition no longer sorts them completely, so an off-by-one in the selected position shows"""
    layouts = [(20, 17, 25), (33, 18), (17, 17, 17, 17, 19)]
    ks = (1, 3, 7, 17, 20) if tier == "quick" else (1, 2, 3, 5, 7, 16, 17, 18, 20, 40)

    def setup(e):
        chunks = (e.pick("layout", layouts),)
        sign = e.pick("sign", (1, -1))
        return chunks, sign

    def run(e, chunks, sign):
        shape = (builtins.sum(chunks[0]),)
        xq = x_perm(shape)
        xt = (np.arange(shape[0], dtype="i8") * 37 + 11) % 29
        x2 = np.stack([xq, xq[::-1], xt])
        dq, dt, d2 = _from(xq, chunks), _from(xt, chunks), _from(x2, ((2, 1),) + chunks)
        B = Batch(e, f"chunks={chunks}")
        for k0 in ks:
            k = sign * k0
            for se in (None, 2):
                tag = f"(k={k}, split_every={se})"
                B.add("topk" + tag, lambda: da.topk(dq, k, split_every=se), lambda: ref_topk(xq, k, 0))
                B.add("topk[ties]" + tag, lambda: da.topk(dt, k, split_every=se), lambda: ref_topk(xt, k, 0))
                B.add("argtopk" + tag, lambda: da.argtopk(dq, k, split_every=se), lambda: ref_argtopk(xq, k, 0))
                B.add("topk 2-d" + tag, lambda: da.topk(d2, k, axis=1, split_every=se), lambda: ref_topk(x2, k, 1))
                B.add("argtopk 2-d" + tag, lambda: da.argtopk(d2[:2], k, axis=1, split_every=se), lambda: ref_argtopk(x2[:2], k, 1))
        return B.run()

    return Obligation("topk[1d/2d,wide blocks]", setup, run)


def _np_ravel_take(idx, x=None):
    return x.ravel()[idx]


def _np_take(idx, x=None, axis=0):
    return np.take_along_axis(x, idx, axis)


def _take_along(d, x, idx, axis):
    """values of the (NumPy) data at the dask-computed indices, as a lazy array"""
    idx1 = idx.rechunk({a: -1 for a in range(idx.ndim)})
    return idx1.map_blocks(_np_take, x=x, axis=axis, dtype=x.dtype)


def _np_distinct(idx, axis=0):
    s = np.sort(idx, axis=axis)
    ok = (np.diff(s, axis=axis) > 0).all(axis=axis, keepdims=True)
    inr = (s >= 0).all(axis=axis, keepdims=True)
    return ok & inr


def _distinct(idx, axis):
    idx1 = idx.rechunk({a: -1 for a in range(idx.ndim)})
    return idx1.map_blocks(_np_distinct, axis=axis, dtype=bool, chunks=tuple((1,) if a == axis else c for a, c in enumerate(idx1.chunks)))


# ---------------------------------------------------------------- (6) mean / var / std / moment

def ref_moment(x, order, axis, keepdims, ddof=0):
    x = x.astype("f8")
    m = x.mean(axis=axis, keepdims=True)
    n = x.size // m.size
    with np.errstate(all="ignore"):
        return ((x - m) ** order).sum(axis=axis, keepdims=keepdims) / np.float64(n - ddof)


def mk_stats(tier, nd, maxn, maxc, maxtot, zero=False):
    axes_l = axis_selections(nd, tier)
    ses = split_everys(nd, tier)

    def setup(e):
        chunks = declare_chunks(e, nd, maxn, maxc, maxtot, zero)
        declare_known(e, "moment_empty", builtins.any(reg_moment_empty(chunks, ax, se) for ax in axes_l for se in ses))
        return (chunks,)

    def run(e, chunks):
        shape = tuple(builtins.sum(c) for c in chunks)
        x = x_mixed(shape)
        d = _from(x, chunks)
        obs = []
        for axis in axes_l:
            B = Batch(e, f"chunks={chunks} x={x.tolist()} axis={axis}")
            count = int(np.prod([shape[a] for a in _norm_axes(axis, nd)]))
            for se in ses:
                nomom = skip("moment_empty", reg_moment_empty(chunks, axis, se))
                for kd in (False, True):
                    tag = f"(axis={axis}, keepdims={kd}, split_every={_se_name(se)})"
                    kw = dict(axis=axis, keepdims=kd)
                    B.add("mean" + tag, lambda: da.mean(d, split_every=se, **kw), lambda: np.mean(x, **kw), mode="approx")
                    if not nomom:
                        B.add("var" + tag, lambda: da.var(d, split_every=se, **kw), lambda: np.var(x, **kw), mode="approx")
                    if kd:
                        continue
                    B.add("nanmean" + tag, lambda: da.nanmean(d, split_every=se, **kw), lambda: np.nanmean(x, **kw), mode="approx")
                    if nomom:
                        continue
                    B.add("std" + tag, lambda: da.std(d, split_every=se, **kw), lambda: np.std(x, **kw), mode="approx")
                    if se is None:      # orders 0 and 1 are 1 and 0 by definition
                        B.add("moment(0)" + tag, lambda: da.moment(d, 0, axis=axis), lambda: np.ones_like(np.mean(x, axis=axis)), mode="approx")
                        B.add("moment(1)" + tag, lambda: da.moment(d, 1, axis=axis), lambda: np.zeros_like(np.mean(x, axis=axis)), mode="approx")
                    B.add("nanvar" + tag, lambda: da.nanvar(d, split_every=se, **kw), lambda: np.nanvar(x, **kw), mode="approx")
                    B.add("moment(3)" + tag, lambda: da.moment(d, 3, split_every=se, **kw), lambda: ref_moment(x, 3, axis, kd), mode="approx")
                    if count >= 2:      # ddof < number of elements (NumPy: division by zero otherwise)
                        B.add("var ddof=1" + tag, lambda: da.var(d, ddof=1, split_every=se, **kw), lambda: np.var(x, ddof=1, **kw), mode="approx")
                    if se is None or se == 2:
                        B.add("nanstd" + tag, lambda: da.nanstd(d, split_every=se, **kw), lambda: np.nanstd(x, **kw), mode="approx")
                        B.add("moment(4)" + tag, lambda: da.moment(d, 4, split_every=se, **kw), lambda: ref_moment(x, 4, axis, kd), mode="approx")
                        if count >= 2:
                            B.add("std ddof=1" + tag, lambda: da.std(d, ddof=1, split_every=se, **kw), lambda: np.std(x, ddof=1, **kw), mode="approx")
            obs.append(B.run())
        return obs

    return Obligation(f"stats[{nd}d,chunks<={maxn},size<={maxc},len<={maxtot}{',empty-chunks' if zero else ''}]", setup, run)


# ---------------------------------------------------------------- (7) many blocks: trees of several levels, Blelloch sweeps of several levels

SIZE_PATTERNS = {
    "ones": lambda i: 1,
    "one-two": lambda i: 1 + i % 2,
    "gaps": lambda i: 0 if i % 3 == 1 else 1,          # empty chunks inside (regions of the known defects apply)
    "two-one-three": lambda i: (2, 1, 3)[i % 3],
}


def mk_deep1(tier, lo, hi, patterns):
    ses = [None, 2, 3, 4, {0: 2}] if tier == "quick" else [None, 2, 3, 4, 5, 8, {0: 2}, {0: 3}]

    def setup(e):
        nb = operator.index(e.int("nb", lo, hi))
        pat = e.pick("sizes", patterns)
        chunks = (tuple(SIZE_PATTERNS[pat](i) for i in range(nb)),)
        if builtins.sum(chunks[0]) == 0:
            e.assume(False)
        ks = (1, -2, 3)
        declare_known(e, "arg_empty", reg_arg_empty(chunks, 0))
        declare_known(e, "moment_empty", builtins.any(reg_moment_empty(chunks, 0, se) for se in ses))
        declare_known(e, "cum_empty", reg_cum_empty(chunks, 0, "sequential"))
        declare_known(e, "argtopk_short", builtins.any(reg_argtopk_short(chunks[0], k, se) for k in ks for se in ses))
        declare_known(e, "topk_shape", builtins.any(reg_topk_shape(builtins.sum(chunks[0]), k) for k in ks))
        return chunks, ks

    def run(e, chunks, ks):
        shape = (builtins.sum(chunks[0]),)
        n = shape[0]
        xi, xp, xm, xo, xq = x_powers(shape), x_primes(shape), x_mixed(shape), x_monoid(shape), x_perm(shape)
        xe = np.full(shape, 3, dtype="i8")                       # all equal: first occurrence is index 0
        xl = xe.copy()
        xl[-1] = 2                                               # unique minimum in the last block, maximum tied everywhere else
        di, dp, dm, do, dq, de, dl = (_from(x, chunks) for x in (xi, xp, xm, xo, xq, xe, xl))
        B = Batch(e, f"chunks={chunks}")
        for se in ses:
            tag = f"(split_every={_se_name(se)})"
            B.add("sum" + tag, lambda: da.sum(di, split_every=se), lambda: np.sum(xi))
            B.add("sum[free monoid]" + tag, lambda: da.sum(do, split_every=se), lambda: np.sum(xo), mode="ordered")
            B.add("prod" + tag, lambda: da.prod(dp, split_every=se), lambda: np.prod(xp))
            B.add("min" + tag, lambda: da.min(dm, split_every=se, keepdims=True), lambda: np.min(xm, keepdims=True))
            B.add("max" + tag, lambda: da.max(dm, split_every=se), lambda: np.max(xm))
            B.add("any" + tag, lambda: da.any(dm == 6, split_every=se), lambda: np.any(xm == 6))
            B.add("all" + tag, lambda: da.all(dm != 6, split_every=se), lambda: np.all(xm != 6))
            B.add("mean" + tag, lambda: da.mean(dm, split_every=se), lambda: np.mean(xm), mode="approx")
            if not skip("moment_empty", reg_moment_empty(chunks, 0, se)):
                B.add("var" + tag, lambda: da.var(dm, split_every=se), lambda: np.var(xm), mode="approx")
                B.add("moment(3)" + tag, lambda: da.moment(dm, 3, split_every=se), lambda: ref_moment(xm, 3, None, False), mode="approx")
            if not skip("arg_empty", reg_arg_empty(chunks, 0)):
                for nm, dd, xx in (("equal", de, xe), ("last", dl, xl), ("mixed", dm, xm)):
                    B.add(f"argmin[{nm}]" + tag, lambda: da.argmin(dd, split_every=se), lambda: np.argmin(xx))
                    B.add(f"argmax[{nm}]" + tag, lambda: da.argmax(dd, axis=0, split_every=se, keepdims=True), lambda: np.argmax(xx, axis=0, keepdims=True))
            for k in ks:
                if abs(k) > n + 1:
                    continue
                cs = not skip("topk_shape", reg_topk_shape(n, k))
                B.add(f"topk({k})" + tag, lambda: da.topk(dm, k, split_every=se), lambda: ref_topk(xm, k, 0), check_shape=cs)
                if not skip("argtopk_short", reg_argtopk_short(chunks[0], k, se)):
                    B.add(f"argtopk({k})" + tag, lambda: da.argtopk(dq, k, split_every=se), lambda: ref_argtopk(xq, k, 0), check_shape=cs)
        for method in ("sequential", "blelloch"):
            if skip("cum_empty", reg_cum_empty(chunks, 0, method)):
                continue
            tag = f"(method={method})"
            B.add("cumsum" + tag, lambda: da.cumsum(di, axis=0, method=method), lambda: np.cumsum(xi))
            B.add("cumsum[free monoid]" + tag, lambda: da.cumsum(do, axis=0, method=method), lambda: np.cumsum(xo), mode="ordered")
            B.add("cumprod" + tag, lambda: da.cumprod(dp, axis=0, method=method), lambda: np.cumprod(xp))
            B.add("cumsum(axis=None)" + tag, lambda: da.cumsum(dm, method=method), lambda: np.cumsum(xm))
        return B.run()

    return Obligation(f"deep[1d,blocks={lo}..{hi},sizes={'/'.join(patterns)}]", setup, run)


def mk_deep2(tier, max0, max1):
    ses = [None, 2, 3, 9, {0: 2, 1: 2}, {0: 3}] if tier == "quick" else [None, 2, 3, 4, 9, 16, {0: 2, 1: 2}, {0: 3}, {0: 2, 1: 3}, {1: 2}]

    def setup(e):
        nb0 = operator.index(e.int("nb0", 1, max0))
        nb1 = operator.index(e.int("nb1", 1, max1))
        pat = e.pick("sizes", ["ones", "one-two"])
        chunks = (tuple(SIZE_PATTERNS[pat](i) for i in range(nb0)), tuple(1 for _ in range(nb1)))
        shape = tuple(builtins.sum(c) for c in chunks)
        declare_known(e, "arg_tie", reg_arg_tie(x_mixed(shape), chunks, None, "max") or reg_arg_tie(np.full(shape, 3, dtype="i8"), chunks, None, "min"))
        return (chunks,)

    def run(e, chunks):
        shape = tuple(builtins.sum(c) for c in chunks)
        xi, xm, xo, xe = x_powers(shape), x_mixed(shape), x_monoid(shape), np.full(shape, 3, dtype="i8")
        di, dm, do, de = (_from(x, chunks) for x in (xi, xm, xo, xe))
        B = Batch(e, f"chunks={chunks}")
        for axis in (None, 0, 1, (0, 1)):
            nred = len(_norm_axes(axis, 2))
            for se in ses:
                for kd in (False, True):
                    tag = f"(axis={axis}, keepdims={kd}, split_every={_se_name(se)})"
                    kw = dict(axis=axis, keepdims=kd)
                    B.add("sum" + tag, lambda: da.sum(di, split_every=se, **kw), lambda: np.sum(xi, **kw))
                    B.add("sum[free monoid]" + tag, lambda: da.sum(do, split_every=se, **kw), lambda: np.sum(xo, **kw), mode="ordered" if nred == 1 else "multiset")
                    if kd:
                        continue
                    B.add("max" + tag, lambda: da.max(dm, split_every=se, **kw), lambda: np.max(xm, **kw))
                    B.add("var" + tag, lambda: da.var(dm, split_every=se, **kw), lambda: np.var(xm, **kw), mode="approx")
                    if not isinstance(axis, tuple):
                        if not skip("arg_tie", reg_arg_tie(xm, chunks, axis, "max")):
                            B.add("argmax" + tag, lambda: da.argmax(dm, split_every=se, **kw), lambda: np.argmax(xm, **kw))
                        if not skip("arg_tie", reg_arg_tie(xe, chunks, axis, "min")):
                            B.add("argmin[equal]" + tag, lambda: da.argmin(de, split_every=se, **kw), lambda: np.argmin(xe, **kw))
        for axis in (0, 1, None):
            for method in ("sequential", "blelloch"):
                tag = f"(axis={axis}, method={method})"
                B.add("cumsum" + tag, lambda: da.cumsum(di, axis=axis, method=method), lambda: np.cumsum(xi, axis=axis))
                B.add("cumsum[free monoid]" + tag, lambda: da.cumsum(do, axis=axis, method=method), lambda: np.cumsum(xo, axis=axis), mode="ordered")
        for axis in (0, 1):
            for se in (None, 2, 3):
                B.add(f"topk(2, axis={axis}, split_every={se})", lambda: da.topk(dm, 2, axis=axis, split_every=se), lambda: ref_topk(xm, 2, axis), check_shape=shape[axis] >= 2 or not KNOWN["topk_shape"])
        return B.run()

    return Obligation(f"deep[2d,blocks<={max0}x{max1}]", setup, run)


# ---------------------------------------------------------------- obligations

def mk_nan_data(cols):
    """the nan-variants on data that really CONTAINS NaN (results that are exact: indices, and sums/extrema of small integers): every NaN mask of a
    2 x cols float array with distinct integer values in two orders, every chunking of the columns into <= 3 chunks, rows in one or two chunks.
    Where NumPy raises (all-NaN slice for nanargmin/nanargmax) dask must raise too. Values pass through NumPy: solver-enumerated."""
    import itertools as _it
    col_chunkings = [c for k in (1, 2, 3) for c in _it.product(range(1, cols + 1), repeat=k) if builtins.sum(c) == cols]

    def setup(e):
        mask = [e.flag(f"nan{i}") for i in range(2 * cols)]
        order = e.pick("order", ("increasing", "decreasing"))
        cc = e.pick("col_chunks", col_chunkings)
        rc = e.pick("row_chunks", ((2,), (1, 1)))
        return mask, order, cc, rc

    def run(e, mask, order, cc, rc):
        vals = np.arange(1, 2 * cols + 1, dtype=float)
        if order == "decreasing":
            vals = vals[::-1].copy()
        vals[np.array(mask, dtype=bool)] = np.nan
        x = vals.reshape(2, cols)
        d = da.from_array(x, chunks=(rc, cc))
        info = f"x={x.tolist()} chunks={(rc, cc)}"
        out = []
        import warnings
        for name in ("nanargmax", "nanargmin", "nanmax", "nanmin", "nansum", "nanprod", "nancumsum"):
            for axis in ((0, 1, None) if name != "nancumsum" else (0, 1)):
                for se in ((None, 2) if not name.startswith("nancum") else (None,)):
                    kw = {} if name.startswith("nancum") else dict(split_every=se)
                    with warnings.catch_warnings():
                        warnings.simplefilter("ignore")
                        try:
                            want = getattr(np, name)(x, axis=axis)
                            werr = None
                        except ValueError as ex:
                            want, werr = None, ex
                        try:
                            got = getattr(da, name)(d, axis=axis, **kw).compute(scheduler="sync")
                            gerr = None
                        except ValueError as ex:
                            got, gerr = None, ex
                    if werr is not None:
                        e.check(gerr is not None, f"{name}(axis={axis}): NumPy raises {werr!r} but dask returns {got!r} ({info})")
                        out.append("raises")
                        continue
                    e.check(gerr is None, f"{name}(axis={axis}, split_every={se}): dask raises {gerr!r}, NumPy returns {np.asarray(want).tolist()} ({info})")
                    e.check(np.shape(got) == np.shape(want) and bool(np.array_equal(got, want, equal_nan=True)),
                            f"{name}(axis={axis}, split_every={se}) = {np.asarray(got).tolist()}, NumPy {np.asarray(want).tolist()} ({info})")
                    out.append(np.asarray(got).tolist())
        return str(out)

    return Obligation(f"nan_data[2x{cols},<=3 column chunks]", setup, run)


def obligations(tier):
    obs = []
    if tier == "quick":
        obs += [mk_arg_offsets(nb) for nb in ((1,), (2,), (3,), (2, 2), (3, 2), (2, 3), (2, 2, 2))]
        obs.append(mk_reduce(tier, 1, 4, 3, 5))
        obs.append(mk_reduce(tier, 2, 3, 2, 3, nan_ops=False))
        obs.append(mk_reduce(tier, 1, 4, 2, 2, zero=True))
        obs.append(mk_reduce(tier, 2, 2, 2, 2, zero=True, nan_ops=False))
        obs.append(mk_arg(tier, 1, 3, 3, 4))
        obs.append(mk_arg(tier, 2, (2, 3), 2, 3, patterns=("equal", "mod3", "perm")))
        obs.append(mk_arg(tier, 1, 3, 2, 3, zero=True))
        obs.append(mk_arg(tier, 2, 2, 2, 2, zero=True, patterns=("equal", "perm")))
        obs.append(mk_cum(tier, 1, 4, 2, 5))
        obs.append(mk_cum(tier, 2, (3, 2), 2, 3))
        obs.append(mk_cum(tier, 1, 4, 2, 3, zero=True))
        obs.append(mk_cum(tier, 2, 2, 2, 2, zero=True))
        obs.append(mk_topk(tier, 1, 3, 3, 4))
        obs.append(mk_topk(tier, 2, 2, 2, 3))
        obs.append(mk_topk(tier, 1, 3, 2, 3, zero=True))
        obs.append(mk_topk_wide(tier))
        obs.append(mk_stats(tier, 1, 3, 3, 4))
        obs.append(mk_stats(tier, 2, 2, 2, 3))
        obs.append(mk_stats(tier, 1, 3, 2, 3, zero=True))
        obs.append(mk_deep1(tier, 1, 9, ["ones", "one-two", "gaps"]))
        obs.append(mk_deep2(tier, 5, 3))
        obs.append(mk_nan_data(3))
    else:
        obs.append(mk_nan_data(4))
        obs += [mk_arg_offsets(nb) for nb in ((1,), (2,), (3,), (4,), (5,), (6,), (2, 2), (3, 2), (2, 3), (3, 3), (4, 3), (4, 4), (2, 2, 2), (3, 2, 2), (2, 2, 3))]
        obs.append(mk_reduce(tier, 1, 5, 3, 6))
        obs.append(mk_reduce(tier, 2, 3, 2, 4))
        obs.append(mk_reduce(tier, 3, 2, 2, (3, 2, 2), nan_ops=False))
        obs.append(mk_reduce(tier, 1, 5, 2, 4, zero=True))
        obs.append(mk_reduce(tier, 2, (3, 2), 2, (3, 2), zero=True, nan_ops=False))
        obs.append(mk_arg(tier, 1, 4, 3, 4, nvals=3))
        obs.append(mk_arg(tier, 1, 4, 3, 5))
        obs.append(mk_arg(tier, 2, 3, 2, 4))
        obs.append(mk_arg(tier, 3, 2, 2, 2))
        obs.append(mk_arg(tier, 1, 4, 2, 3, zero=True))
        obs.append(mk_arg(tier, 2, (3, 2), 2, (3, 2), zero=True, patterns=("equal", "checker", "perm")))
        obs.append(mk_cum(tier, 1, 5, 3, 6))
        obs.append(mk_cum(tier, 2, 3, 2, 4))
        obs.append(mk_cum(tier, 3, 2, 2, 3))
        obs.append(mk_cum(tier, 1, 5, 2, 4, zero=True))
        obs.append(mk_cum(tier, 2, 3, 2, 3, zero=True))
        obs.append(mk_topk(tier, 1, 4, 3, 5))
        obs.append(mk_topk(tier, 2, 3, 2, 4))
        obs.append(mk_topk(tier, 1, 4, 2, 4, zero=True))
        obs.append(mk_topk(tier, 2, 2, 2, 3, zero=True))
        obs.append(mk_topk_wide(tier))
        obs.append(mk_stats(tier, 1, 4, 3, 5))
        obs.append(mk_stats(tier, 2, (3, 2), 2, (4, 3)))
        obs.append(mk_stats(tier, 1, 4, 2, 4, zero=True))
        obs.append(mk_stats(tier, 2, 2, 2, (3, 2), zero=True))
        obs.append(mk_deep1(tier, 1, 33, ["ones", "one-two", "gaps", "two-one-three"]))
        obs.append(mk_deep2(tier, 9, 4))
    return obs
