"""C33 -- masked-array operations equal numpy.ma for every chunking.

dask.array.ma (masked_array, masked_where / masked_equal / masked_greater(_equal) / masked_less(_equal) / masked_not_equal / masked_inside /
masked_outside / masked_invalid / masked_values / fix_invalid, getdata / getmaskarray / filled / set_fill_value, count, average, nonzero / where,
ones_like / zeros_like / empty_like), elementwise arithmetic and comparisons between masked arrays and between masked and plain arrays, the
reductions sum / prod / min / max / mean / var / std / any / all on masked blocks (dask.array.reductions with the masked dispatches of
dask.array.backends: concatenate, numel, divide), concatenate / stack / rechunk / slicing / transpose of masked arrays and assignment of np.ma.masked.

Every one of these is NumPy C code per block glued together by blockwise / reduction trees / the concatenate dispatch, so the inputs -- the length or
shape, the chunking (irregular, size-1 and size-0 chunks), every mask bit (all-masked chunks, all-masked arrays, nomask), the fill value, the way the
masked array is built -- are enumerated by the solver and pushed through the public API with the synchronous scheduler.  The oracle is numpy.ma on the
unchunked arrays.  Only mask-agnostic views are compared: np.ma.getmaskarray(result) and the data at the UNMASKED positions (the data under the mask is
left unspecified by numpy.ma and is never looked at), plus shape, dtype and -- where numpy.ma defines it -- the fill value.
"""
from __future__ import annotations

import builtins
import os
import warnings
import zlib

import numpy as np

from symx.core import Violation, HarnessError
from symx.run import Obligation

import dask
import dask.array as da
import dask.array.ma as MA
import dask.array.backends as BK
import dask.array.reductions as R
import dask.array.routines as RT

PROPERTY = "C33"
LEVEL = "other"
BUDGET = {"quick": 400, "thorough": 2400}      # caps, not targets
CHUNK_PATHS = 40
EXPLANATION = (
    "Solver-driven enumeration through dask's PUBLIC masked-array API against numpy.ma. For EVERY length / shape within the bound, EVERY chunking of "
    "each axis into at most K chunks (size-0 chunks anywhere in the 1-d obligations and in the n-d obligations marked 'empty-chunks'), EVERY assignment of "
    "mask bits (1-d; n-d: a table of mask patterns containing nomask, all-masked, one masked row / column / block / element) and the listed fill values, "
    "the masked array is built (alternately with da.ma.masked_array(data, mask=, fill_value=) and with da.from_array(numpy masked array)), all expressions of "
    "the obligation are built lazily, computed with scheduler='sync' and compared with numpy.ma on the unchunked arrays: same shape (declared and computed), "
    "same np.ma.getmaskarray, same data at the unmasked positions (exact for integer / bool results; float results of mean / var / std / average / true "
    "division within rtol = atol = 1e-9), same dtype, and for constructors, mask makers, elementwise operations and reductions the same fill_value (numpy.ma "
    "defines it there; not for concatenate / stack / var / std, where dask deliberately keeps the common fill value and numpy.ma resets it). Reductions "
    "run over every axis selection, keepdims and split_every in {None, 2, dict}; all-masked chunks, all-masked results (np.ma.masked) and nomask inputs are "
    "part of the enumeration. Every path is replayed natively.")
ASSUMPTIONS = [
    "reference = the numpy.ma function / MaskedArray method of the same name on the unchunked masked array (np.ma.masked_array, np.ma.masked_where, ..., "
    "MaskedArray.sum / prod / min / max / mean / var / std / any / all, np.ma.count, np.ma.average, np.ma.nonzero, np.ma.where, np.ma.concatenate, np.ma.stack)",
    "the data under the mask is unspecified: only np.ma.getmaskarray(result) and the data at unmasked positions are compared (getdata is compared at the "
    "unmasked positions only; empty_like: shape, dtype and mask only)",
    "reductions, average and nonzero run on arrays with at least one element (numpy.ma warns / returns nan or masked inconsistently on size-0 input); "
    "size-0 CHUNKS inside a non-empty axis are generated; constructors, mask makers, elementwise operations, concatenate and slicing also run on size-0 arrays",
    "integer data (exact); float results only through mean / var / std / average / true division (rtol = atol = 1e-9, the tolerance granted for a different "
    "summation order) and through masked_invalid / fix_invalid / masked_values (exact)",
    "n-d min / max with a zero-size chunk (open finding C22-minmax-empty-chunk-nd), slicing of / negative steps over axes of length <= 1 that are cut into "
    "several chunks (open finding C19-degenerate-axis-several-chunks) and 1-d weights on such axes are not generated here",
    "split_every is None, an int >= 2 or a dict axis -> int >= 2; scalar fill values and scalar `value` arguments where dask documents only those "
    "(masked_equal, masked_values, set_fill_value, fill_value=)",
]
STUBS = ["none: dask runs unmodified through its public API"]
ENUM = [
    "ALL inputs are concretised (they pass through NumPy): array length / shape, number of chunks and every chunk size, every mask bit or the mask pattern, "
    "nomask flag, fill value, data pattern are solver-enumerated shape variables; thresholds, axis selections, keepdims, split_every, operators and "
    "the second operand's chunking are Python loops inside a path",
    "dask.array.ma has no pure-integer kernel of its own (index tuples of blockwise only): there is no genuinely symbolic obligation in this property",
]
OUTSIDE = [
    "np.count_nonzero / da.count_nonzero on masked arrays (numpy.ma has no count_nonzero; np.count_nonzero ignores the mask, dask counts the unmasked non-zeros)",
    "cumsum / cumprod / argmin / argmax / topk / median / percentile on masked arrays (scans and arg reductions: C22; they are not in the statement)",
    "tensordot / dot / matmul / einsum of masked arrays, np.ma functions dask does not wrap (masked_object, mask_rows, compress_rows, ...)",
    "the fill_value of concatenate / stack / var / std results (numpy.ma resets it, dask keeps a common one), non-scalar fill values, structured dtypes, hard masks",
    "float data beyond NaN / inf / small halves for masked_invalid / fix_invalid / masked_values; the float summation-order tolerance analysis",
    "reductions of size-0 arrays; arrays with more elements / chunks / dimensions than the tier's bounds; unknown (NaN) chunk sizes",
    "schedulers other than the synchronous one, the array-expression backend",
]
BOUNDS = {
    "quick": dict(construct="1-d length 0..3, every chunking into <= 2 chunks (size-0 chunks anywhere), every mask, fill value in {None, 9}, nomask",
                  makers="1-d length 0..3, every chunking into <= 2 chunks, 3 mask patterns, thresholds {0, 2}, intervals (1,2) (2,1) (3,3), array thresholds; 2-d shapes (2,2) (2,3) "
                         "with <= 2 chunks per axis (sizes >= 1), 4 mask patterns, scalar / row / full-array thresholds; NaN / inf data for masked_invalid / fix_invalid",
                  elementwise="1-d length 0..3, <= 2 chunks, every mask of the first operand, second operand chunked the same / reversed / in one chunk (alternating); 2-d shapes (2,2) "
                              "(2,3) (1,2), 5 mask patterns, broadcasting against a masked row / masked column / scalar; 12 operators, neg, abs, &, ma.where",
                  reduce="1-d length 1..3 with <= 3 chunks and length 4 with <= 2 chunks, every mask, nomask; 2-d shapes (2,2) (2,3) (3,2) (1,3), <= 2 chunks per axis, 5 mask "
                         "patterns; 2-d with empty chunks: shapes (2,2) (1,2), <= 2 chunks per axis, 4 mask patterns (no min / max); axis None / each / (0,1), keepdims, "
                         "split_every {None, 2, dict}",
                  average="1-d length 1..3, <= 2 chunks, every mask; 2-d shapes (2,2) (2,3), 5 mask patterns; weights none / 1-d / full, returned, keepdims; nonzero / where(cond)",
                  structure="1-d length 0..3 with <= 2 chunks and 0..2 with <= 3 chunks, every mask, length 4 with <= 2 chunks and 4 mask patterns: concatenate / stack / every slice [a:b] / steps / rechunk / fancy index / reshape; "
                            "2-d (2,2) (2,3): all axes, block, transpose, reshape",
                  assign="1-d length 1..3, <= 2 chunks, 2 mask patterns, 3 key patterns: slices, integer, integer list, numpy / dask boolean key"),
    "thorough": dict(construct="length 0..4 with <= 3 chunks", makers="1-d length 0..4 / <= 3 chunks (2 data patterns) and 0..3 / <= 4 chunks; 2-d additionally (1,2) (3,2) (2,1,2), <= 3 chunks per axis for (2,2)",
                     elementwise="1-d length 0..4 with <= 3 chunks; 2-d additionally (3,2) (2,1,2)",
                     reduce="1-d length 1..4 with <= 3 chunks, length 5 with <= 3 chunks and 7 mask patterns, length 1..3 with <= 4 chunks; 2-d / 3-d additionally (3,3) (2,1,2) (2,2,2), 7 mask "
                            "patterns, every mask of (2,2) and (2,3), <= 3 chunks per axis for (2,2) (2,3); empty chunks additionally for (2,3) (3,1), 7 mask patterns",
                     average="1-d length 1..4, <= 3 chunks; 2-d additionally (3,2) (2,1,2), every mask of (2,2)",
                     structure="1-d length 0..4, <= 3 chunks; 2-d additionally (3,2), <= 3 chunks per axis for (2,2)",
                     assign="length 1..3, <= 3 chunks, every mask, every boolean key"),
}

# ----------------------------------------------------------------------------------------------------------------------------------
# Findings on the unchanged tree.  Each region is named by a model variable (value 1 inside the region); the assertion inside the region runs LAST on
# its path.  While a region is listed here, VERIF_C33_SKIP_OPEN=1 skips exactly that last assertion (default: assert).
OPEN_REGIONS = {
    "avg_returned_unweighted_masked":
        "da.ma.average(a, returned=True) WITHOUT weights returns the number of ALL elements along the axis as sum_of_weights, numpy.ma returns the number of "
        "UNMASKED elements (a.count(axis)); the two differ as soon as one element is masked. dask/array/routines.py _average: "
        "`scl = avg.dtype.type(a.size / avg.size)` is the plain-NumPy formula and ignores is_masked. Reproduction: "
        "xm = np.ma.masked_array([1, 2, 5], mask=[1, 0, 0]); da.ma.average(da.from_array(xm, chunks=2), returned=True)[1] -> 3.0, np.ma.average(xm, returned=True)[1] -> 2.0",
    "avg_weighted_all_masked_sum_of_weights":
        "da.ma.average(a, weights=w, returned=True) where every element along the reduced axis is masked: numpy.ma returns (masked, masked), dask returns "
        "(masked, 0.0): _average multiplies the weights by ~getmaskarray(a), which makes them a PLAIN array of zeros (numpy.ma additionally sets wgt.mask |= a.mask), "
        "so their sum is an unmasked 0.0. Reproduction: xm = np.ma.masked_array([1, 2], mask=[1, 1]); "
        "da.ma.average(da.from_array(xm, chunks=1), weights=da.from_array(np.array([1, 2]), chunks=1), returned=True)[1].compute() -> 0.0, numpy.ma -> masked",
    "avg_weighted_all_masked_empty_chunk":
        "da.ma.average(a, weights=w) where every element along the reduced axis is masked AND the axis has a zero-size chunk returns an unmasked nan, numpy.ma "
        "returns masked: np.multiply(empty masked block, empty weights, dtype=float) has mask=nomask, its sum is an unmasked 0.0, the total of [masked, 0.0] is an "
        "unmasked 0.0 and 0.0 / 0.0 (the unmasked zero sum of weights of the previous finding) = nan. Reproduction: xm = np.ma.masked_array([1, 2], mask=[1, 1]); "
        "da.ma.average(da.from_array(xm, chunks=((0, 2),)), weights=da.from_array(np.array([1, 2]), chunks=((0, 2),))).compute() -> nan, numpy.ma -> masked",
    "reduce_comparison_all_masked_empty_chunk":
        "a reduction of a COMPARISON (>, ==, != ...) or remainder of a masked array whose inputs along the reduced axes are all masked while a reduced axis "
        "has a zero-size chunk returns the unmasked identity (False / True / 0) instead of masked: numpy.ma gives the result of a comparison of an EMPTY masked "
        "block mask=nomask (arithmetic keeps the empty mask array), the reduction of that block is an unmasked identity and the aggregate of [identity, masked] is "
        "unmasked. Reproduction: xm = np.ma.masked_array([1, 2], mask=[1, 1]); (da.from_array(xm, chunks=((0, 2),)) > 0).any().compute() -> False, "
        "(xm > 0).any() -> masked (chunks=((2,),) gives masked)",
    "fancy_index_fill_value_lost":
        "indexing a masked array that has an explicit fill value with an integer list / array loses the fill value (numpy.ma: xm[[3, 0]] keeps it) whenever an output "
        "chunk draws from two input chunks: dask/array/_shuffle.py concatenate_arrays applies take_lookup = np.take (dask/array/backends.py registers plain np.take "
        "for np.ma.masked_array), and np.take / MaskedArray.take reset the fill value to the default, so da.ma.filled(x[idx]) fills with 999999. Reproduction: "
        "xm = np.ma.masked_array([1, 0, 3, 2], mask=[1, 0, 0, 0], fill_value=9); da.ma.filled(da.from_array(xm, chunks=2)[[3, 0]]).compute() -> [2, 999999], "
        "np.ma.filled(xm[[3, 0]]) -> [2, 9] (chunks=4 gives [2, 9])",
    "setitem_boolarray_masked":
        "x[key] = np.ma.masked (documented in docs/source/array-assignment.rst) with a boolean dask ARRAY key of x's shape: Array.__setitem__ takes the "
        "`where(key, value, self)` shortcut, np.where is not mask-aware, so the result is a PLAIN array with the masked scalar's fill value written into the data "
        "and every existing mask of x is lost; slices / integers / 1-d boolean keys of an n-d array go through setitem_array and are right. Reproduction: "
        "d = da.from_array(np.ma.masked_array([1, 2, 5], mask=[1, 0, 0]), chunks=2); d[da.from_array(np.array([False, True, False]), chunks=2)] = np.ma.masked; "
        "d.compute() -> array([1, 999999, 5]), numpy.ma -> [-- -- 5]",
}
SKIP_OPEN = os.environ.get("VERIF_C33_SKIP_OPEN", "") == "1"

F = -77          # sentinel written over the masked positions before comparing


def functions():
    return [MA.masked_array, MA._masked_array, MA._wrap_masked, MA.masked_equal, MA.masked_invalid, MA.masked_inside, MA.masked_outside, MA.masked_where,
            MA.masked_values, MA.fix_invalid, MA.getdata, MA.getmaskarray, MA.filled, MA.set_fill_value, MA._set_fill_value, MA.average, MA.count,
            MA._chunk_count, MA.ones_like, MA.zeros_like, MA.empty_like, MA.nonzero, MA.where, BK._concatenate, BK._numel_masked, RT._average,
            R._sqrt, R.safe_sqrt, R.mean_chunk, R.mean_combine, R.mean_agg, R.moment_chunk, R.moment_agg]


# ---------------------------------------------------------------------------------------------------------------------------------- inputs

def chunking(e, tag, n, K, zero=True):
    """solver-enumerated chunking of an axis of length n (plain int): 1..K chunks adding up to n, every composition once; zero=False: sizes >= 1"""
    if not zero:
        if n == 0:
            return (0,)
        k = 1 + e.choice(f"k{tag}", builtins.min(K, n))
        out, left = [], n
        for i in range(k - 1):
            c = 1 + e.choice(f"c{tag}_{i}", left - (k - 1 - i))
            out.append(c)
            left -= c
        out.append(left)
        return tuple(out)
    k = 1 + e.choice(f"k{tag}", K)
    out, left = [], n
    for i in range(k - 1):
        c = e.choice(f"c{tag}_{i}", left + 1)
        out.append(c)
        left -= c
    out.append(left)
    return tuple(out)


def bits(e, tag, n):
    return np.array([e.choice(f"{tag}{i}", 2) for i in range(n)], dtype=bool)


FILLS = (None, 9)


def declare_1d(e, N, K, nmin=0, masks="all", fills="derived"):
    """length, chunking, mask (every bit / a pattern), nomask flag (only when no bit is set), fill value (fills=True: enumerated; "derived": alternates
    with the other inputs; False: numpy.ma's default)"""
    n = nmin + e.choice("n", N + 1 - nmin)
    ch = chunking(e, "x", n, K)
    if masks == "all":
        m = bits(e, "m", n)
    else:
        m = mask_pattern((n,), e.pick("mask", masks))
    nomask = bool(e.flag("nomask")) if not m.any() else False
    fv = e.pick("fill_value", FILLS) if fills is True else (FILLS[(n + int(m.sum()) + len(ch)) % 2] if fills else None)
    return n, (ch,), m, nomask, fv


MASKS_ND = ("none", "all", "row0", "col0", "checker", "last", "allbutfirst")


def mask_pattern(shape, pat):
    idx = np.indices(shape) if len(shape) else np.zeros((0,))
    size = int(np.prod(shape))
    flat = np.arange(size).reshape(shape)
    if pat == "none":
        return np.zeros(shape, dtype=bool)
    if pat == "all":
        return np.ones(shape, dtype=bool)
    if pat == "row0":
        return idx[0] == 0
    if pat == "col0":
        return idx[-1] == 0
    if pat == "checker":
        return idx.sum(axis=0) % 2 == 1
    if pat == "last":
        return flat == size - 1
    if pat == "allbutfirst":
        return flat != 0
    raise HarnessError(pat)


def declare_nd(e, shapes, K, zero=False, masks=MASKS_ND, allbits=()):
    shape = e.pick("shape", shapes)
    chunks = tuple(chunking(e, f"a{a}", d, K, zero=zero) for a, d in enumerate(shape))
    if shape in allbits:
        m = bits(e, "m", int(np.prod(shape))).reshape(shape)
    else:
        m = mask_pattern(shape, e.pick("mask", masks))
    nomask = bool(e.flag("nomask")) if not m.any() else False
    fv = FILLS[(int(m.sum()) + builtins.sum(len(c) for c in chunks)) % 2]
    return shape, chunks, m, nomask, fv


def data(shape, kind="mixed"):
    n = int(np.prod(shape))
    i = np.arange(n, dtype="i8")
    if kind == "mixed":          # small values 0..3 with repeats
        v = (i * 3 + 1) % 4
    elif kind == "mixed2":
        v = (i * 5 + 2) % 4
    elif kind == "powers":       # a sum determines the multiset of its terms
        v = 5 ** i
    elif kind == "primes":
        v = np.array([2, 3, 5, 7, 11, 13, 17, 19, 23, 29, 31, 37][:n], dtype="i8")
    elif kind == "signed":
        v = (i * 7 + 3) % 11 - 4
    else:
        raise HarnessError(kind)
    return np.asarray(v, dtype="i8").reshape(shape)


def darr(x, chunks):
    d = da.from_array(x, chunks=chunks)
    if d.chunks != tuple(tuple(c) for c in chunks):
        raise HarnessError(f"from_array changed the chunks {chunks} -> {d.chunks}")
    return d


def ref_masked(x, m, nomask, fv):
    return np.ma.masked_array(x, mask=np.ma.nomask if nomask else m, fill_value=fv)


def dmasked(x, m, nomask, fv, chunks, via):
    """the dask masked array; via=0: da.from_array(numpy masked array), via=1: da.ma.masked_array(dask data, mask=dask mask, fill_value=)"""
    if via == 0:
        return darr(ref_masked(x, m, nomask, fv), chunks)
    if nomask:
        return da.ma.masked_array(darr(x, chunks), fill_value=fv)
    return da.ma.masked_array(darr(x, chunks), mask=darr(m, chunks), fill_value=fv)


def via_of(m, chunks):
    return (int(m.sum()) + builtins.sum(len(c) for c in chunks)) % 2


def degenerate(chunks):
    """an axis of length <= 1 cut into several chunks (open finding C19-degenerate-axis-several-chunks)"""
    return builtins.any(len(c) > 1 and builtins.sum(c) <= 1 for c in chunks)


def region(e, name, value):
    """model variable naming the region of a finding: name == 1 iff the path's concrete inputs are inside the region"""
    f = e.int(name, 0, 1)
    v = 1 if value else 0
    e.assume(lambda: f == v)
    return v


# ---------------------------------------------------------------------------------------------------------------------------------- comparing

def attempt(fn):
    try:
        return "ok", fn()
    except (Violation, HarnessError):
        raise
    except Exception as ex:
        return "raised", type(ex).__name__ + ": " + str(ex)[:160]


def view(v):
    """mask-agnostic view of a result: (shape, mask, data with the sentinel at the masked positions, dtype or None for the masked singleton, fill value)"""
    if v is np.ma.masked:
        return (), np.array(True), np.array(F), None, None
    m = np.asarray(np.ma.getmaskarray(v))
    dt = np.asarray(np.ma.getdata(v))
    fv = v.fill_value if isinstance(v, np.ma.MaskedArray) else None
    return dt.shape, m, np.where(m, F, dt), dt.dtype, fv


class Batch(list):
    """the (dask expression, numpy.ma outcome) pairs of one path: all expressions are built first, computed in ONE dask.compute(scheduler='sync') call
    (one by one when that raises) and then compared.  The list holds the observation."""

    def __init__(self, e, info, explicit_fv=True):
        super().__init__()
        self.e = e
        self.info = info
        self.items = []
        # numpy.ma materialises a DEFAULT fill value lazily (the first read of .fill_value fixes it, and results derived afterwards inherit it
        # converted to their dtype instead of their own default): fill values are compared only when the input's fill value was given explicitly
        self.explicit_fv = explicit_fv

    def add(self, label, dask_fn, numpy_fn, approx=False, fv=False, data=True, extra=""):
        """approx: float tolerance; fv: compare the fill value; data=False: shape / dtype / mask only (empty_like)"""
        with warnings.catch_warnings():
            warnings.simplefilter("ignore")
            wst, want = attempt(numpy_fn)
            gst, got = attempt(dask_fn)           # builds the graph only
        self.items.append(dict(label=label, approx=approx, fv=fv and self.explicit_fv, data=data, wst=wst, want=want, gst=gst, got=got, info=self.info + extra))

    @staticmethod
    def _parts(g):
        return list(g) if isinstance(g, (tuple, list)) else [g]

    def finish(self):
        e = self.e
        joint = [it for it in self.items if it["gst"] == "ok" and it["wst"] == "ok"]
        lazies = [p for it in joint for p in self._parts(it["got"]) if isinstance(p, da.Array)]
        with warnings.catch_warnings():
            warnings.simplefilter("ignore")
            try:
                vals = list(dask.compute(*lazies, scheduler="sync")) if lazies else []
            except (Violation, HarnessError):
                raise
            except Exception:
                vals = None
            for it in self.items:
                if it["gst"] != "ok":
                    continue
                parts = self._parts(it["got"])
                if vals is not None and it["wst"] == "ok":
                    it["val"] = [vals.pop(0) if isinstance(p, da.Array) else p for p in parts]
                else:
                    it["gst"], r = attempt(lambda: [p.compute(scheduler="sync") if isinstance(p, da.Array) else p for p in parts])
                    if it["gst"] == "ok":
                        it["val"] = r
                    else:
                        it["got"] = r
        for it in self.items:
            label, info = it["label"], it["info"]
            if it["wst"] == "raised":
                e.check(it["gst"] == "raised", f"{label}: numpy.ma raises ({it['want']}) but dask returns a value [{info}]")
                self.append(f"{label}=raised")
                continue
            e.check(it["gst"] == "ok", f"{label}: dask raises {it['got']} but numpy.ma returns a value [{info}]")
            want, parts, val = it["want"], self._parts(it["got"]), it["val"]
            if isinstance(want, (tuple, list)):
                e.check(isinstance(it["got"], (tuple, list)) and len(val) == len(want), f"{label}: dask returns {len(val)} results, numpy.ma {len(want)} [{info}]")
                for i, (p, v, w) in enumerate(zip(parts, val, want)):
                    self._same(f"{label}[{i}]", p, v, w, it)
            else:
                e.check(not isinstance(it["got"], (tuple, list)), f"{label}: dask returns a sequence, numpy.ma one array [{info}]")
                self._same(label, parts[0], val[0], want, it)
        self.items = []
        return [len(self), zlib.crc32("\n".join(self).encode())]

    def _same(self, label, lazy, val, want, it):
        e, info = self.e, it["info"]
        gs, gm, gd, gt, gf = view(val)
        ws, wm, wd, wt, wf = view(want)
        if isinstance(lazy, da.Array) and builtins.all(isinstance(s, (int, np.integer)) for s in lazy.shape):
            e.check(tuple(lazy.shape) == ws, f"{label}: dask declares shape {lazy.shape}, numpy.ma's result has shape {ws} [{info}]")
        e.check(gs == ws, f"{label}: dask's result has shape {gs}, numpy.ma's {ws} [{info}]")
        e.check(bool(np.array_equal(gm, wm)), f"{label}: MASK differs: dask {gm.astype(int).tolist()}, numpy.ma {wm.astype(int).tolist()} [{info}]")
        if it["data"]:
            if it["approx"]:
                ok = bool(np.allclose(np.asarray(gd, dtype="f8"), np.asarray(wd, dtype="f8"), rtol=1e-9, atol=1e-9, equal_nan=True))
            else:
                ok = bool(np.array_equal(gd, wd, equal_nan=(gd.dtype.kind in "fc" and wd.dtype.kind in "fc")))
            e.check(ok, f"{label}: DATA at the unmasked positions differs: dask {gd.tolist()!r}, numpy.ma {wd.tolist()!r} ({F} = masked) [{info}]")
        if gt is not None and wt is not None:
            e.check(gt == wt, f"{label}: dask's result has dtype {gt}, numpy.ma's {wt} [{info}]")
        if it["fv"] and gt is not None and wt is not None and (gf is not None or wf is not None):
            e.check(gf is not None and wf is not None and bool(gf == wf), f"{label}: fill_value differs: dask {gf!r}, numpy.ma {wf!r} [{info}]")
        self.append(f"{label}={gm.astype(int).tolist()}/{np.round(np.asarray(gd, dtype='f8'), 6).tolist() if it['data'] else '-'}")


def quiet(fn):
    def run(e, *a):
        with warnings.catch_warnings():
            warnings.simplefilter("ignore")
            with np.errstate(all="ignore"):
                return fn(e, *a)
    return run


def ob(name, setup, run):
    return Obligation(name, setup, quiet(run))


def _info(x, m, nomask, fv, chunks):
    return f"data={np.asarray(x).tolist()} mask={'nomask' if nomask else np.asarray(m).astype(int).tolist()} fill_value={fv} chunks={chunks}"


# ---------------------------------------------------------------------------------------------------------------------------------- (1) construction / accessors

def mk_construct(N, K):
    def setup(e):
        return declare_1d(e, N, K, fills=True)

    def run(e, n, ch, m, nomask, fv):
        x = data((n,))
        xm = ref_masked(x, m, nomask, fv)
        out = Batch(e, _info(x, m, nomask, fv, ch), explicit_fv=fv is not None)
        dx, dm = darr(x, ch), darr(m, ch)
        d0 = dmasked(x, m, nomask, fv, ch, 0)
        d1 = dmasked(x, m, nomask, fv, ch, 1)
        out.add("from_array(masked)", lambda: d0, lambda: xm, fv=True)
        out.add("masked_array(dask data, dask mask, fill_value)", lambda: d1, lambda: xm, fv=True)
        if not nomask:
            out.add("masked_array(mask=numpy array)", lambda: da.ma.masked_array(dx, mask=m, fill_value=fv), lambda: xm, fv=True)
            out.add("masked_array(mask=list)", lambda: da.ma.masked_array(dx, mask=m.tolist()), lambda: np.ma.masked_array(x, mask=m.tolist()), fv=True)
            # a mask on top of masked data: numpy.ma ORs the two (keep_mask=True)
            m2 = np.roll(m, 1)
            out.add("masked_array(masked data, mask)", lambda: da.ma.masked_array(d0, mask=darr(m2, ch), fill_value=3), lambda: np.ma.masked_array(xm, mask=m2, fill_value=3), fv=True)
            out.add("masked_array(wrong mask shape)", lambda: da.ma.masked_array(dx, mask=np.zeros(n + 2, dtype=bool)), lambda: np.ma.masked_array(x, mask=np.zeros(n + 2, dtype=bool)))
        for scalar in (True, False):
            out.add(f"masked_array(mask={scalar})", lambda: da.ma.masked_array(dx, mask=scalar, fill_value=fv), lambda: np.ma.masked_array(x, mask=scalar, fill_value=fv), fv=True)
        # one-element masks that are NOT 0-d (numpy.ma broadcasts them over the data like a scalar)
        for one in ([True], [[False]], np.array([True])):
            out.add(f"masked_array(mask={one!r})", lambda: da.ma.masked_array(dx, mask=one, fill_value=fv), lambda: np.ma.masked_array(x, mask=one, fill_value=fv), fv=True)
        out.add("masked_array(dtype=f8)", lambda: da.ma.masked_array(d0, dtype="f8"), lambda: np.ma.masked_array(xm, dtype="f8"))
        out.add("masked_array(numpy data)", lambda: da.ma.masked_array(x, mask=dm, fill_value=fv), lambda: np.ma.masked_array(x, mask=m, fill_value=fv), fv=True)
        for name, d in (("from_array", d0), ("masked_array", d1)):
            out.add(f"filled()[{name}]", lambda: da.ma.filled(d), lambda: np.ma.filled(xm))
            out.add(f"filled(5)[{name}]", lambda: da.ma.filled(d, 5), lambda: np.ma.filled(xm, 5))
            out.add(f"getmaskarray[{name}]", lambda: da.ma.getmaskarray(d), lambda: np.ma.getmaskarray(xm))
            # getdata: only the unmasked positions are specified
            out.add(f"getdata at unmasked positions[{name}]", lambda: da.ma.masked_array(da.ma.getdata(d), mask=da.ma.getmaskarray(d)),
                    lambda: np.ma.masked_array(np.ma.getdata(xm), mask=np.ma.getmaskarray(xm)))
        out.add("filled(plain array)", lambda: da.ma.filled(dx, 5), lambda: np.ma.filled(x, 5))
        out.add("getmaskarray(plain array)", lambda: da.ma.getmaskarray(dx), lambda: np.ma.getmaskarray(x))
        out.add("getdata(plain array)", lambda: da.ma.getdata(dx), lambda: np.ma.getdata(x))

        # set_fill_value works IN PLACE and numpy.ma shares the fill value between an array and the arrays derived from it (views, copies, results of
        # ufuncs): the sources of these checks are fresh arrays with their own data, so that nothing else on the path can observe the change
        for via in ((0, 1) if n else ()):          # (empty arrays all have the same token: they would share the changed fill value)
            xs = x + 10 + via
            ds = dmasked(xs, m, nomask, fv, ch, via)
            da.ma.set_fill_value(ds, 3)
            ref = ref_masked(xs, m, nomask, fv)
            np.ma.set_fill_value(ref, 3)
            out.add(f"set_fill_value(3)[{('from_array', 'masked_array')[via]}]", lambda: ds, lambda: ref, fv=True)
            out.add(f"filled() after set_fill_value(3)[{('from_array', 'masked_array')[via]}]", lambda: da.ma.filled(ds), lambda: np.ma.filled(ref))
        out.add("set_fill_value(non-scalar) raises", lambda: da.ma.set_fill_value(dmasked(x + 20, m, nomask, fv, ch, 1), np.arange(2)), lambda: (_ for _ in ()).throw(ValueError("documented")))
        for nm in ("ones_like", "zeros_like"):
            out.add(nm, lambda: getattr(da.ma, nm)(d1), lambda: getattr(np.ma, nm)(xm), fv=True)
            out.add(nm + "(plain array)", lambda: getattr(da.ma, nm)(dx), lambda: getattr(np.ma, nm)(x))
        out.add("empty_like", lambda: da.ma.empty_like(d0), lambda: np.ma.empty_like(xm), data=False, fv=True)
        return out.finish()

    return ob(f"construct[n<={N},chunks<={K}]", setup, run)


# ---------------------------------------------------------------------------------------------------------------------------------- (2) mask makers

WRAPPED = ("masked_greater", "masked_greater_equal", "masked_less", "masked_less_equal", "masked_not_equal")
SCALAR_ONLY = ("masked_equal", "masked_values")


def _makers(out, d, xm, tag, fv=True):
    for nm in WRAPPED + SCALAR_ONLY:
        for v in (0, 2):
            out.add(f"{nm}({tag}, {v})", lambda: getattr(da.ma, nm)(d, v), lambda: getattr(np.ma, nm)(xm, v), fv=fv)
    for nm in ("masked_inside", "masked_outside"):
        for v1, v2 in ((1, 2), (2, 1), (3, 3)):
            out.add(f"{nm}({tag}, {v1}, {v2})", lambda: getattr(da.ma, nm)(d, v1, v2), lambda: getattr(np.ma, nm)(xm, v1, v2), fv=fv)
    out.add(f"masked_values({tag}, 2, shrink=False)", lambda: da.ma.masked_values(d, 2, shrink=False), lambda: np.ma.masked_values(xm, 2, shrink=False), fv=fv)
    out.add(f"masked_equal({tag}, array) raises", lambda: da.ma.masked_equal(d, np.arange(2)).compute(scheduler="sync"), lambda: (_ for _ in ()).throw(ValueError("documented")))


def _float_makers(out, x, m, nomask, ch, tag):
    """NaN / inf content for masked_invalid / fix_invalid / masked_values"""
    xf = np.where(x == 3, np.nan, x.astype("f8") * 0.5)
    xf = np.where(x == 0, np.inf, xf)
    xfm = np.ma.masked_array(xf, mask=np.ma.nomask if nomask else m)
    df, dp = darr(xfm, ch), darr(xf, ch)
    out.add(f"masked_invalid(masked {tag})", lambda: da.ma.masked_invalid(df), lambda: np.ma.masked_invalid(xfm), fv=True)
    out.add(f"masked_invalid(plain {tag})", lambda: da.ma.masked_invalid(dp), lambda: np.ma.masked_invalid(xf), fv=True)
    out.add(f"fix_invalid(masked {tag})", lambda: da.ma.fix_invalid(df), lambda: np.ma.fix_invalid(xfm))
    out.add(f"filled(fix_invalid(masked {tag}, 5))", lambda: da.ma.filled(da.ma.fix_invalid(df, fill_value=5)), lambda: np.ma.filled(np.ma.fix_invalid(xfm, fill_value=5)))
    out.add(f"fix_invalid(plain {tag})", lambda: da.ma.fix_invalid(dp), lambda: np.ma.fix_invalid(xf))
    out.add(f"masked_values(float {tag}, 0.5)", lambda: da.ma.masked_values(df, 0.5), lambda: np.ma.masked_values(xfm, 0.5), fv=True)
    out.add(f"masked_values(float {tag}, 1.0, atol=0.6, shrink=False)", lambda: da.ma.masked_values(dp, 1.0, atol=0.6, rtol=0, shrink=False),
            lambda: np.ma.masked_values(xf, 1.0, atol=0.6, rtol=0, shrink=False), fv=True)


def mk_makers(N, K, KINDS=("mixed",)):
    def setup(e):
        n, ch, m, nomask, fv = declare_1d(e, N, K, masks=("none", "checker", "all"))
        kind = e.pick("data", KINDS)
        return n, ch, m, nomask, fv, kind

    def run(e, n, ch, m, nomask, fv, kind):
        x = data((n,), kind)
        xm = ref_masked(x, m, nomask, fv)
        out = Batch(e, _info(x, m, nomask, fv, ch), explicit_fv=fv is not None)
        dx = darr(x, ch)
        d = dmasked(x, m, nomask, fv, ch, via_of(m, ch))
        cond = (x + np.arange(n)) % 2 == 0
        for tag, src, ref in (("plain", dx, x), ("masked", d, xm)):
            out.add(f"masked_where(dask cond, {tag})", lambda: da.ma.masked_where(darr(cond, ch), src), lambda: np.ma.masked_where(cond, ref), fv=True)
            out.add(f"masked_where(numpy cond, {tag})", lambda: da.ma.masked_where(cond, src), lambda: np.ma.masked_where(cond, ref), fv=True)
            out.add(f"masked_where(masked cond, {tag})", lambda: da.ma.masked_where(d > 1, src), lambda: np.ma.masked_where(xm > 1, ref))
            for scalar in (True, False):
                out.add(f"masked_where({scalar}, {tag})", lambda: da.ma.masked_where(scalar, src), lambda: np.ma.masked_where(scalar, ref), fv=True)
            _makers(out, src, ref, tag)
            thr = (np.arange(n, dtype="i8") * 2) % 3
            for nm in WRAPPED:
                out.add(f"{nm}({tag}, dask array)", lambda: getattr(da.ma, nm)(src, darr(thr, ch)), lambda: getattr(np.ma, nm)(ref, thr), fv=True)
        out.add("masked_where(wrong shape) raises", lambda: da.ma.masked_where(np.zeros(n + 1, dtype=bool), dx).compute(scheduler="sync"),
                lambda: np.ma.masked_where(np.zeros(n + 1, dtype=bool), x))
        _float_makers(out, x, m, nomask, ch, "1-d")
        return out.finish()

    return ob(f"makers[n<={N},chunks<={K}]", setup, run)


def mk_makers_nd(shapes, K):
    def setup(e):
        shape, ch, m, nomask, fv = declare_nd(e, shapes, K, masks=("none", "checker", "row0", "all"))
        return shape, ch, m, nomask, fv

    def run(e, shape, ch, m, nomask, fv):
        x = data(shape)
        xm = ref_masked(x, m, nomask, fv)
        out = Batch(e, _info(x, m, nomask, fv, ch), explicit_fv=fv is not None)
        dx = darr(x, ch)
        d = dmasked(x, m, nomask, fv, ch, via_of(m, ch))
        cond = data(shape, "mixed2") % 2 == 0
        row = (np.arange(shape[-1], dtype="i8") * 2 + 1) % 3
        full = data(shape, "mixed2")
        ch2 = tuple((s,) for s in shape)          # a differently chunked second argument
        for tag, src, ref in (("plain", dx, x), ("masked", d, xm)):
            out.add(f"masked_where(dask cond, {tag})", lambda: da.ma.masked_where(darr(cond, ch2), src), lambda: np.ma.masked_where(cond, ref), fv=True)
            out.add(f"masked_where(numpy cond, {tag})", lambda: da.ma.masked_where(cond, src), lambda: np.ma.masked_where(cond, ref), fv=True)
            _makers(out, src, ref, tag)
            for nm in WRAPPED:
                # (the value broadcasts against the trailing axes)
                out.add(f"{nm}({tag}, row)", lambda: getattr(da.ma, nm)(src, darr(row, (ch[-1],))), lambda: getattr(np.ma, nm)(ref, row), fv=True)
                out.add(f"{nm}({tag}, numpy row)", lambda: getattr(da.ma, nm)(src, row), lambda: getattr(np.ma, nm)(ref, row), fv=True)
                out.add(f"{nm}({tag}, full array)", lambda: getattr(da.ma, nm)(src, darr(full, ch2)), lambda: getattr(np.ma, nm)(ref, full), fv=True)
        out.add("masked_where(wrong shape) raises", lambda: da.ma.masked_where(np.zeros(shape[:-1] + (shape[-1] + 1,), dtype=bool), dx).compute(scheduler="sync"),
                lambda: np.ma.masked_where(np.zeros(shape[:-1] + (shape[-1] + 1,), dtype=bool), x))
        _float_makers(out, x, m, nomask, ch, "n-d")
        for nm in ("ones_like", "zeros_like"):
            out.add(nm, lambda: getattr(da.ma, nm)(d), lambda: getattr(np.ma, nm)(xm), fv=True)
        out.add("filled()", lambda: da.ma.filled(d), lambda: np.ma.filled(xm))
        out.add("getmaskarray", lambda: da.ma.getmaskarray(d), lambda: np.ma.getmaskarray(xm))
        return out.finish()

    return ob(f"makers_nd[shapes={list(shapes)},chunks<={K}]", setup, run)


# ---------------------------------------------------------------------------------------------------------------------------------- (3) elementwise

import operator as _op

OPS = (("add", _op.add, False), ("sub", _op.sub, False), ("mul", _op.mul, False), ("floordiv", _op.floordiv, False), ("truediv", _op.truediv, True),
       ("mod", _op.mod, False), ("lt", _op.lt, False), ("ge", _op.ge, False), ("eq", _op.eq, False), ("ne", _op.ne, False),
       ("np.maximum", np.maximum, False), ("np.add", np.add, False))


def _elementwise(out, d, xm, d2, xm2, dp, xp, tag):
    for nm, f, approx in OPS:
        out.add(f"{nm}(masked, masked{tag})", lambda: f(d, d2), lambda: f(xm, xm2), approx=approx, fv=True)
        out.add(f"{nm}(masked, plain{tag})", lambda: f(d, dp), lambda: f(xm, xp), approx=approx, fv=True)
        out.add(f"{nm}(plain, masked{tag})", lambda: f(dp, d2), lambda: f(xp, xm2), approx=approx)
        out.add(f"{nm}(masked, 2)", lambda: f(d, 2), lambda: f(xm, 2), approx=approx, fv=True)
    out.add("neg(masked)", lambda: -d, lambda: -xm, fv=True)
    out.add("abs(masked - 2)", lambda: abs(d - 2), lambda: abs(xm - 2), fv=True)
    out.add("(masked > 1) & (masked < 3)", lambda: (d > 1) & (d2 < 3), lambda: (xm > 1) & (xm2 < 3))
    out.add(f"ma.where(masked > 1, masked, masked{tag})", lambda: da.ma.where(d > 1, d, d2), lambda: np.ma.where(xm > 1, xm, xm2))
    out.add(f"ma.where(masked > 1, masked, plain{tag})", lambda: da.ma.where(d > 1, d, dp), lambda: np.ma.where(xm > 1, xm, xp))
    out.add("ma.where(plain cond, masked, 5)", lambda: da.ma.where(dp > 1, d, 5), lambda: np.ma.where(xp > 1, xm, 5))
    out.add("ma.where(cond, x) raises", lambda: da.ma.where(d > 1, d), lambda: (_ for _ in ()).throw(ValueError("documented")))


def mk_elementwise(N, K, derived=True):
    def setup(e):
        n, ch, m, nomask, fv = declare_1d(e, N, K)
        other = ("same", "reversed", "one")[(n + int(m.sum()) + len(ch[0]) + int(nomask)) % 3] if derived else e.pick("chunks2", ("same", "reversed", "one"))
        return n, ch, m, nomask, fv, other

    def run(e, n, ch, m, nomask, fv, other):
        x = data((n,))
        xm = ref_masked(x, m, nomask, fv)
        ch2 = {"same": ch, "reversed": (ch[0][::-1],), "one": ((n,),)}[other]
        x2 = data((n,), "mixed2") + 1
        m2 = np.roll(m, 1) if n else m
        xm2 = np.ma.masked_array(x2, mask=m2, fill_value=4)
        xp = data((n,), "signed")
        out = Batch(e, _info(x, m, nomask, fv, ch) + f" chunks of the second operand={ch2}", explicit_fv=fv is not None)
        d = dmasked(x, m, nomask, fv, ch, via_of(m, ch))
        d2 = dmasked(x2, m2, False, 4, ch2, 1 - via_of(m, ch))
        _elementwise(out, d, xm, d2, xm2, darr(xp, ch2), xp, "")
        return out.finish()

    return ob(f"elementwise[n<={N},chunks<={K}]", setup, run)


def mk_elementwise_nd(shapes, K):
    def setup(e):
        return declare_nd(e, shapes, K, masks=("none", "checker", "row0", "col0", "all"))

    def run(e, shape, ch, m, nomask, fv):
        x = data(shape)
        xm = ref_masked(x, m, nomask, fv)
        ch2 = tuple((s,) for s in shape)
        x2 = data(shape, "mixed2") + 1
        m2 = np.roll(m.ravel(), 1).reshape(shape)
        xm2 = np.ma.masked_array(x2, mask=m2, fill_value=4)
        xp = data(shape, "signed")
        out = Batch(e, _info(x, m, nomask, fv, ch), explicit_fv=fv is not None)
        d = dmasked(x, m, nomask, fv, ch, via_of(m, ch))
        d2 = dmasked(x2, m2, False, 4, ch2, 1 - via_of(m, ch))
        _elementwise(out, d, xm, d2, xm2, darr(xp, ch2), xp, "")
        # broadcasting against a masked row / a masked column of length 1
        r = np.arange(shape[-1], dtype="i8") + 1
        rm = np.ma.masked_array(r, mask=[i % 2 == 0 for i in range(shape[-1])])
        dr = darr(rm, (ch[-1],))
        col = np.ma.masked_array(np.arange(shape[0], dtype="i8").reshape((shape[0],) + (1,) * (len(shape) - 1)) + 2, mask=False)
        col[0] = np.ma.masked
        dc = darr(col, (ch[0],) + ((1,),) * (len(shape) - 1))
        for nm, f, approx in OPS[:6] + OPS[6:7]:
            out.add(f"{nm}(masked, masked row)", lambda: f(d, dr), lambda: f(xm, rm), approx=approx, fv=True)
            out.add(f"{nm}(masked column, masked)", lambda: f(dc, d), lambda: f(col, xm), approx=approx)
            out.add(f"{nm}(plain, masked row)", lambda: f(darr(xp, ch), dr), lambda: f(xp, rm), approx=approx)
        return out.finish()

    return ob(f"elementwise_nd[shapes={list(shapes)},chunks<={K}]", setup, run)


# ---------------------------------------------------------------------------------------------------------------------------------- (4) reductions

def axis_selections(nd):
    if nd == 1:
        return [None, 0]
    if nd == 2:
        return [None, 0, 1, (0, 1)]
    return [None, 0, 1, 2, (0, 2), (0, 1, 2)]


def split_everys(nd):
    return [None, 2, {0: 2}] if nd == 1 else [None, 2, {0: 2, 1: 3}]


def _se(se):
    return "None" if se is None else (str(se) if isinstance(se, int) else "{" + ",".join(f"{k}:{v}" for k, v in sorted(se.items())) + "}")


RED_ALL = ("sum", "prod", "min", "max", "mean", "var", "std", "any", "all")


def _reductions(out, shape, ch, m, nomask, fv, via, ops=RED_ALL, in_cmp=0):
    nd = len(shape)
    srcs = {}
    for kind in ("powers", "primes", "signed", "mixed"):
        x = data(shape, kind)
        srcs[kind] = (dmasked(x, m, nomask, fv, ch, via), ref_masked(x, m, nomask, fv))
    which = dict(sum="powers", prod="primes", min="signed", max="signed", mean="signed", var="signed", std="signed", any="mixed", all="mixed")      # (any / all: truth value of the integers 0..3)
    for axis in axis_selections(nd):
        for kd in (False, True):
            for se in split_everys(nd):
                if kd and isinstance(se, dict):
                    continue
                tag = f"(axis={axis}, keepdims={kd}, split_every={_se(se)})"
                for op in ops:
                    if kd and op in ("prod", "max", "any", "var", "all"):      # keepdims is handled by the shared tree code
                        continue
                    if isinstance(se, dict) and op in ("prod", "max", "all", "std", "any", "var"):
                        continue
                    d, xm = srcs[which[op]]
                    out.add(op + tag, lambda: getattr(da, op)(d, axis=axis, keepdims=kd, split_every=se), lambda: getattr(xm, op)(axis=axis, keepdims=kd),
                            approx=op in ("mean", "var", "std"))
                d, xm = srcs["mixed"]
                out.add("ma.count" + tag, lambda: da.ma.count(d, axis=axis, keepdims=kd, split_every=se), lambda: np.ma.count(xm, axis=axis, keepdims=kd))
    d, xm = srcs["signed"]
    out.add("Array.sum()", lambda: d.sum(), lambda: xm.sum())
    if "min" in ops:
        out.add("Array.min(axis=-1)", lambda: d.min(axis=-1), lambda: xm.min(axis=-1))
    out.add("mean(axis=-1)", lambda: d.mean(axis=-1), lambda: xm.mean(axis=-1), approx=True)
    if int((~m).sum()) >= 2:          # (ddof >= number of unmasked elements: division by zero, outside the claim as in C22)
        out.add("var(ddof=1)", lambda: da.var(d, ddof=1), lambda: xm.var(ddof=1), approx=True)
    out.add("sum of a sum", lambda: (d + d.sum(axis=0, keepdims=True)).sum(axis=-1), lambda: (xm + xm.sum(axis=0, keepdims=True)).sum(axis=-1))
    out.add("ma.count(plain array)", lambda: da.ma.count(darr(data(shape), ch)), lambda: np.ma.count(data(shape)))
    # reductions of comparison results (inside the region of the open finding these run last, see _late_comparisons)
    if not in_cmp:
        _comparisons(out, srcs["mixed"], nd)


def _comparisons(out, src, nd):
    d, xm = src
    for axis in [None] + list(range(nd)):
        out.add(f"any(masked > 1, axis={axis})", lambda: (d > 1).any(axis=axis), lambda: (xm > 1).any(axis=axis))
        out.add(f"all(masked % 3 == 0, axis={axis})", lambda: (d % 3 == 0).all(axis=axis), lambda: (xm % 3 == 0).all(axis=axis))
        out.add(f"sum(masked != 2, axis={axis})", lambda: (d != 2).sum(axis=axis), lambda: (xm != 2).sum(axis=axis))


def empty_chunk_all_masked(ch, m):
    """some reduction (over all axes or over one axis) has an output position whose inputs are all masked while a reduced axis has a zero-size chunk"""
    nd = m.ndim
    return builtins.any(_all_masked_along(m, ax) and builtins.any(0 in ch[a] for a in (range(nd) if ax is None else [ax])) for ax in [None] + list(range(nd)))


def _late_comparisons(e, shape, ch, m, nomask, fv, in_cmp):
    """LAST on the path: the reductions of comparison results inside the region reduce_comparison_all_masked_empty_chunk"""
    if not in_cmp or (SKIP_OPEN and "reduce_comparison_all_masked_empty_chunk" in OPEN_REGIONS):
        return []
    x = data(shape, "mixed")
    late = Batch(e, _info(x, m, nomask, fv, ch))
    _comparisons(late, (dmasked(x, m, nomask, fv, ch, via_of(m, ch)), ref_masked(x, m, nomask, fv)), len(shape))
    return late.finish()


def mk_reduce(N, K, nmin=1, masks="all"):
    def setup(e):
        n, ch, m, nomask, fv = declare_1d(e, N, K, nmin=nmin, masks=masks)
        return n, ch, m, nomask, fv, region(e, "reduce_comparison_all_masked_empty_chunk", empty_chunk_all_masked(ch, m))

    def run(e, n, ch, m, nomask, fv, in_cmp):
        out = Batch(e, _info("data((n,), kind)", m, nomask, fv, ch))
        _reductions(out, (n,), ch, m, nomask, fv, via_of(m, ch), in_cmp=in_cmp)
        return out.finish() + _late_comparisons(e, (n,), ch, m, nomask, fv, in_cmp) + [in_cmp]

    return ob(f"reduce[n={nmin}..{N},chunks<={K}{'' if masks == 'all' else ',mask patterns'}]", setup, run)


def mk_reduce_nd(shapes, K, zero=False, allbits=(), masks=MASKS_ND):
    ops = tuple(o for o in RED_ALL if not (zero and o in ("min", "max")))      # n-d min / max with an empty chunk: open finding C22-minmax-empty-chunk-nd

    def setup(e):
        shape, ch, m, nomask, fv = declare_nd(e, shapes, K, zero=zero, allbits=allbits, masks=masks)
        if zero:
            e.assume(builtins.any(0 in c for c in ch))
        return shape, ch, m, nomask, fv, region(e, "reduce_comparison_all_masked_empty_chunk", empty_chunk_all_masked(ch, m))

    def run(e, shape, ch, m, nomask, fv, in_cmp):
        out = Batch(e, _info("data(shape, kind)", m, nomask, fv, ch))
        _reductions(out, shape, ch, m, nomask, fv, via_of(m, ch), ops=ops, in_cmp=in_cmp)
        return out.finish() + _late_comparisons(e, shape, ch, m, nomask, fv, in_cmp) + [in_cmp]

    return ob(f"reduce_nd[shapes={list(shapes)},chunks<={K}{',empty-chunks' if zero else ''}{',every mask of ' + str(list(allbits)) if allbits else ''}]", setup, run)


# ---------------------------------------------------------------------------------------------------------------------------------- (5) average / nonzero

def _all_masked_along(m, axis):
    """some output position of a reduction over `axis` has only masked inputs"""
    return bool(np.asarray(m.all(axis=axis)).any())


def avg_regions(e, ch, m):
    nd = m.ndim
    axes = [None] + list(range(nd))
    in_ret = region(e, "avg_returned_unweighted_masked", bool(m.any()))
    in_scl = region(e, "avg_weighted_all_masked_sum_of_weights", builtins.any(_all_masked_along(m, ax) for ax in axes))
    in_nan = region(e, "avg_weighted_all_masked_empty_chunk", empty_chunk_all_masked(ch, m))
    return in_ret, in_scl, in_nan


def _average(e, shape, ch, m, nomask, fv, regs, weights_1d=True):
    nd = len(shape)
    in_ret, in_scl, in_nan = regs
    x = data(shape, "signed")
    xm = ref_masked(x, m, nomask, fv)
    d = dmasked(x, m, nomask, fv, ch, via_of(m, ch))
    info = _info(x, m, nomask, fv, ch)
    out, late = Batch(e, info), Batch(e, info)
    wf = (np.arange(x.size, dtype="i8").reshape(shape) * 2) % 3 + 1
    dwf = darr(wf, ch)
    any_masked = bool(m.any())
    for axis in [None] + list(range(nd)) + [-1]:
        for kd in (False, True):
            tag = f"(axis={axis}, keepdims={kd})"
            out.add("ma.average" + tag, lambda: da.ma.average(d, axis=axis, keepdims=kd), lambda: np.ma.average(xm, axis=axis, keepdims=kd), approx=True)
        ax = None if axis is None else axis % nd
        red_axes = list(range(nd)) if ax is None else [ax]
        allm = _all_masked_along(m, ax)
        bad_nan = allm and builtins.any(0 in ch[a] for a in red_axes)
        # average value (first result) without weights, returned=True: the value is right, the count is the finding
        (late if any_masked else out).add(f"ma.average(axis={axis}, returned=True)", lambda: da.ma.average(d, axis=axis, returned=True),
                                          lambda: np.ma.average(xm, axis=axis, returned=True), approx=True)
        if any_masked:
            out.add(f"ma.average(axis={axis}, returned=True)[0]", lambda: da.ma.average(d, axis=axis, returned=True)[0], lambda: np.ma.average(xm, axis=axis, returned=True)[0], approx=True)
        # full-shape weights
        (late if bad_nan else out).add(f"ma.average(axis={axis}, weights=full)", lambda: da.ma.average(d, axis=axis, weights=dwf), lambda: np.ma.average(xm, axis=axis, weights=wf), approx=True)
        (late if allm else out).add(f"ma.average(axis={axis}, weights=full, returned=True)", lambda: da.ma.average(d, axis=axis, weights=dwf, returned=True),
                                    lambda: np.ma.average(xm, axis=axis, weights=wf, returned=True), approx=True)
        if ax is not None and weights_1d and not degenerate(ch):
            w = np.arange(shape[ax], dtype="i8") + 1
            dw = darr(w, (ch[ax],))
            (late if bad_nan else out).add(f"ma.average(axis={axis}, weights=1-d, keepdims=True)", lambda: da.ma.average(d, axis=axis, weights=dw, keepdims=True),
                                           lambda: np.ma.average(xm, axis=axis, weights=w, keepdims=True), approx=True)
    out.add("ma.average(plain array)", lambda: da.ma.average(darr(x, ch), axis=0, weights=dwf), lambda: np.ma.average(x, axis=0, weights=wf), approx=True)
    # nonzero / where(cond)
    if not (nd >= 2 and degenerate(ch)):          # (flattening a degenerate axis: open finding C27-flatten-degenerate-axis)
        dz, xz = dmasked(data(shape), m, nomask, fv, ch, 0), ref_masked(data(shape), m, nomask, fv)
        out.add("ma.nonzero", lambda: da.ma.nonzero(dz), lambda: np.ma.nonzero(xz))
        out.add("ma.where(cond)", lambda: da.ma.where(dz), lambda: np.ma.where(xz))
        out.add("ma.nonzero(plain array)", lambda: da.ma.nonzero(darr(data(shape), ch)), lambda: np.ma.nonzero(data(shape)))
    obs = out.finish()
    # ---- inside the regions of the open findings: LAST on the path, the smallest region first
    late.items.sort(key=lambda it: 2 if "weights" not in it["label"] else (1 if "returned" in it["label"] else 0))
    if not SKIP_OPEN or not (set(OPEN_REGIONS) & {"avg_returned_unweighted_masked", "avg_weighted_all_masked_sum_of_weights", "avg_weighted_all_masked_empty_chunk"}):
        obs += late.finish()
    else:
        keep = []
        for it in late.items:
            lab = it["label"]
            name = ("avg_returned_unweighted_masked" if "weights" not in lab else
                    "avg_weighted_all_masked_sum_of_weights" if "returned" in lab else "avg_weighted_all_masked_empty_chunk")
            # (a weighted returned=True call inside BOTH weighted regions is skipped as long as either is open)
            open_ = name in OPEN_REGIONS or ("returned" in lab and "weights" in lab and "avg_weighted_all_masked_empty_chunk" in OPEN_REGIONS and in_nan)
            if not open_:
                keep.append(it)
        late.items = keep
        obs += late.finish()
    return obs + [in_ret, in_scl, in_nan]


def mk_average(N, K):
    def setup(e):
        n, ch, m, nomask, fv = declare_1d(e, N, K, nmin=1)
        return n, ch, m, nomask, fv, avg_regions(e, ch, m)

    def run(e, n, ch, m, nomask, fv, regs):
        return _average(e, (n,), ch, m, nomask, fv, regs)

    return ob(f"average[n=1..{N},chunks<={K}]", setup, run)


def mk_average_nd(shapes, K, allbits=()):
    def setup(e):
        shape, ch, m, nomask, fv = declare_nd(e, shapes, K, masks=("none", "all", "row0", "col0", "last"), allbits=allbits)
        return shape, ch, m, nomask, fv, avg_regions(e, ch, m)

    def run(e, shape, ch, m, nomask, fv, regs):
        return _average(e, shape, ch, m, nomask, fv, regs)

    return ob(f"average_nd[shapes={list(shapes)},chunks<={K}{',every mask of ' + str(list(allbits)) if allbits else ''}]", setup, run)


# ---------------------------------------------------------------------------------------------------------------------------------- (6) structure

def mk_structure(N, K, nmin=0, masks="all"):
    def setup(e):
        n, ch, m, nomask, fv = declare_1d(e, N, K, nmin=nmin, masks=masks)
        # (broad region: the fill value is lost when an output chunk of the fancy index draws from two input chunks)
        return n, ch, m, nomask, fv, region(e, "fancy_index_fill_value_lost", fv is not None and n >= 2 and len(ch[0]) > 1 and not degenerate(ch))

    def run(e, n, ch, m, nomask, fv, in_take):
        x = data((n,))
        xm = ref_masked(x, m, nomask, fv)
        x2 = data((n,), "mixed2") + 4
        m2 = ~m if n else m
        xm2 = np.ma.masked_array(x2, mask=m2, fill_value=fv)
        ch2 = (ch[0][::-1],)
        out = Batch(e, _info(x, m, nomask, fv, ch), explicit_fv=fv is not None)
        late = Batch(e, _info(x, m, nomask, fv, ch), explicit_fv=fv is not None)
        via = via_of(m, ch)
        d, d2, dp = dmasked(x, m, nomask, fv, ch, via), dmasked(x2, m2, False, fv, ch2, 1 - via), darr(x2, ch2)
        out.add("concatenate([masked, masked, masked])", lambda: da.concatenate([d, d2, d]), lambda: np.ma.concatenate([xm, xm2, xm]))
        out.add("concatenate([plain, masked])", lambda: da.concatenate([dp, d]), lambda: np.ma.concatenate([x2, xm]))
        out.add("concatenate([masked, plain])", lambda: da.concatenate([d, dp]), lambda: np.ma.concatenate([xm, x2]))
        out.add("stack([masked, masked])", lambda: da.stack([d, d2]), lambda: np.ma.stack([xm, xm2]))
        out.add("stack(axis=1)", lambda: da.stack([d, d2], axis=1), lambda: np.ma.stack([xm, xm2], axis=1))
        # rechunk merges / splits masked blocks through the concatenate dispatch; the fill value must survive
        out.add("rechunk(one chunk)", lambda: d.rechunk(((n,),)), lambda: xm, fv=True)
        out.add("rechunk(reversed chunks)", lambda: d.rechunk(ch2), lambda: xm, fv=True)
        out.add("rechunk(1)", lambda: d.rechunk(1) if n else d, lambda: xm, fv=True)
        out.add("filled(rechunk)", lambda: da.ma.filled(d.rechunk(((n,),))), lambda: np.ma.filled(xm))
        if not degenerate(ch):
            for a in range(0, n + 1):
                for b in range(a, n + 1):
                    out.add(f"[{a}:{b}]", lambda: d[a:b], lambda: xm[a:b], fv=True)
            out.add("[::2]", lambda: d[::2], lambda: xm[::2], fv=True)
            if 0 not in ch[0]:          # (negative steps over an axis with a zero-size chunk: a slicing defect of plain arrays, see the report; not a masked-array matter)
                out.add("[::-1]", lambda: d[::-1], lambda: xm[::-1], fv=True)
            if n:
                out.add("[n-1]", lambda: d[n - 1], lambda: xm[n - 1:n].reshape(()))
                out.add("[[n-1, 0]]", lambda: d[[n - 1, 0]], lambda: xm[[n - 1, 0]])
                (late if in_take else out).add("[[n-1, 0]] with its fill value", lambda: d[[n - 1, 0]], lambda: xm[[n - 1, 0]], fv=True)
                out.add("sum of a slice", lambda: d[n // 2:].sum(), lambda: xm[n // 2:].sum())
        out.add("[None, :]", lambda: d[None, :], lambda: xm[None, :], fv=True)
        if not degenerate(ch):
            out.add("reshape(1, n)", lambda: d.reshape((1, n)), lambda: xm.reshape((1, n)), fv=True)
        out.add("map_blocks(identity)", lambda: d.map_blocks(lambda b: b, dtype=d.dtype), lambda: xm, fv=True)
        out.add("persisted copy", lambda: (d + 0).copy(), lambda: xm + 0, fv=True)
        obs = out.finish()
        if not (SKIP_OPEN and "fancy_index_fill_value_lost" in OPEN_REGIONS):
            obs += late.finish()          # LAST on the path: inside the region of the open finding
        return obs + [in_take]

    return ob(f"structure[n={nmin}..{N},chunks<={K}]", setup, run)


def mk_structure_nd(shapes, K):
    def setup(e):
        return declare_nd(e, shapes, K, masks=("none", "checker", "row0", "last", "all"))

    def run(e, shape, ch, m, nomask, fv):
        nd = len(shape)
        x = data(shape)
        xm = ref_masked(x, m, nomask, fv)
        x2 = data(shape, "mixed2") + 4
        m2 = ~m
        xm2 = np.ma.masked_array(x2, mask=m2, fill_value=fv)
        ch2 = tuple((s,) for s in shape)
        out = Batch(e, _info(x, m, nomask, fv, ch), explicit_fv=fv is not None)
        via = via_of(m, ch)
        d, d2, dp = dmasked(x, m, nomask, fv, ch, via), dmasked(x2, m2, False, fv, ch2, 1 - via), darr(x2, ch2)
        for ax in list(range(nd)) + [-1]:
            out.add(f"concatenate(axis={ax})", lambda: da.concatenate([d, d2, d], axis=ax), lambda: np.ma.concatenate([xm, xm2, xm], axis=ax))
            out.add(f"concatenate([plain, masked], axis={ax})", lambda: da.concatenate([dp, d], axis=ax), lambda: np.ma.concatenate([x2, xm], axis=ax))
            out.add(f"stack(axis={ax})", lambda: da.stack([d, d2], axis=ax), lambda: np.ma.stack([xm, xm2], axis=ax))
        out.add("block([[masked, masked], [plain, masked]])" if nd == 2 else "block", lambda: da.block([[d, d2], [dp, d]]) if nd == 2 else d, lambda: np.ma.masked_array(
            np.block([[x, x2], [x2, x]]), mask=np.block([[m, m2], [np.zeros_like(m), m]])) if nd == 2 else xm)
        out.add("rechunk(one chunk)", lambda: d.rechunk(ch2), lambda: xm, fv=True)
        out.add("rechunk(1)", lambda: d.rechunk(1), lambda: xm, fv=True)
        out.add("T", lambda: d.T, lambda: xm.T, fv=True)
        out.add("[1:, :2]", lambda: d[1:, :2], lambda: xm[1:, :2], fv=True)
        out.add("[::2, -1]", lambda: d[::2, -1], lambda: xm[::2, -1], fv=True)
        out.add("[:, ::-1]", lambda: d[:, ::-1], lambda: xm[:, ::-1], fv=True)
        out.add("[[1, 0]]", lambda: d[[shape[0] - 1, 0]], lambda: xm[[shape[0] - 1, 0]])
        out.add("reshape(-1)", lambda: d.reshape(-1), lambda: xm.reshape(-1), fv=True)
        out.add("sum of a slice", lambda: d[:, 1:].sum(axis=1), lambda: xm[:, 1:].sum(axis=1))
        return out.finish()

    return ob(f"structure_nd[shapes={list(shapes)},chunks<={K}]", setup, run)


# ---------------------------------------------------------------------------------------------------------------------------------- (7) assignment of np.ma.masked

def mk_assign(N, K, masks=("none", "checker"), keys=("checker", "last", "all")):
    """x[key] = np.ma.masked (documented in docs/source/array-assignment.rst) against the same assignment on the numpy masked array"""
    def setup(e):
        n, ch, m, nomask, fv = declare_1d(e, N, K, nmin=1, masks=masks, fills=False)
        kb = bits(e, "k", n) if keys == "all" else mask_pattern((n,), e.pick("key", keys))
        inreg = region(e, "setitem_boolarray_masked", True)
        return n, ch, m, nomask, kb, inreg

    def run(e, n, ch, m, nomask, kb, inreg):
        x = data((n,))
        xm = ref_masked(x, m, nomask, None)
        info = _info(x, m, nomask, None, ch) + f" key={kb.astype(int).tolist()}"
        out, late = Batch(e, info), Batch(e, info)

        def assigned(src, key):
            src = src.copy()
            src[key] = np.ma.masked
            return src
        for src, ref, tag in ((lambda: dmasked(x, m, nomask, None, ch, 0), xm, "masked"), (lambda: darr(x, ch), np.ma.masked_array(x), "plain")):
            for a in range(n + 1):
                out.add(f"{tag}[{a}:] = masked", lambda: assigned(src(), slice(a, None)), lambda: assigned(ref, slice(a, None)))
            out.add(f"{tag}[n-1] = masked", lambda: assigned(src(), n - 1), lambda: assigned(ref, n - 1))
            out.add(f"{tag}[::2] = masked", lambda: assigned(src(), slice(None, None, 2)), lambda: assigned(ref, slice(None, None, 2)))
            out.add(f"{tag}[numpy bool array] = masked", lambda: assigned(src(), kb), lambda: assigned(ref, kb))
            out.add(f"{tag}[[0, n-1]] = masked", lambda: assigned(src(), [0, n - 1]), lambda: assigned(ref, [0, n - 1]))
            late.add(f"{tag}[dask bool array] = masked", lambda: assigned(src(), darr(kb, ch)), lambda: assigned(ref, kb))
        obs = out.finish()
        if not (SKIP_OPEN and "setitem_boolarray_masked" in OPEN_REGIONS):
            obs += late.finish()
        return obs + [inreg]

    return ob(f"assign_masked[n=1..{N},chunks<={K}]", setup, run)


# ---------------------------------------------------------------------------------------------------------------------------------- obligations

def obligations(tier):
    if tier == "quick":
        S2 = [(2, 2), (2, 3), (1, 2)]
        return [
            mk_construct(3, 2),
            mk_makers(3, 2), mk_makers_nd([(2, 2), (2, 3)], 2),
            mk_elementwise(3, 2), mk_elementwise_nd(S2, 2),
            mk_reduce(3, 3), mk_reduce(4, 2, nmin=4), mk_reduce_nd([(2, 2), (2, 3), (3, 2), (1, 3)], 2, masks=MASKS_ND[:5]),
            mk_reduce_nd([(2, 2), (1, 2)], 2, zero=True, masks=("none", "all", "row0", "last")),
            mk_average(3, 2), mk_average_nd([(2, 2), (2, 3)], 2),
            mk_structure(3, 2), mk_structure(2, 3), mk_structure(4, 2, nmin=4, masks=("none", "checker", "last", "all")), mk_structure_nd([(2, 2), (2, 3)], 2),
            mk_assign(3, 2),
        ]
    S3 = [(2, 2), (2, 3), (1, 2), (3, 2), (2, 1, 2)]
    return [
        mk_construct(4, 3),
        mk_makers(4, 3, KINDS=("mixed", "mixed2")), mk_makers(3, 4), mk_makers_nd(S3, 2), mk_makers_nd([(2, 2)], 3),
        mk_elementwise(4, 3), mk_elementwise_nd(S3, 2),
        mk_reduce(4, 3), mk_reduce(3, 4), mk_reduce(5, 3, nmin=5, masks=MASKS_ND),
        mk_reduce_nd([(2, 2), (2, 3), (3, 2), (1, 3), (3, 3), (2, 1, 2), (2, 2, 2)], 2), mk_reduce_nd([(2, 2), (2, 3)], 3), mk_reduce_nd([(2, 2), (2, 3)], 2, allbits=((2, 2), (2, 3))),
        mk_reduce_nd([(2, 2), (1, 2), (2, 3), (3, 1)], 2, zero=True),
        mk_average(4, 3), mk_average_nd([(2, 2), (2, 3), (3, 2), (2, 1, 2)], 2), mk_average_nd([(2, 2)], 2, allbits=((2, 2),)),
        mk_structure(4, 3), mk_structure_nd([(2, 2), (2, 3), (3, 2)], 2), mk_structure_nd([(2, 2)], 3),
        mk_assign(3, 3, masks="all", keys="all"),
    ]
