"""C10 -- high-level graph culling and blockwise fusion are sound.

Kernels: dask.blockwise.{_fuse_annotations, _can_fuse_annotations, Blockwise._cull_dependencies, Blockwise.cull, Blockwise._cull,
_get_coord_mapping, _make_blockwise_graph, _optimize_blockwise, optimize_blockwise, rewrite_blockwise, fuse_roots},
dask.highlevelgraph.{HighLevelGraph.cull, Layer.cull, MaterializedLayer}, dask._task_spec.cull.
"""
from __future__ import annotations

import itertools

import numpy as np

from symx.core import SInt, SBool, Violation, HarnessError, NativeEngine
from symx.run import Obligation

import dask
import dask.array as da
import dask.blockwise as B
import dask.core as C
import dask.highlevelgraph as H
import dask._task_spec as TS
from dask._task_spec import DataNode, Task, TaskRef

PROPERTY = "C10"
LEVEL = "other"
BUDGET = {"quick": 200, "thorough": 1800}
EXPLANATION = (
    "Three obligation families, all running dask's real functions. (a) ANNOTATIONS: _fuse_annotations is called on 2-3 annotation dicts "
    "whose priority, retries and per-resource amounts are unbounded symbolic ints, whose worker lists are every subset of a 2-3 worker "
    "universe and whose allow_other_workers flags are enumerated; z3 decides for ALL values that the fused priority / retries is the "
    "maximum of those present, resources the per-resource maximum over the dicts naming the resource (a resource named once keeps its "
    "amount), workers the intersection, allow_other_workers the conjunction, and that a key no dict has stays absent; "
    "_can_fuse_annotations must accept every such pair. (b) CULLING: stacks of 1-3 Blockwise layers are built with dask.blockwise.blockwise "
    "from a choice grammar of index patterns (elementwise, literal argument, BlockIndex argument, broadcasting leaf along an axis, "
    "key argument TaskRef(key) with index None, transpose, 'ij'+'ji', 1-d broadcast, contraction 'pq,qr->pr' and reduction 'pq->p' with concatenate in {None, True, False}, a "
    "contracted axis that is broadcast, new axes with 1 or 2 blocks, outer product, the same input twice with different indices, a "
    "diamond / re-used leaf, BlockwiseDepDict IO layers with and without key-producing entries) over MaterializedLayer leaves written as DataNode, Task "
    "or legacy literal; the number "
    "of blocks per index is solver-enumerated. Every block value is a 1-element NumPy object array holding the tuple (layer tag, "
    "arguments...), so a value is the expression tree of the blocks that were read, in the order and nesting they were passed "
    "(concatenate=True goes through the real dask.array.core.concatenate_axes); leaf block number m holds v + m with ONE unbounded symbolic int v (so different leaf blocks differ for every v, and every model variable costs a solver call per path). Asserted: "
    "for every Blockwise layer and every enumerated subset of its output blocks, _cull_dependencies(blocks) has exactly those keys and "
    "per key exactly the dependencies of the materialised task; Blockwise.cull returns those dependencies and a layer that materialises "
    "at least the requested blocks with the same task dependencies; for every enumerated set of requested keys (singletons, pairs / all subsets on small grids, the "
    "full grid, optionally plus blocks of the layer below) HighLevelGraph.cull(keys) contains every requested key, only keys of the "
    "original graph, and dask.core.get on it returns values equal (e.equal: for ALL leaf values) to those of the full materialised "
    "graph; the same for a graph culled twice. (c) FUSION: optimize_blockwise(hlg, keys) (-> _optimize_blockwise, rewrite_blockwise), "
    "followed by cull and by fuse_roots, keeps the value of every block of every requested layer; stacks whose layers carry annotations "
    "(dask.annotate, symbolic values) additionally satisfy: the annotations of every fused layer follow the rules of (a) over exactly the "
    "layers that were merged into it, layers with unequal annotations are merged only if all their keys are the five fusable ones and "
    "optimization.annotations.fuse is not False, and a layer that was not merged keeps its annotations. Every path is replayed natively; "
    "e2e witnesses rebuild the stack with da.blockwise / NumPy einsum on real arrays with the model's block counts and compare "
    "compute(), graph.cull(keys) and optimize_blockwise(graph, keys) against NumPy, and annotated da expressions against the rules.")
ASSUMPTIONS = [
    "the reference for values is the un-culled, un-fused materialised graph evaluated with dask.core.get (the property compares dask with dask); that the "
    "materialised blocks read the NumPy-aligned input blocks is C19 / C35 and only witnessed here by the e2e runs",
    "annotation values are ints / lists of str / dict of ints / bools (callables are outside); a missing annotation key means 'this layer does not state "
    "it': the conjunction / maximum / intersection range over the layers that state the key (the property text), not over defaults",
    "in the per-key annotation obligations the keys other than the one under focus are absent or held by exactly one dict (background); all five keys "
    "vary together only in the all-keys obligation (2 dicts, 3 worker lists each)",
    "requested-key subsets and leaf writing styles are enumerated by loops inside one path (bounded exhaustive, reported in the message); stack shape, block "
    "counts, annotation menus are solver-enumerated model variables",
    "HighLevelGraphs are built with the HighLevelGraph constructor from the layers' true dependencies (validate() is run on every graph)",
]
STUBS = []
ENUM = ["stack shape (base kind, op per layer, broadcast axis, concatenate, new-axis blocks), blocks per index, annotation menu per layer, worker subsets, "
        "allow_other_workers flags, resource-name sets, optimization.annotations.fuse setting",
        "requested output-block subsets and leaf styles (loops inside a path)"]
OUTSIDE = ["minimality of culling (HighLevelGraph.cull keeps all blocks of a materialised layer when as many keys are requested as the layer has; a culled Blockwise layer may "
           "materialise more than the requested blocks)",
           "the `dependencies` mapping of the HighLevelGraph returned by cull (it is empty for every layer: validate() fails on a culled graph; values are unaffected)",
           "callable annotation values, annotation keys other than the five special ones beyond a single custom key 'foo'",
           "a layer that states workers but not allow_other_workers (scheduler default False) merged with one that states allow_other_workers=True gets "
           "allow_other_workers=True: the conjunction is taken over the layers that state the key",
           "pyarrow / dataframe IO layers, Blockwise.clone, SubgraphCallable, legacy (tuple) tasks inside Blockwise", "more than 3 layers, more than 3 blocks per index, 4-d blocks",
           "low-level fusion inside fuse_roots beyond value preservation (C09)"]
BOUNDS = {
    "quick": dict(annotations="per focus key: 2 dicts (workers: every subset of 3 names; resources: name sets {GPU},{MEM},{GPU,MEM}; backgrounds none/first/last) and 3 dicts "
                              "(2 worker names, resource sets {MEM},{GPU,MEM}, no background); all-keys: 2 dicts x 2 worker lists",
                  stacks="depth 1: all 22 ops on bases x2/x1/io/iok, blocks i,j in [1,3], k in [1,2]; depth 2: 7 producer ops x all ops on bases x2/io, blocks i,j in [1,2], k = 2; "
                         "depth 3: 4 x 6 x 6 ops, 2 blocks per index; io-keys: key-producing IO layer + 4 x 5 ops, i in [1,2]",
                  subsets="top layer: <= 4 blocks every non-empty subset, otherwise singletons, pairs with the first block (depth 1) and the full grid; layers below: singletons + full grid; "
                          "graph level additionally one block of the layer below; fusion with keys = top grid / top + below grids",
                  annotated="two layers: 6 menus each, optimization.annotations.fuse in {default, False}; chain of 3: 4 menus; diamond: 3 menus; amounts symbolic"),
    "thorough": dict(annotations="2 and 3 dicts with 3 worker names, all resource sets, 3 backgrounds; all-keys: 2 dicts x 4 worker lists, 3 dicts x 1 worker list",
                     stacks="depth 1: blocks in [1,3] for i,j,k; depth 2: all ops x all ops on x2/x1/io, i,j in [1,3], k in [1,2]; depth 3: 13 ops per layer, i in [1,2], j = k = 2; "
                            "io-keys: depth 2 all ops, depth 3 4 x 5 x 2 ops",
                     subsets="depth 1: <= 6 blocks every non-empty subset, otherwise singletons, all pairs, full grid; deeper: <= 4 blocks every subset, otherwise singletons, pairs with the first block, full grid",
                     annotated="5 shapes (two, chain, diamond, double transpose, contraction in the middle), 6 menus per layer (8 for two layers), both settings of optimization.annotations.fuse"),
}

# NOTE (finding on the unchanged tree, obligations "...,io-keys]"): Blockwise._cull_dependencies looks up a key-producing IO argument
# (BlockwiseDepDict(produces_keys=True)) with the OUTPUT block coordinates instead of the argument's own coordinates.  Once optimize_blockwise has
# fused the IO layer into a layer whose output indices do not start with the IO layer's index (new axis in front, transpose), culling keeps the wrong
# IO keys: KeyError inside cull, or "Missing dependency" when the culled graph is computed.  The stacks over the key-producing IO base declare the
# model variable iok_misaligned (1 iff some layer above the IO layer has an output index string not starting with the IO index) so that the region
# can be named by a known-finding predicate ("iok_misaligned == 1").

SPECIAL = ("priority", "retries", "resources", "workers", "allow_other_workers")
WORKERS = ("alice", "bob", "carol")
RESMENUS = (("GPU",), ("MEM",), ("GPU", "MEM"))


def functions():
    return [B._fuse_annotations, B._can_fuse_annotations, B.Blockwise._cull_dependencies, B.Blockwise.cull, B.Blockwise._cull,
            B.Blockwise.get_output_keys, B._get_coord_mapping, B._make_blockwise_graph, B._lol_product, B.blockwise,
            B.optimize_blockwise, B._optimize_blockwise, B.rewrite_blockwise, B.fuse_roots, B._unique_dep,
            H.HighLevelGraph.cull, H.Layer.cull, H.HighLevelGraph._toposort_layers, H.HighLevelGraph.get_all_external_keys, TS.cull]


# ---------------------------------------------------------------- lazy boolean helpers

def _and(xs):
    r = True
    for x in xs:
        r = r & x
    return r


def _or(xs):
    r = False
    for x in xs:
        r = r | x
    return r


# ---------------------------------------------------------------- (a) annotation rules

def _subsets(names):
    out = []
    for r in range(len(names) + 1):
        out += [list(c) for c in itertools.combinations(names, r)]
    return out


def decl_focus(e, key, d, wuni, resmenus):
    """value of the focus key in dict d, or None (absent): ONE enumerated choice + symbolic amounts"""
    if key in ("priority", "retries"):
        return e.int(f"{key}{d}") if e.flag(f"has{d}") else None
    if key == "resources":
        names = e.pick(f"resources{d}", (None,) + tuple(resmenus))
        return None if names is None else {n: e.int(f"res{d}_{n}") for n in names}
    if key == "workers":
        return e.pick(f"workers{d}", [None] + _subsets(wuni))
    if key == "allow_other_workers":
        return e.pick(f"aow{d}", (None, False, True))
    raise AssertionError(key)


def check_rule(e, parts, fused, what):
    """the property's rules: `fused` against the annotation dicts `parts` that were merged"""
    fused = fused or {}
    parts = [a for a in parts if a]
    for key in SPECIAL:
        vals = [a[key] for a in parts if key in a]
        if not vals:
            e.check(key not in fused, f"{what}: fused annotations invent {key!r}")
            continue
        e.check(key in fused, f"{what}: fused annotations drop {key!r}")
        got = fused[key]
        if key in ("priority", "retries"):
            e.check(lambda: _and(got >= v for v in vals), f"{what}: fused {key} is below a layer's {key} (not the maximum)")
            e.check(lambda: _or(got == v for v in vals), f"{what}: fused {key} is none of the layers' values (not the maximum)")
        elif key == "resources":
            e.check(isinstance(got, dict), f"{what}: fused resources is {type(got).__name__}")
            names = sorted({n for v in vals for n in v})
            e.check(sorted(got) == names, f"{what}: fused resources name {sorted(got)}, the layers name {names}")
            for n in names:
                amts = [v[n] for v in vals if n in v]
                g = got[n]
                e.check(lambda: _and(g >= x for x in amts), f"{what}: fused resource {n} is below a layer's amount (not the per-resource maximum)")
                e.check(lambda: _or(g == x for x in amts), f"{what}: fused resource {n} is none of the layers' amounts")
        elif key == "workers":
            want = set.intersection(*[set(v) for v in vals])
            e.check(set(got) == want, f"{what}: fused workers {sorted(got)}, intersection of {[sorted(v) for v in vals]} is {sorted(want)}")
        else:
            e.check(bool(got) == all(vals), f"{what}: fused allow_other_workers {got!r}, conjunction of {vals} is {all(vals)}")
    for key in fused:
        if key not in SPECIAL:
            e.check(any(key in a for a in parts), f"{what}: fused annotations invent {key!r}")


def norm_ann(a):
    if not a:
        return None
    out = {}
    for k in sorted(a):
        v = a[k]
        out[k] = sorted(v) if k == "workers" else (dict(sorted(v.items())) if isinstance(v, dict) else v)
    return out


def _copy_ann(a):
    return {k: (dict(v) if isinstance(v, dict) else (list(v) if isinstance(v, list) else v)) for k, v in a.items()}


def mk_fuse_ann(k, focus, nworkers, backgrounds=("none", "first", "last"), resmenus=RESMENUS):
    wuni = WORKERS[:nworkers]

    def setup(e):
        bg = e.pick("background", backgrounds)
        dicts = [dict() for _ in range(k)]
        for d in range(k):
            v = decl_focus(e, focus, d, wuni, resmenus)
            if v is not None:
                dicts[d][focus] = v
        if bg != "none":
            # every other key is stated by exactly one dict (one shared symbolic amount)
            d = 0 if bg == "first" else k - 1
            b = e.int("bg")
            other = dict(priority=b, retries=b + 1, resources={"GPU": b + 2}, workers=["alice", "bob"], allow_other_workers=(bg == "first"))
            for key in SPECIAL:
                if key != focus:
                    dicts[d][key] = other[key]
        return (dicts,)

    def run(e, dicts):
        fused = B._fuse_annotations(*[_copy_ann(d) for d in dicts])
        e.check(isinstance(fused, dict), "not a dict")
        check_rule(e, dicts, fused, "_fuse_annotations")
        for a, b in itertools.combinations(dicts, 2):
            e.check(B._can_fuse_annotations(_copy_ann(a) or None, _copy_ann(b) or None) is True, "_can_fuse_annotations refuses two layers that only carry fusable keys")
        return norm_ann(fused)

    return Obligation(f"fuse_annotations[k={k},focus={focus},workers<={nworkers}]", setup, run)


def mk_fuse_ann_all(k, nwsets):
    wsets = (["alice", "bob"], ["bob", "carol"], ["alice", "bob", "carol"], [])[:nwsets]

    def setup(e):
        dicts = []
        for d in range(k):
            a = {}
            a["priority"] = e.int(f"priority{d}")
            a["retries"] = e.int(f"retries{d}")
            a["resources"] = {n: e.int(f"res{d}_{n}") for n in (("GPU", "MEM") if d != 1 else ("MEM",))}
            a["workers"] = list(e.pick(f"workers{d}", wsets))
            a["allow_other_workers"] = e.flag(f"aow{d}")
            dicts.append(a)
        return (dicts,)

    def run(e, dicts):
        fused = B._fuse_annotations(*[_copy_ann(d) for d in dicts])
        check_rule(e, dicts, fused, "_fuse_annotations")
        return norm_ann(fused)

    return Obligation(f"fuse_annotations[k={k},all-keys]", setup, run)


# ---------------------------------------------------------------- (b), (c): stacks of Blockwise layers

def _box(v, nd):
    a = np.empty((1,) * nd, dtype=object)
    a[(0,) * nd] = v
    return a


def _plain(x):
    """block value -> nested lists / tuples of leaves"""
    if isinstance(x, np.ndarray):
        return _plain(x.tolist())
    if isinstance(x, list):
        return [_plain(y) for y in x]
    if isinstance(x, tuple):
        return tuple(_plain(y) for y in x)
    return x


def mk_func(tag, ond):
    def f(*a):
        return _box((tag,) + tuple(_plain(x) for x in a), ond)
    f.__name__ = f.__qualname__ = f"f_{tag}"
    return f


def _ident(x):
    return x


class Arr:
    def __init__(self, name, ind, nb, kind):
        self.name, self.ind, self.nb, self.kind = name, ind, tuple(nb), kind

    def __repr__(self):
        return f"{self.name}[{self.ind}:{self.nb}]"


OPS_ALL = ("neg", "lit", "ref", "bidx", "addy", "addy:b0", "addy:b1", "addyT", "addv", "T", "dot", "dot:c", "dot:f", "dot:bk", "dot:c:bk",
           "sumq", "sumq:c", "newax", "newax:2", "outer", "twice", "dia")
OPS_PRODUCERS = ("neg", "addy:b0", "T", "dot", "dot:c", "sumq:c", "newax:2")
BASES = ("x2", "x1", "io", "iok")


class Stack:
    """description of a stack (plain data + leaf values); built into layers by build()"""

    def __init__(self, base, v, dry):
        self.base, self.v, self.dry = base, v, dry
        self.count = 0
        self.n = {}             # letter -> number of blocks
        self.letters = []       # letters of i, j, k in use (dry pass)
        self.leaves = {}        # name -> (Arr, {coords: value})
        self.scalars = {}       # key -> value (single-key layers referenced with TaskRef(key), None)
        self.layers = []        # dicts
        self.arrs = []          # Arr of base and of every layer output


def _dim(st, c):
    if st.dry:
        if c in "ijk" and c not in st.letters:
            st.letters.append(c)
        return st.n.get(c, 2)
    return st.n[c]


def _leaf(e, st, name, ind, bc=None):
    nb = []
    for pos, c in enumerate(ind):
        n = _dim(st, c)
        if bc == pos:
            if n == 1 and not st.dry:
                e.assume(False)         # (broadcasting a 1-block axis is the plain case)
            nb.append(1)
        else:
            nb.append(n)
    vals = {}
    if not st.dry:
        for co in itertools.product(*[range(n) for n in nb]):
            # one shared unbounded symbolic offset; leaf blocks stay pairwise different for ALL its values through the running number
            vals[co] = st.v + st.count
            st.count += 1
    a = Arr(name, ind, nb, "leaf")
    st.leaves[name] = (a, vals)
    return a


def _others(ind):
    return [c for c in "ijk" if c not in ind]


def op_valid(op, a, arrs):
    """validity from the index strings alone"""
    nd = len(a.ind)
    base = op.split(":")[0]
    if "n" in a.ind and base in ("addyT", "dot", "twice", "newax"):
        return False
    if base in ("neg", "lit", "ref", "bidx", "addy"):
        if op == "addy:b1":
            return nd >= 2
        return True
    if base in ("addyT", "addv", "T", "sumq"):
        return nd >= 2
    if base == "dot":
        return nd == 2
    if base == "newax":
        return nd <= 2
    if base == "outer":
        return nd <= 2 and bool(_others(a.ind))
    if base == "twice":
        return nd == 2
    if base == "dia":
        return len(arrs) >= 2 and set(arrs[-2].ind) <= set(a.ind)
    raise AssertionError(op)


def apply_op(e, st, t, op):
    a = st.arrs[-1]
    I = a.ind
    parts = op.split(":")
    base, mods = parts[0], parts[1:]
    name = f"z{t}"
    conc, new_axes = None, None
    if base == "neg":
        out, args = I, [("arr", a, I)]
    elif base == "lit":
        out, args = I, [("arr", a, I), ("lit", 7, None)]
    elif base == "ref":
        if not st.dry:
            st.scalars[f"s{t}"] = st.v + st.count
            st.count += 1
        out, args = I, [("arr", a, I), ("ref", f"s{t}", None)]
    elif base == "bidx":
        out, args = I, [("arr", a, I), ("bidx", None, I)]
    elif base == "addy":
        bc = {"b0": 0, "b1": len(I) - 1}.get(mods[0]) if mods else None
        y = _leaf(e, st, f"y{t}", I, bc)
        out, args = I, [("arr", a, I), ("arr", y, I)]
    elif base == "addyT":
        y = _leaf(e, st, f"y{t}", I[::-1])
        out, args = I, [("arr", a, I), ("arr", y, I[::-1])]
    elif base == "addv":
        v = _leaf(e, st, f"v{t}", I[-1])
        out, args = I, [("arr", a, I), ("arr", v, I[-1])]
    elif base == "T":
        out, args = I[::-1], [("arr", a, I)]
    elif base == "dot":
        p, q = I
        r = _others(I)[0]
        y = _leaf(e, st, f"y{t}", q + r, 0 if "bk" in mods else None)
        out, args = p + r, [("arr", a, I), ("arr", y, q + r)]
        conc = True if "c" in mods else (False if "f" in mods else None)
    elif base == "sumq":
        out, args = I[:-1], [("arr", a, I)]
        conc = True if "c" in mods else None
    elif base == "newax":
        out, args = I + "n", [("arr", a, I)]
        new_axes = {"n": (1, 1) if "2" in mods else 1}
        st.n["n"] = 2 if "2" in mods else 1
    elif base == "outer":
        q = _others(I)[0]
        v = _leaf(e, st, f"v{t}", q)
        out, args = I + q, [("arr", a, I), ("arr", v, q)]
    elif base == "twice":
        if a.nb[0] != a.nb[1] and not st.dry:
            e.assume(False)
        out, args = I, [("arr", a, I), ("arr", a, I[::-1])]
    elif base == "dia":
        pp = st.arrs[-2]
        out, args = I, [("arr", a, I), ("arr", pp, pp.ind)]
    else:
        raise AssertionError(op)
    # number of output blocks per index: broadcast of the inputs (a new axis has len(chunks) or 1 blocks)
    nb = []
    for c in out:
        if new_axes and c in new_axes:
            nb.append(len(new_axes[c]) if isinstance(new_axes[c], tuple) else 1)
        else:
            nb.append(max(x.nb[ind.index(c)] for kind, x, ind in args if kind == "arr" and c in ind))
    z = Arr(name, out, nb, "layer")
    st.layers.append(dict(name=name, tag=t + 1, op=op, out=out, args=args, conc=conc, new_axes=new_axes, arr=z, ann=None))
    st.arrs.append(z)


def _init_base(e, st):
    if st.base == "x2":
        st.arrs.append(_leaf(e, st, "x", "ij"))
    elif st.base == "x1":
        st.arrs.append(_leaf(e, st, "x", "i"))
    else:
        n = _dim(st, "i")
        if st.base == "iok":
            _leaf(e, st, "d", "i")
        st.arrs.append(Arr("io", "i", (n,), "io"))


def gen_stack(e, depth, NB, ops, bases=("x2",), oplists=None):
    """NB: {letter: (lo, hi)} numbers of blocks.  Model variables: v (leaf offset), base, op0.., dims (one enumerated tuple)."""
    v = e.int("v")
    base = e.pick("base", bases)
    dry = Stack(base, None, True)
    _init_base(e, dry)
    chosen = []
    for t in range(depth):
        cand = oplists[t] if oplists else ops
        valid = [op for op in cand if op_valid(op, dry.arrs[-1], dry.arrs)]
        if not valid:
            e.assume(False)
        op = e.pick(f"op{t}", valid)
        chosen.append(op)
        apply_op(e, dry, t, op)
    letters = [c for c in "ijk" if c in dry.letters]
    dims = e.pick("dims", list(itertools.product(*[range(NB[c][0], NB[c][1] + 1) for c in letters])))
    st = Stack(base, v, False)
    st.n = dict(zip(letters, dims))
    _init_base(e, st)
    for t, op in enumerate(chosen):
        apply_op(e, st, t, op)
    if base == "iok":
        # derived model variable (names a region for known findings): 1 iff some layer above the key-producing IO layer has an output
        # index string that does not start with the IO layer's index
        mis = int(any(L["out"][0] != "i" for L in st.layers))
        m = e.int("iok_misaligned", 0, 1)
        e.assume(lambda: m == mis)
    return st


LEAF_STYLES = ("spec", "legacy")


def build(st, style="spec"):
    """-> (HighLevelGraph, names of its Blockwise layers bottom-up)"""
    layers, deps = {}, {}
    for i, (name, (a, vals)) in enumerate(sorted(st.leaves.items())):
        nd = len(a.ind)
        if style == "legacy" and name in ("x", "d", "y0"):
            m = {(name,) + co: _box(v, nd) for co, v in vals.items()}           # legacy literals (has_legacy_tasks)
        elif i % 2:
            m = {(name,) + co: Task((name,) + co, _ident, _box(v, nd)) for co, v in vals.items()}
        else:
            m = {(name,) + co: DataNode((name,) + co, _box(v, nd)) for co, v in vals.items()}
        layers[name] = H.MaterializedLayer(m)
        deps[name] = set()
    for name, v in st.scalars.items():
        layers[name] = H.MaterializedLayer({name: DataNode(name, _box(v, 0))})
        deps[name] = set()
    if st.base in ("io", "iok"):
        n = st.n["i"]
        if st.base == "io":
            dep = B.BlockwiseDepDict({(i,): ("part", i) for i in range(n)})
            deps["io"] = set()
        else:
            dep = B.BlockwiseDepDict({(i,): TaskRef(("d", i)) for i in range(n)}, produces_keys=True)
            deps["io"] = {"d"}
        layers["io"] = B.Blockwise("io", "i", Task("io", mk_func(0, 1), TaskRef(B.blockwise_token(0))), [(dep, "i")], {})
    order = ["io"] if "io" in layers else []
    for L in st.layers:
        pairs, nbs, ldeps = [], {}, set()
        for kind, x, ind in L["args"]:
            if kind == "arr":
                pairs += [x.name, ind]
                nbs[x.name] = x.nb
                ldeps.add(x.name)
            elif kind == "lit":
                pairs += [x, None]
            elif kind == "ref":
                pairs += [TaskRef(x), None]
                ldeps.add(x)
            else:
                pairs += [B.BlockIndex(L["arr"].nb), ind]
        kw = {}
        if L["new_axes"]:
            kw["new_axes"] = dict(L["new_axes"])
        func = mk_func(L["tag"], len(L["out"]))
        if L["ann"]:
            with dask.annotate(**_copy_ann(L["ann"])):
                lay = B.blockwise(func, L["name"], L["out"], *pairs, numblocks=nbs, concatenate=L["conc"], **kw)
        else:
            lay = B.blockwise(func, L["name"], L["out"], *pairs, numblocks=nbs, concatenate=L["conc"], **kw)
        layers[L["name"]] = lay
        deps[L["name"]] = ldeps
        order.append(L["name"])
    return H.HighLevelGraph(layers, deps), order


def subsets_of(blocks, full_upto, pairs):
    """requested block subsets of one layer (lists of coordinate tuples)"""
    blocks = sorted(blocks)
    n = len(blocks)
    if n <= full_upto:
        out = []
        for r in range(1, n + 1):
            out += [list(c) for c in itertools.combinations(blocks, r)]
        return out
    out = [[b] for b in blocks]
    if pairs == "all":
        out += [list(c) for c in itertools.combinations(blocks, 2)]
    elif pairs == "first":       # pairs with the first block (same row / same column / diagonal)
        out += [[blocks[0], b] for b in blocks[1:]]
    return out + [blocks]


def _keys(name, blocks):
    return [(name,) + tuple(b) for b in blocks]


def _grid(arr):
    return list(itertools.product(*[range(n) for n in arr.nb]))


def _get(e, dsk, keys, what):
    for k in keys:
        e.check(k in dsk, f"{what}: requested key {k!r} is missing")
    return [_plain(v) for v in C.get(dsk, list(keys))]


def _same_values(e, got, keys, ref, what):
    for k, g in zip(keys, got):
        w = ref[k]
        msg = f"{what}: value of {k!r} differs from the full un-optimised graph"
        if e.mode == "native":
            msg += f": {g!r} instead of {w!r}"
        e.check(lambda: e.equal(g, w), msg)


def check_layer_cull(e, lay, arr, full_keys, subs, what):
    """(b) per layer: _cull_dependencies / Blockwise.cull against the materialised tasks"""
    dsk = dict(lay)
    grid = _grid(arr)
    e.check(set(dsk) == set(_keys(lay.output, grid)), f"{what}: materialised keys {sorted(dsk)} are not the block grid {arr.nb}")
    e.check(lay.get_output_keys() == set(dsk), f"{what}: get_output_keys differs from the materialised keys")
    for S in subs:
        keys = _keys(lay.output, S)
        deps = lay._cull_dependencies([tuple(b) for b in S])
        e.check(set(deps) == set(keys), f"{what}: _cull_dependencies({S}) has keys {sorted(deps)}")
        for k in keys:
            want = set(dsk[k].dependencies)
            e.check(set(deps[k]) == want, f"{what}: _cull_dependencies({S}) gives {sorted(deps[k], key=repr)} for {k}, the materialised task depends on {sorted(want, key=repr)}")
        foreign = [("zz-unrelated", 0), "scalar-key"]
        new, deps2 = lay.cull(set(keys) | set(foreign), full_keys)
        e.check({k: set(v) for k, v in deps2.items()} == {k: set(v) for k, v in deps.items()}, f"{what}: Blockwise.cull({S}) returns other dependencies than _cull_dependencies")
        nd = dict(new)
        e.check(set(keys) <= set(nd) <= set(dsk), f"{what}: layer culled to {S} materialises {sorted(nd)}")        # (not: minimality)
        e.check(new.get_output_keys() == set(nd) and len(new) == len(nd), f"{what}: culled layer's get_output_keys / len disagree with its materialised keys")
        for k in keys:
            e.check(set(nd[k].dependencies) == set(dsk[k].dependencies), f"{what}: task {k} of the culled layer has other dependencies than in the full layer")


def check_stack(e, st, full_upto, pairs, styles=LEAF_STYLES):
    top = st.layers[-1]["arr"]
    below = st.arrs[-2] if st.arrs[-2].kind in ("layer", "io") else None
    amap = {a.name: a for a in st.arrs}
    topkeys = _keys(top.name, _grid(top))
    subs = subsets_of(_grid(top), full_upto, pairs)
    obs = []
    for si, style in enumerate(styles):
        hlg, order = build(st, style)
        if e.mode == "native":
            try:
                hlg.validate()
            except Exception as ex:
                raise HarnessError(f"harness built an invalid HighLevelGraph: {ex}")
            hlg, order = build(st, style)
        tag = f" [{style} leaves]"
        full = dict(build(st, style)[0].to_dict())
        allkeys = [k for name in order for k in _keys(name, _grid(amap[name]))]
        e.check(set(allkeys) <= set(full), "materialised graph lacks blocks")
        ref = dict(zip(allkeys, _plain(list(C.get(full, allkeys)))))
        # (b) per layer
        if si == 0:
            hlg1, _ = build(st, style)
            ext = hlg1.get_all_external_keys()
            for name in order:
                lsubs = subs if name == top.name else subsets_of(_grid(amap[name]), min(full_upto, 2), None)
                check_layer_cull(e, hlg1.layers[name], amap[name], ext, lsubs, f"layer {name}")
        # (b) whole graph
        reqs = [_keys(top.name, S) for S in subs]
        if si > 0 and len(reqs) > 3:
            reqs = [reqs[0], reqs[len(reqs) // 2], reqs[-1]]
        if below is not None:
            g = _grid(below)
            reqs += [_keys(top.name, subs[0]) + _keys(below.name, [g[-1]]), _keys(below.name, [g[0]])]
        for keys in reqs:
            cd = hlg.cull(list(keys)).to_dict()
            what = f"cull({keys}){tag}"
            e.check(set(cd) <= set(full), f"{what}: culled graph has keys that the graph never had: {sorted(set(cd) - set(full), key=repr)}")
            _same_values(e, _get(e, cd, keys, what), keys, ref, what)
        # a culled graph culled again (fewer keys / the same keys)
        for first, second in ((topkeys, reqs[0]), (reqs[-1], reqs[-1])):
            what = f"cull({first}).cull({second}){tag}"
            twice = hlg.cull(list(first)).cull(list(second))
            _same_values(e, _get(e, twice.to_dict(), second, what), second, ref, what)
        # (c) fusion
        variants = [topkeys]
        if below is not None and si == 0:
            variants.append(topkeys + _keys(below.name, _grid(below)))
        for vi, keys in enumerate(variants):
            hlg3, _ = build(st, style)
            opt = B.optimize_blockwise(hlg3, keys=list(keys))
            what = f"optimize_blockwise(keys of {sorted({k[0] for k in keys})}){tag}"
            _same_values(e, _get(e, opt.to_dict(), keys, what), keys, ref, what)
            if si == 0:
                obs.append(sorted(opt.layers))
            for S in ([subs[0], subs[-2]] if len(subs) > 2 else subs[:1]):
                ks = _keys(top.name, S)
                oc = opt.cull(list(ks)).to_dict()
                _same_values(e, _get(e, oc, ks, what + f" then cull({ks})"), ks, ref, what + f" then cull({ks})")
            fr = B.fuse_roots(opt, keys=list(keys))
            _same_values(e, _get(e, fr.to_dict(), keys, what + " then fuse_roots"), keys, ref, what + " then fuse_roots")
            if vi == 0 and si == 0:
                # the order HighLevelGraph.cull -> optimize_blockwise
                ks = _keys(top.name, subs[0])
                co = B.optimize_blockwise(hlg.cull(list(ks)), keys=list(ks)).to_dict()
                _same_values(e, _get(e, co, ks, f"cull({ks}) then optimize_blockwise"), ks, ref, f"cull({ks}) then optimize_blockwise")
        if si == 0:
            obs.append(ref[topkeys[0]])
    return obs


# ---------------------------------------------------------------- e2e witness: the same stack on real arrays

def _chunks_for(n):
    return tuple(1 + (b % 2) for b in range(n))


def e2e_stack(st):
    if st.base != "x2" and st.base != "x1":
        return
    if any(L["op"].split(":")[0] in ("bidx", "ref") for L in st.layers):
        return
    if sum(L["op"].startswith("newax") for L in st.layers) > 1:
        return
    chunks = {c: (_chunks_for(n) if c != "n" else (1,) * n) for c, n in st.n.items()}
    rng = np.random.RandomState(7)

    def leaf_arrays(a):
        ch = tuple(chunks[c] if nb == st.n[c] else (1,) for c, nb in zip(a.ind, a.nb))
        x = rng.randint(1, 5, size=tuple(sum(c) for c in ch)).astype("i8")
        return x, da.from_array(x, chunks=ch, name=f"leaf-{a.name}")

    cur = {name: leaf_arrays(a) for name, (a, _) in sorted(st.leaves.items())}
    for L in st.layers:
        out = L["out"]
        ins = [(x, ind) for kind, x, ind in L["args"] if kind == "arr"]
        newc = [c for c in out if L["new_axes"] and c in L["new_axes"]]
        core_out = "".join(c for c in out if c not in newc)
        spec = ",".join(ind for _, ind in ins) + "->" + core_out
        mult = L["tag"] + 1

        def blockf(*blocks, spec=spec, mult=mult, nnew=len(newc), nin=len(ins)):
            blocks = blocks[:nin]
            if any(isinstance(b, list) for b in blocks):
                m = max(len(b) for b in blocks if isinstance(b, list))
                r = sum(np.einsum(spec, *[(b[i] if isinstance(b, list) else b) for b in blocks]) for i in range(m))
            else:
                r = np.einsum(spec, *blocks)
            r = r * mult
            for _ in range(nnew):
                r = r[..., None]
            return r

        r = np.einsum(spec, *[cur[x.name][0] for x, _ in ins]) * mult
        for c in newc:
            na = L["new_axes"][c]
            r = np.repeat(r[..., None], len(na) if isinstance(na, tuple) else na, axis=-1)
        pairs = []
        for kind, x, ind in L["args"]:
            if kind == "arr":
                pairs += [cur[x.name][1], ind]
            elif kind == "lit":
                pairs += [x, None]
        kw = {}
        if L["new_axes"]:
            kw["new_axes"] = dict(L["new_axes"])
        d = da.blockwise(blockf, out, *pairs, concatenate=L["conc"], dtype="i8", name=L["name"] + "-e2e", **kw)
        if d.shape != r.shape:
            raise Violation(f"e2e: da.blockwise for {L['op']} has shape {d.shape}, NumPy {r.shape}")
        cur[L["arr"].name] = (r, d)
    r, d = cur[st.layers[-1]["arr"].name]
    info = f"ops={[L['op'] for L in st.layers]} n={st.n}"
    got = d.compute(scheduler="sync")
    if got.shape != r.shape or not np.array_equal(got, r):
        raise Violation(f"e2e: compute() differs from NumPy ({info})")
    g = d.__dask_graph__()
    allk = list(C.flatten(d.__dask_keys__()))
    starts = [np.cumsum((0,) + c) for c in d.chunks]

    def ref_block(k):
        sl = tuple(slice(starts[a][i], starts[a][i + 1]) for a, i in enumerate(k[1:]))
        return r[sl]

    for keys in ([allk[0]], [allk[-1]], allk[::2], allk):
        for what, dsk in (("cull", g.cull(list(keys)).to_dict()), ("optimize_blockwise", B.optimize_blockwise(g, keys=list(keys)).to_dict()),
                          ("optimize_blockwise+cull", B.optimize_blockwise(g, keys=list(keys)).cull(list(keys)).to_dict())):
            res = dask.get(dsk, list(keys))
            for k, v in zip(keys, res):
                if not np.array_equal(np.asarray(v), ref_block(k)):
                    raise Violation(f"e2e: block {k} after {what}({keys}) differs from NumPy ({info})")


def _nb(i, j=None, k=None):
    j = j or i
    k = k or j
    return {"i": i, "j": j, "k": k}


IOK_OPS = [("neg", "newax", "newax:2", "outer"), ("T", "neg", "addy", "sumq:c", "dia"), ("T", "neg")]


def mk_stack(depth, NB, ops, bases, full_upto, pairs, oplists=None, every=5, tag=""):
    def setup(e):
        return (gen_stack(e, depth, NB, ops, bases, oplists),)

    def run(e, st):
        return check_stack(e, st, full_upto, pairs)

    def e2e(model):
        e2e_stack(setup(NativeEngine(model))[0])

    nbs = ",".join(f"{c}:{lo}-{hi}" for c, (lo, hi) in NB.items())
    return Obligation(f"stack[depth={depth},blocks={nbs}{tag}]", setup, run, e2e=e2e, e2e_every=every)


# ---------------------------------------------------------------- (c) annotated stacks

ANN_MENUS = ("none", "retries", "prio+workers", "res+aow", "foo", "foo+retries", "foo2", "all")
ANN_SHAPES = {
    "two": ("neg", "lit"),
    "chain": ("neg", "T", "addy"),
    "diamond": ("neg", "T", "dia"),
    "chainT": ("T", "T", "neg"),
    "dotmid": ("addy", "dot", "neg"),
}
_WORKERS_OF = (["alice", "bob"], ["bob", "carol"], ["alice", "bob", "carol"])


def decl_ann(e, menu, t):
    """annotation dict of layer t: the menu entry is enumerated, amounts are symbolic, worker lists / flags are fixed per layer
    (their combinations are the subject of the fuse_annotations obligations)"""
    m = e.pick(f"ann{t}", menu)
    if m == "none":
        return None
    a = {}
    if m in ("retries", "foo+retries", "all"):
        a["retries"] = e.int(f"retries{t}")
    if m in ("prio+workers", "all"):
        a["priority"] = e.int(f"priority{t}")
        a["workers"] = list(_WORKERS_OF[t])
    if m in ("res+aow", "all"):
        a["resources"] = {"GPU": e.int(f"res{t}_GPU")}
        if t == 1:
            a["resources"]["MEM"] = e.int(f"res{t}_MEM")
        a["allow_other_workers"] = t != 1
        a.setdefault("workers", ["bob"] if t == 0 else ["alice", "bob"])
    if m in ("foo", "foo+retries"):
        a["foo"] = 1
    if m == "foo2":
        a["foo"] = 2
    return a


def _ann_equal(e, a, b):
    """annotation dicts equal (lazy; symbolic amounts)"""
    a, b = a or {}, b or {}
    if set(a) != set(b):
        return False
    r = True
    for k in a:
        if k == "resources":
            if set(a[k]) != set(b[k]):
                return False
            r = r & _and(a[k][n] == b[k][n] for n in a[k])
        elif k == "workers":
            if sorted(a[k]) != sorted(b[k]):
                return False
        else:
            r = r & (a[k] == b[k])
    return r


def check_fused_annotations(e, hlg, opt, fuse_cfg, what):
    """every layer of `opt` against the layers of `hlg` that were merged into it"""
    dependents = {}
    for name, ds in hlg.dependencies.items():
        for d in ds:
            dependents.setdefault(d, set()).add(name)
    missing = [n for n in hlg.layers if n not in opt.layers]
    for m in missing:
        e.check(isinstance(hlg.layers[m], B.Blockwise), f"{what}: the non-Blockwise layer {m} disappeared")
        e.check(m in dependents, f"{what}: layer {m} disappeared without a dependent")
    for s, lay in opt.layers.items():
        e.check(s in hlg.layers, f"{what}: new layer name {s}")
        members, work = {s}, [s]
        while work:
            x = work.pop()
            for m in missing:
                if m not in members and x in dependents.get(m, ()):
                    members.add(m)
                    work.append(m)
        parts = [hlg.layers[m].annotations for m in sorted(members)]
        if len(members) == 1:
            a, b = lay.annotations, hlg.layers[s].annotations
            e.check(lambda: _ann_equal(e, a, b), f"{what}: layer {s} was not merged but its annotations changed")
            continue
        check_rule(e, parts, lay.annotations, f"{what}: layer {s} merged from {sorted(members)}")
        special_only = all(k in SPECIAL for a in parts if a for k in a)
        if not (special_only and fuse_cfg is not False):
            p0 = parts[0]
            for a in parts[1:]:
                e.check(lambda: _ann_equal(e, p0, a),
                        f"{what}: layers {sorted(members)} with unequal annotations were merged although "
                        + ("optimization.annotations.fuse is False" if special_only else "they carry a non-fusable annotation key"))


def mk_annotated(shape, menu, cfgs=(None,), every=7):
    ops = ANN_SHAPES[shape]

    def setup(e):
        st = gen_stack(e, len(ops), _nb((2, 2)), None, ("x2",), [(op,) for op in ops])
        for t, L in enumerate(st.layers):
            L["ann"] = decl_ann(e, menu, t)
        if all(L["ann"] is None for L in st.layers):
            e.assume(False)
        cfg = e.pick("annotations_fuse", cfgs)
        return st, cfg

    def run(e, st, cfg):
        with dask.config.set({"optimization.annotations.fuse": cfg}):
            top = st.layers[-1]["arr"]
            hlg, order = build(st)
            full = dict(hlg.to_dict())
            amap = {a.name: a for a in st.arrs}
            allkeys = [k for name in order for k in _keys(name, _grid(amap[name]))]
            ref = dict(zip(allkeys, _plain(list(C.get(full, allkeys)))))
            for L in st.layers:
                got = hlg.layers[L["name"]].annotations
                if ((got or None) is None) != (not L["ann"]) or (got and set(got) != set(L["ann"])):
                    raise HarnessError("dask.annotate lost an annotation")
            obs = []
            for keys in (_keys(top.name, _grid(top)), _keys(top.name, _grid(top)) + _keys(st.layers[0]["name"], _grid(st.layers[0]["arr"]))):
                hlg2, _ = build(st)
                opt = B.optimize_blockwise(hlg2, keys=list(keys))
                what = f"optimize_blockwise(keys of {sorted({k[0] for k in keys})})"
                _same_values(e, _get(e, opt.to_dict(), keys, what), keys, ref, what)
                check_fused_annotations(e, hlg2, opt, cfg, what)
                obs.append([(n, norm_ann(opt.layers[n].annotations)) for n in sorted(opt.layers) if isinstance(opt.layers[n], B.Blockwise)])
            return obs

    def e2e(model):
        ne = NativeEngine(model)
        st, cfg = setup(ne)
        base = np.arange(12).reshape(3, 4)
        x = da.from_array(base, chunks=(2, 2))
        y = da.from_array(base * 3, chunks=(2, 2))
        cur, r = x, base
        for L in st.layers:
            with dask.annotate(**_copy_ann(L["ann"] or {})):
                op = L["op"].split(":")[0]
                if op == "neg":
                    cur, r = -cur, -r
                elif op == "lit":
                    cur, r = cur * 7, r * 7
                elif op == "T":
                    cur, r = cur.T, r.T
                elif op in ("addy", "dia"):
                    if cur.shape == (3, 4):
                        cur, r = cur + y, r + base * 3
                    else:
                        cur, r = cur + y.T, r + (base * 3).T
                else:
                    return
        with dask.config.set({"optimization.annotations.fuse": cfg}):
            g = cur.__dask_graph__()
            keys = list(C.flatten(cur.__dask_keys__()))
            opt = B.optimize_blockwise(g, keys=keys)
            check_fused_annotations(ne, g, opt, cfg, "e2e optimize_blockwise")
            got = dask.get(opt.cull(keys).to_dict(), cur.__dask_keys__())
            if not np.array_equal(np.block([list(row) for row in got]), r):
                raise Violation("e2e: annotated expression computes other values after optimize_blockwise + cull")

    return Obligation(f"annotated[{shape},menus={len(menu)},fuse-config={list(cfgs)}]", setup, run, e2e=e2e, e2e_every=every)


# ---------------------------------------------------------------- obligations

def obligations(tier):
    obs = []
    M = ANN_MENUS
    if tier == "quick":
        for key in SPECIAL:
            obs.append(mk_fuse_ann(2, key, 3))
            obs.append(mk_fuse_ann(3, key, 2, backgrounds=("none",), resmenus=RESMENUS[1:]))
        obs.append(mk_fuse_ann_all(2, 2))
        obs.append(mk_stack(1, _nb((1, 3), (1, 3), (1, 2)), OPS_ALL, BASES, 4, "first", every=3))
        obs.append(mk_stack(2, _nb((1, 2), (1, 2), (2, 2)), None, ("x2", "io"), 4, None, oplists=[OPS_PRODUCERS, OPS_ALL], every=7))
        obs.append(mk_stack(3, _nb((2, 2)), None, ("x2",), 2, None, every=5,
                            oplists=[("neg", "T", "dot:c", "addy:b0"), ("T", "addyT", "dot", "sumq", "newax", "twice"), ("neg", "dia", "twice", "addy", "T", "sumq:c", "newax:2", "outer")]))
        obs.append(mk_stack(2, _nb((1, 2), (2, 2), (2, 2)), None, ("iok",), 4, None, oplists=IOK_OPS[:2], every=3, tag=",io-keys"))
        obs.append(mk_annotated("two", M[:6], cfgs=(None, False)))
        obs.append(mk_annotated("chain", ("none", "retries", "res+aow", "foo")))
        obs.append(mk_annotated("diamond", ("none", "prio+workers", "foo")))
    else:
        for key in SPECIAL:
            obs.append(mk_fuse_ann(2, key, 3))
            obs.append(mk_fuse_ann(3, key, 3))
        obs.append(mk_fuse_ann_all(2, 4))
        obs.append(mk_fuse_ann_all(3, 1))
        obs.append(mk_stack(1, _nb((1, 3)), OPS_ALL, BASES, 6, "all", every=3))
        obs.append(mk_stack(2, _nb((1, 3), (1, 3), (1, 2)), OPS_ALL, ("x2", "x1", "io"), 4, "first", every=7))
        d3 = ("neg", "ref", "addy:b0", "T", "addyT", "dot", "dot:c", "sumq", "sumq:c", "newax:2", "outer", "twice", "dia")
        obs.append(mk_stack(3, _nb((1, 2), (2, 2), (2, 2)), d3, ("x2",), 4, "first", every=11))
        obs.append(mk_stack(2, _nb((1, 3), (1, 2), (2, 2)), OPS_ALL, ("iok",), 4, "first", every=3, tag=",io-keys"))
        obs.append(mk_stack(3, _nb((1, 2), (2, 2), (2, 2)), None, ("iok",), 4, None, oplists=IOK_OPS, every=3, tag=",io-keys"))
        for shape in ANN_SHAPES:
            obs.append(mk_annotated(shape, M if shape == "two" else M[:6], cfgs=(None, False)))
    return obs
