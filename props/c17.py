"""C17 -- configuration changes are scoped, atomic and spelling-insensitive"""
from __future__ import annotations

from symx.core import Violation, SInt
from symx.run import Obligation

import dask.config as CFG

PROPERTY = "C17"
LEVEL = "other"
BUDGET = {"quick": 150, "thorough": 1500}
EXPLANATION = (
    "The real dask.config.set (constructor, _assign, __exit__), canonical_name, get, update, merge, collect_env and "
    "serialize/deserialize are executed on a private config dict. Keys are drawn by the solver from an explicit universe of dotted "
    "paths over the segments {a, b, a_b, a-b} (20 keys: every hyphen/underscore spelling, keys that are prefixes of each other); the "
    "initial config is one of 8 shapes (empty, scalar, nested, both spellings present, prefix set to a scalar, nested under the "
    "alternative spelling, a null top-level value, a null nested value); every stored value is a symbolic integer, so 'restored exactly' is a z3 equality over all values rather "
    "than a coincidence of samples. Assertions: leaving a context restores the entry snapshot for every nesting; inside, get() returns "
    "the last assigned value under either spelling; a set() call that raises leaves the config equal to the snapshot taken before "
    "the call; merge/update follow the documented precedence (later / new wins leaf-wise, 'old' keeps existing leaves); collect_env "
    "maps DASK_A__B=<int> to a.b; deserialize(serialize(cfg)) == cfg. Key choices are solver-enumerated (bounded exhaustive).")
ASSUMPTIONS = ["free-form key strings are not symbolic (CrossHair probe: hashing a symbolic str against a concrete dict never confirms); keys come from the explicit universe",
               "a private dict is passed via config=, so the process-wide configuration is untouched"]
STUBS = []
ENUM = ["keys, number of keys per call, nesting depth, initial shape"]
OUTSIDE = ["YAML files, refresh, the deprecations table, locks", "keys outside the universe"]
BOUNDS = {
    "quick": dict(contexts="1 context x <=2 keys and 2 contexts x 1 key over the 20-key universe; 2 contexts (<=2 then 1 key) over an 8-key sub-universe", initial_shapes=8, values="symbolic ints (unbounded)"),
    "thorough": dict(contexts="as quick plus 2 contexts x <=2 keys and 3 contexts x 1 key over the 8-key sub-universe", initial_shapes=8, values="symbolic ints (unbounded)"),
}

SEGS = ("a", "b", "a_b", "a-b")
UNIVERSE = list(SEGS) + [f"{x}.{y}" for x in SEGS for y in SEGS]


def functions():
    return [CFG.set.__init__, CFG.set._assign, CFG.set.__exit__, CFG.canonical_name, CFG.get, CFG.update, CFG.merge, CFG.collect_env,
            CFG.interpret_value, CFG.serialize, CFG.deserialize]


def snap(x):
    if isinstance(x, dict):
        return {k: snap(v) for k, v in x.items()}
    return x


def initial(e, which):
    v = [e.int(f"i{n}") for n in range(2)]
    return [
        {},
        {"a": v[0]},
        {"a": {"b": v[0]}, "b": v[1]},
        {"a_b": v[0], "a-b": v[1]},
        {"a": v[0], "a_b": {"a": v[1]}},
        {"a-b": {"a_b": v[0], "b": v[1]}},
        {"a": None, "b": v[0]},                     # null placeholders (many dask.yaml defaults are null)
        {"a": {"b": None}, "a_b": v[1]},
    ][which]


def alt(k):
    return ".".join((s.replace("_", "-") if "_" in s else s.replace("-", "_")) for s in k.split("."))


def ambiguous(cfg, key):
    """both spellings of a path segment exist side by side (possible only in hand-made configs): 'either spelling'
    is then not well defined and only the spelling used is checked"""
    cur = cfg
    for seg in key.split("."):
        if not isinstance(cur, dict):
            return False
        a = alt(seg)
        if a != seg and seg in cur and a in cur:
            return True
        k = seg if seg in cur else a
        if k not in cur:
            return False
        cur = cur[k]
    return False


NINIT = 8
SMALL = ["a", "b", "a_b", "a-b", "a.b", "a_b.a", "a-b.a", "b.a_b"]


def mk_set(plan, universe, tag):
    """plan: keys per set call for each nested context, e.g. (2, 1) = two keys in the outer call, one in the inner"""
    def setup(e):
        which = e.choice("init", NINIT)
        calls = []
        for c, nmax in enumerate(plan):
            n = 1 + e.choice(f"nkeys{c}", nmax)
            kv = []
            for k in range(n):
                key = universe[e.choice(f"key{c}_{k}", len(universe))]
                kv.append((key, e.int(f"val{c}_{k}")))
            calls.append(kv)
        return which, calls

    def run(e, which, calls):
        cfg = initial(e, which)
        stack = []
        trace = []
        for kv in calls:
            before = snap(cfg)
            arg = {}
            for k, v in kv:
                arg[k] = v
            try:
                ctx = CFG.set(arg, config=cfg)
            except Exception as ex:
                trace.append(type(ex).__name__)
                e.check(lambda: e.equal(cfg, before), f"set({list(arg)}) raised {type(ex).__name__} but left the configuration changed")
                break
            stack.append((ctx, before))
            lastk, lastv = list(arg.items())[-1]
            for name in ((lastk,) if ambiguous(cfg, lastk) else (lastk, alt(lastk))):
                got = CFG.get(name, config=cfg)
                e.check(lambda: e.equal(got, lastv), f"inside the context get({name!r}) does not return the value just set for {lastk!r}")
            trace.append("ok")
        while stack:
            ctx, before = stack.pop()
            ctx.__exit__(None, None, None)
            e.check(lambda: e.equal(cfg, before), "leaving the context did not restore the configuration exactly")
        return (trace, cfg)

    return Obligation(f"set[{tag}]", setup, run)


def leaves(d, path=()):
    for k, v in d.items():
        ck = k.replace("-", "_")
        if isinstance(v, dict):
            yield from leaves(v, path + (ck,))
        else:
            yield path + (ck,), v


def all_paths(d, path=()):
    """paths of leaves and of sub-dicts (an empty sub-dict also claims its path)"""
    for k, v in d.items():
        ck = k.replace("-", "_")
        yield path + (ck,)
        if isinstance(v, dict):
            yield from all_paths(v, path + (ck,))


MSEGS = ("a", "a_b", "a-b")


def gen_dict(e, tag, nmax, depth=2):
    d = {}
    n = e.choice(f"{tag}n", nmax + 1)
    for i in range(n):
        if depth > 1:
            k = MSEGS[e.choice(f"{tag}k{i}", 3)]
        else:
            k = ("b", "a_b")[e.choice(f"{tag}k{i}", 2)]
        if depth > 1 and e.flag(f"{tag}d{i}"):
            d[k] = gen_dict(e, f"{tag}{i}_", 1, depth - 1)
        elif e.flag(f"{tag}z{i}"):
            d[k] = None         # an explicit null is a value like any other: it takes part in precedence
        else:
            d[k] = e.int(f"{tag}v{i}")
    return d


def well_formed(d):
    """no two keys of one level that are the same up to spelling (the documented behaviour for those depends on dict order)"""
    seen = set()
    for k, v in d.items():
        ck = k.replace("-", "_")
        if ck in seen:
            return False
        seen.add(ck)
        if isinstance(v, dict) and not well_formed(v):
            return False
    return True


def mk_merge(priority, n_old, n_new):
    def setup(e):
        old = gen_dict(e, "o", n_old)
        new = gen_dict(e, "n", n_new)
        e.assume(well_formed(old) and well_formed(new))
        return old, new

    def run(e, old, new):
        o0, n0 = snap(old), snap(new)
        if priority == "merge":
            res = CFG.merge(old, new)
            e.check(lambda: e.equal(old, o0) & e.equal(new, n0), "merge modified its arguments")
            win, lose = n0, o0
        else:
            res = CFG.update(old, new, priority=priority)
            e.check(res is old, "update must operate in place")
            e.check(lambda: e.equal(new, n0), "update modified `new`")
            win, lose = (n0, o0) if priority == "new" else (o0, n0)
        wl = dict(leaves(win))
        ll = dict(leaves(lose))
        wpaths = set(all_paths(win))
        lpaths = set(all_paths(lose))

        def lookup(path):
            cur = res
            for s in path:
                if not isinstance(cur, dict):
                    return None, False
                k = CFG.canonical_name(s, cur)
                if k not in cur:
                    return None, False
                cur = cur[k]
            return cur, True

        def conflicts(p, others):
            return any(q[:len(p)] == p or p[:len(q)] == q for q in others)

        for p, v in wl.items():
            if priority == "old" and conflicts(p, [q for q in lpaths if not (q == p and q in ll)]):
                continue        # structure clash between a leaf and a sub-dict: precedence is not documented
            got, ok = lookup(p)
            e.check(ok, f"leaf {'.'.join(p)} of the preferred mapping is missing from the result")
            e.check(lambda: e.equal(got, v), f"leaf {'.'.join(p)}: the preferred mapping did not win")
        for p, v in ll.items():
            if conflicts(p, wpaths):
                continue
            got, ok = lookup(p)
            e.check(ok, f"leaf {'.'.join(p)} of the other mapping was lost")
            e.check(lambda: e.equal(got, v), f"leaf {'.'.join(p)} changed although nothing overrides it")
        return res

    return Obligation(f"precedence[{priority},{n_old}x{n_new}]", setup, run)


def mk_env():
    def setup(e):
        n = 1 + e.choice("n", 2)
        items = []
        for i in range(n):
            s1 = ("A", "b", "A_B", "a_b")[e.choice(f"s1_{i}", 4)]
            nested = e.flag(f"nest{i}")
            s2 = ("B", "a", "A_b")[e.choice(f"s2_{i}", 3)] if nested else None
            items.append((s1, s2, e.int(f"v{i}", -3, 3)))
        return (items,)

    def run(e, items):
        env = {"HOME": "/x", "DASKX": "1"}
        want = {}
        for s1, s2, v in items:
            name = "DASK_" + s1 + ("__" + s2 if s2 else "")
            env[name] = str(v)
        # later variables win on equal names; names that differ only by case map to the same key
        final = {}
        for name, val in env.items():
            if name.startswith("DASK_"):
                final[name[5:].lower().replace("__", ".")] = int(val)
        # skip environments where one key is a prefix of another (scalar vs section clash: a user error)
        ks = [k.replace("-", "_") for k in final]
        clash = any(a != b and (b.startswith(a + ".")) for a in ks for b in ks)
        if clash:
            return "clash"
        res = CFG.collect_env(env)
        for k, v in final.items():
            e.check(CFG.get(k, config=res) == v, f"collect_env lost {k}")
            e.check(CFG.get(alt(k), config=res) == v, f"collect_env: alternative spelling of {k} not found")
        e.check("x" not in res and "daskx" not in res, "non-DASK_ variable collected")
        rt = CFG.deserialize(CFG.serialize(res))
        e.check(rt == res, "serialize/deserialize does not round-trip")
        return res

    return Obligation("env+serialize", setup, run)


SPECIAL = (">", "~", "?", "\x7f", "\u00e9", '"', "-", "_", "/", "+", "a")


def mk_serialize():
    """string values whose JSON text puts bytes that base64 encodes to '-' / '_' / '+' / '/' at every alignment"""
    def setup(e):
        items = []
        for i in range(1):
            key = ("a", "a-b", "b_c")[e.choice(f"k{i}", 3)]
            pre = e.int(f"pre{i}", 0, 3)
            ch = SPECIAL[e.choice(f"ch{i}", len(SPECIAL))]
            post = e.int(f"post{i}", 0, 2)
            nested = e.flag(f"nest{i}")
            items.append((key, pre, ch, post, nested))
        return (items,)

    def run(e, items):
        cfg = {"z": {"w": 150}}
        for key, pre, ch, post, nested in items:
            val = "x" * pre + ch + "y" * post
            if nested:
                cfg.setdefault("sec", {})[key] = val
            else:
                cfg[key] = val
        text = CFG.serialize(cfg)
        e.check(isinstance(text, str), "serialize must return str")
        back = CFG.deserialize(text)
        e.check(back == cfg, f"deserialize(serialize(cfg)) != cfg for {cfg!r}")
        env = {"DASK_INTERNAL_INHERIT_CONFIG": text}
        got = CFG.collect_env(env)
        # (collect_env also files the variable itself under 'internal_inherit_config'; only the inherited entries are compared)
        for k, v in cfg.items():
            e.check(CFG.get(k, config=got) == v, f"collect_env does not restore the inherited entry {k!r} of {cfg!r}")
        return back

    return Obligation("serialize[strings]", setup, run)


def obligations(tier):
    if tier == "quick":
        return [mk_set((2,), UNIVERSE, "1 context, <=2 keys, 20-key universe"), mk_set((1, 1), UNIVERSE, "2 contexts, 1 key each, 20-key universe"),
                mk_set((2, 1), SMALL, "2 contexts, <=2 then 1 key, 8-key universe"), mk_merge("merge", 2, 1), mk_merge("new", 1, 2), mk_merge("old", 2, 1), mk_env(), mk_serialize()]
    return [mk_set((2,), UNIVERSE, "1 context, <=2 keys, 20-key universe"), mk_set((1, 1), UNIVERSE, "2 contexts, 1 key each, 20-key universe"),
            mk_set((2, 2), SMALL, "2 contexts, <=2 keys each, 8-key universe"), mk_set((1, 1, 1), SMALL, "3 contexts, 1 key each, 8-key universe"), mk_merge("merge", 2, 2), mk_merge("new", 2, 2), mk_merge("old", 2, 2), mk_env(), mk_serialize()]
