"""C41 -- known divisions always describe the partitions truthfully.

Kernels symbolically executed: dask.dataframe.indexing._partition_of_index_value / _partitions_of_index_values,
LocSlice.start / stop / istart / istop / _divisions / _layer, LocElement._layer, LocList._layer_information (on duck-typed
expressions), plus the division kernels shared with C44 (RepartitionDivisions._layer) and C45 (sorted_division_locations,
behind from_pandas), whose obligations are re-used here with their own oracles.
"""
from __future__ import annotations

import operator
import types

import numpy as np

from symx.core import Violation, HarnessError
from symx.run import Obligation
from props.dfstub import dd

import pandas as pd
from dask._task_spec import Task, Alias, TaskRef, DataNode
from dask.dataframe import methods
from dask.dataframe import indexing as IX
from dask.dataframe.dask_expr import _indexing as LI
from dask.dataframe.dask_expr import _repartition as RP
from props import c44 as C44, c45 as C45

PROPERTY = "C41"
LEVEL = "other"
BUDGET = {"quick": 200, "thorough": 1800}
CHUNK_PATHS = 40
EXPLANATION = (
    "Bounded symbolic execution of the kernels that PRODUCE known divisions, with the old divisions as sorted tuples of unbounded symbolic "
    "integers and a symbolic row index value v placed in the partition the (assumed truthful) input divisions dictate. "
    "loc[lo:hi] (LocSlice): label bounds symbolic or None; z3 decides for every path class that the graph has len(divisions)-1 output "
    "partitions; a row is kept iff lo <= v <= hi (pandas label slicing) and then sits in exactly one output partition j with "
    "divisions[j] <= v < divisions[j+1] (closed on the right for the last one); the reported divisions are sorted whenever the selection can be "
    "non-empty. loc[v0] (LocElement) and loc[[v0, v1, ..]] (LocList): every requested label is looked up in the partition the divisions "
    "dictate and the reported divisions bracket each output partition's labels. _partition_of_index_value is checked against the interval "
    "reading of divisions directly. repartition(divisions=..) and from_pandas are covered by re-using the C44 / C45 kernel obligations "
    "(routing of a symbolic row through RepartitionDivisions._layer; sorted_division_locations: divisions equal the values at their "
    "locations and equal values never straddle a boundary). repartition(npartitions=more) on numeric divisions (float interpolation, "
    "solver-enumerated inputs): npartitions == len(divisions)-1 and every partition inside its interval. Every path model is replayed "
    "natively and through the public API on a real pandas frame (per-partition index min/max against .divisions).")
ASSUMPTIONS = [
    "input divisions are truthful (induction step): partition i holds index values in [a[i], a[i+1]), the last one is closed",
    "methods.loc(df, slice(lo, hi)) is pandas label slicing on a sorted index: keeps lo <= index <= hi (validated on every e2e witness)",
    "duck-typed expression objects (SimpleNamespace with frame.divisions/npartitions/known_divisions/_name, iindexer, cindexer) stand in for the "
    "expression classes; the methods executed are the real ones taken from the classes",
    "dask.dataframe is imported with a stub `pyarrow` package (absent from the sandbox)",
]
STUBS = ["stub pyarrow for import", "duck-typed `self` for LocSlice / LocElement / LocList methods"]
ENUM = ["number of partitions, None-ness of the loc bounds, number of labels in a list indexer", "every input of set_index[...] and from_pandas[...]", "all inputs of the numeric more-partitions path (float interpolation)"]
OUTSIDE = ["set_index beyond the solver-enumerated small frames of set_index[...] (quantile sketches, pandas searchsorted: no symbolic claim)", "index-aligned merges / concat, filters (pandas kernels)", "datetime partial-string indexing",
           "loc with a negative step (ReverseDataFrame drops the divisions)"]
BOUNDS = {
    "quick": dict(loc_slice="1..3 partitions, divisions unbounded symbolic ints, bounds symbolic or None", loc_list="2..3 partitions, <=2 labels",
                  shared="C44 divisions[na<=3, nb<=3], C45 sdl[L<=5]"),
    "thorough": dict(loc_slice="1..5 partitions", loc_list="2..4 partitions, <=3 labels", shared="C44 divisions[na<=4, nb<=5], C45 thorough set"),
}


def functions():
    return [IX._partition_of_index_value, IX._partitions_of_index_values, IX._coerce_loc_index,
            LI.LocSlice.__dict__["start"].func, LI.LocSlice.__dict__["stop"].func, LI.LocSlice.__dict__["istart"].func,
            LI.LocSlice.__dict__["istop"].func, LI.LocSlice._divisions, LI.LocSlice._layer, LI.LocElement._layer,
            LI.LocList.__dict__["_layer_information"].func, RP.RepartitionDivisions._layer, RP.Repartition._lower]


part_of = C44.part_of
sorted_divs = C44.sorted_divs


def _frame(a):
    return types.SimpleNamespace(divisions=tuple(a), npartitions=len(a) - 1, known_divisions=True, _name="src")


def _in_part(d, j, v, m):
    """v inside output partition j of divisions d (m partitions)"""
    if j == m - 1:
        return (d[j] <= v) and (v <= d[j + 1])
    return (d[j] <= v) and (v < d[j + 1])


def _task_read(t):
    """(source partition, label slice) of one output task"""
    if isinstance(t, Alias):
        tgt = t.target
        tgt = getattr(tgt, "key", tgt)
        return tgt[1], slice(None, None)
    if not isinstance(t, Task):
        raise Violation(f"unexpected graph value {t!r}")
    if t.func is not methods.loc:
        raise Violation("output task is not methods.loc")
    ref, sl = t.args[0], t.args[1]
    if ref.key[0] != "src":
        raise Violation("task reads a foreign collection")
    return ref.key[1], sl


def mk_loc_slice(n):
    def setup(e):
        a = sorted_divs(e, "a", n + 1)
        lo = None if e.flag("lo_none") else e.int("lo")
        hi = None if e.flag("hi_none") else e.int("hi")
        v = e.int("v")
        e.assume(lambda: (v >= a[0]) & (v <= a[-1]))
        return a, lo, hi, v

    def run(e, a, lo, hi, v):
        fake = types.SimpleNamespace(frame=_frame(a), iindexer=slice(lo, hi), cindexer=None, _name="out")
        P = LI.LocSlice.__dict__
        fake.start = P["start"].func(fake)
        fake.stop = P["stop"].func(fake)
        fake.istart = P["istart"].func(fake)
        fake.istop = P["istop"].func(fake)
        d = LI.LocSlice._divisions(fake)
        dsk = LI.LocSlice._layer(fake)
        m = len(d) - 1
        e.check(sorted(dsk) == [("out", j) for j in range(m)], f"{len(dsk)} output partitions but {len(d)} divisions: npartitions != len(divisions)-1")
        src = part_of(a, v)
        keep = (lo is None or v >= lo) and (hi is None or v <= hi)
        hits = []
        for j in range(m):
            p, sl = _task_read(dsk[("out", j)])
            if p != src:
                continue
            if (sl.start is None or v >= sl.start) and (sl.stop is None or v <= sl.stop):
                hits.append(j)
        if keep:
            e.check(len(hits) == 1, f"a row with a selected label appears in {len(hits)} output partitions")
            e.check(_in_part(d, hits[0], v, m), "a row lies outside the interval its partition's divisions report")
        else:
            e.check(hits == [], "a row outside the label slice is kept")
        if lo is None or hi is None or lo <= hi:
            for x, y in zip(d, d[1:]):
                e.check(lambda: x <= y, "reported divisions are not sorted")
        return (m, hits)

    def e2e(model):
        a = [model[f"a{i}"] for i in range(n + 1)]
        lo = None if model.get("lo_none") else model["lo"]
        hi = None if model.get("hi_none") else model["hi"]
        src = _real_frame(a, [model["v"]] + [x for x in (lo, hi) if x is not None])
        if src is None:
            return
        ddf, df = src
        out = ddf.loc[lo:hi]
        _truthful(out, df.loc[lo:hi], f"loc[{lo}:{hi}] on divisions {a}")

    return Obligation(f"loc_slice[n={n}]", setup, run, e2e=e2e, e2e_every=7)


def _real_frame(a, extra):
    """a real dask frame with exactly the divisions `a` (None if they cannot be realised)"""
    vals = sorted(set(a + [x for x in extra if a[0] <= x <= a[-1]] + [x + 1 for x in a[:-1] if x + 1 <= a[-1]]))
    idx = []
    for x in vals:
        idx += [x, x] if x in extra else [x]
    df = pd.DataFrame({"x": range(len(idx))}, index=pd.Index(idx, dtype="int64"))
    try:
        ddf = dd.from_pandas(df, npartitions=1).repartition(divisions=a)
    except ValueError:
        return None
    if ddf.divisions != tuple(a):
        return None
    return ddf, df


def _truthful(out, want, what):
    if out.npartitions != len(out.divisions) - 1:
        raise Violation(f"{what}: npartitions {out.npartitions} != len(divisions)-1 ({out.divisions})")
    got = out.compute(scheduler="sync")
    if not got.equals(want):
        raise Violation(f"{what}: rows differ from pandas ({got.index.tolist()} vs {want.index.tolist()})")
    low = out.optimize()
    d = out.divisions
    n = low.npartitions
    if n != len(d) - 1:
        raise Violation(f"{what}: lowered collection has {n} partitions, divisions {d}")
    for i in range(n):
        ix = low.get_partition(i).compute(scheduler="sync").index
        for x in ix:
            ok = (d[i] <= x <= d[i + 1]) if i == n - 1 else (d[i] <= x < d[i + 1])
            if not ok:
                raise Violation(f"{what}: partition {i} of divisions {d} holds index value {x}")


def mk_partition_of(n):
    def setup(e):
        a = sorted_divs(e, "a", n + 1)
        v = e.int("v")
        return a, v

    def run(e, a, v):
        got = IX._partition_of_index_value(list(a), v)
        e.check(0 <= got < n, "partition number out of range")
        if v < a[0]:
            e.check(got == 0, "label left of the first division must map to the first partition")
        elif v > a[-1]:
            e.check(got == n - 1, "label right of the last division must map to the last partition")
        else:
            e.check(got == part_of(a, v), "label looked up in a partition whose division interval does not contain it")
        return got

    return Obligation(f"partition_of_index_value[n={n}]", setup, run)


def mk_loc_list(n, k):
    def setup(e):
        a = sorted_divs(e, "a", n + 1)
        vs = []
        for i in range(k):
            v = e.int(f"v{i}")
            e.assume(lambda: (v >= a[0]) & (v <= a[-1]))
            vs.append(v)
        return a, vs

    def run(e, a, vs):
        fake = types.SimpleNamespace(frame=_frame(a), iindexer=list(vs), cindexer=None, _name="out", _meta=None)
        dsk, d = LI.LocList.__dict__["_layer_information"].func(fake)
        m = len(d) - 1
        e.check(sorted(dsk) == [("out", j) for j in range(m)], "npartitions != len(divisions)-1")
        for x, y in zip(d, d[1:]):
            e.check(lambda: x <= y, "reported divisions are not sorted")
        for v in vs:
            src = part_of(a, v)
            hits = []
            for j in range(m):
                t = dsk[("out", j)]
                e.check(isinstance(t, Task) and t.func is methods.loc, "output task is not methods.loc")
                if t.args[0].key[1] == src and any(x is v or bool(x == v) for x in t.args[1]):
                    hits.append(j)
            e.check(len(hits) == 1, f"label looked up in {len(hits)} partitions that can hold it")
            e.check(_in_part(d, hits[0], v, m), "a selected label lies outside the interval its output partition's divisions report")
        return m

    def e2e(model):
        a = [model[f"a{i}"] for i in range(n + 1)]
        vs = [model[f"v{i}"] for i in range(k)]
        src = _real_frame(a, vs)
        if src is None:
            return
        ddf, df = src
        out = ddf.loc[vs]
        want = df.loc[vs]
        got = out.compute(scheduler="sync")
        if sorted(got.index.tolist()) != sorted(want.index.tolist()):
            raise Violation(f"loc[{vs}] on divisions {a}: rows {got.index.tolist()} vs pandas {want.index.tolist()}")
        low = out.optimize()
        d = out.divisions
        if low.npartitions != len(d) - 1:
            raise Violation(f"loc[{vs}]: {low.npartitions} partitions, divisions {d}")
        for i in range(low.npartitions):
            for x in low.get_partition(i).compute(scheduler="sync").index:
                ok = (d[i] <= x <= d[i + 1]) if i == low.npartitions - 1 else (d[i] <= x < d[i + 1])
                if not ok:
                    raise Violation(f"loc[{vs}] on {a}: partition {i} of divisions {d} holds {x}")

    return Obligation(f"loc_list[n={n},k={k}]", setup, run, e2e=e2e, e2e_every=5)


def mk_loc_element(n):
    def setup(e):
        a = sorted_divs(e, "a", n + 1)
        v = e.int("v")
        e.assume(lambda: (v >= a[0]) & (v <= a[-1]))
        return a, v

    def run(e, a, v):
        fake = types.SimpleNamespace(frame=_frame(a), iindexer=v, cindexer=None, _name="out")
        d = LI.LocElement._divisions(fake)
        dsk = LI.LocElement._layer(fake)
        e.check(list(dsk) == [("out", 0)] and len(d) == 2, "loc[label] must give one partition")
        p, sl = _task_read(dsk[("out", 0)])
        e.check(p == part_of(a, v), "label looked up in a partition whose division interval does not contain it")
        e.check(lambda: (d[0] <= v) & (v <= d[1]), "divisions do not bracket the label")
        e.check(lambda: (sl.start == v) & (sl.stop == v), "wrong label slice")
        return p

    return Obligation(f"loc_element[n={n}]", setup, run)


def mk_more_numeric(nold_max, nnew_max):
    """npartitions vs divisions after repartition(npartitions=more) on integer divisions (np.interp path; enumerated inputs)"""
    def setup(e):
        base = e.pick("base", C44.BASES)
        nold = 1 + e.choice("nold", nold_max)
        gaps = [e.int(f"g{i}", 1, 3) for i in range(nold)]
        nnew = e.int("nnew", 2, nnew_max)
        e.assume(lambda: nnew > nold)
        return base, gaps, nnew

    def run(e, base, gaps, nnew):
        divs = [base]
        for g in gaps:
            divs.append(divs[-1] + operator.index(g))
        nnew = operator.index(nnew)
        idx = []
        for x, y in zip(divs, divs[1:]):
            idx += list(range(x, y))
        idx.append(divs[-1])
        df = pd.DataFrame({"x": range(len(idx))}, index=pd.Index(idx, dtype="int64"))
        src = dd.from_pandas(df, npartitions=1).repartition(divisions=divs)
        out = src.repartition(npartitions=nnew)
        e.check(out.npartitions == len(out.divisions) - 1,
                f"repartition(npartitions={nnew}) of divisions {divs}: npartitions {out.npartitions} but divisions {out.divisions}")
        _truthful(out, df, f"repartition(npartitions={nnew}) of divisions {divs}")
        return [int(x) for x in out.divisions]

    return Obligation(f"more_partitions_numeric[nold<={nold_max},nnew<={nnew_max}]", setup, run)


def mk_from_pandas(L):
    """from_pandas(npartitions / chunksize / sort) on a sorted index with duplicates (values enumerated over a 3-letter alphabet)"""
    def setup(e):
        n = 1 + e.choice("len", L)
        seq = []
        prev = 0
        for i in range(n):
            step = e.choice(f"s{i}", 3)
            prev = prev + step
            seq.append(prev)
        mode = e.pick("mode", ("npartitions", "chunksize"))
        k = e.int("k", 1, L + 1)
        return seq, mode, k

    def run(e, seq, mode, k):
        k = operator.index(k)
        df = pd.DataFrame({"x": range(len(seq))}, index=pd.Index(seq, dtype="int64"))
        out = dd.from_pandas(df, **{mode: k})
        e.check(out.known_divisions, "from_pandas(sort=True) must give known divisions")
        _truthful(out, df, f"from_pandas(index={seq}, {mode}={k})")
        return [int(x) for x in out.divisions]

    return Obligation(f"from_pandas[len<={L}]", setup, run)


def mk_set_index(L, nparts):
    """set_index(col) on the automatic path (no sorted=, no divisions=): the column values and the partition cuts are solver-enumerated, with
    sequences that are already sorted across partitions (duplicates touching a partition boundary included) and unsorted ones"""
    def setup(e):
        n = 2 + e.choice("len", L - 1)
        seq, prev = [], 0
        for i in range(n):
            prev = prev + e.choice(f"s{i}", 3)
            seq.append(prev)
        cuts = sorted({e.choice(f"cut{j}", n + 1) for j in range(nparts - 1)})
        rev = e.flag("reversed")
        return seq, cuts, rev

    def run(e, seq, cuts, rev):
        import dask
        vals = list(reversed(seq)) if rev else list(seq)
        df = pd.DataFrame({"k": vals, "x": range(len(vals))})
        b = [0] + list(cuts) + [len(vals)]
        parts = [df.iloc[lo:hi] for lo, hi in zip(b, b[1:])]
        ddf = dd.from_delayed([dask.delayed(p) for p in parts], meta=df.iloc[:0], verify_meta=False)
        out = ddf.set_index("k")
        d = out.divisions
        got = out.compute(scheduler="sync")
        e.check(sorted(zip(got.index.tolist(), got.x.tolist())) == sorted(zip(vals, range(len(vals)))), "set_index changed the multiset of rows")
        if d[0] is None:
            return "unknown divisions"
        e.check(list(d) == sorted(d), f"set_index divisions not sorted: {d}")
        frames = dask.compute(*out.to_delayed(), scheduler="sync")
        m = len(frames)
        e.check(m == len(d) - 1, f"npartitions {m} != len(divisions)-1 ({d})")
        for i, fr in enumerate(frames):
            for x in fr.index:
                ok = (d[i] <= x <= d[i + 1]) if i == m - 1 else (d[i] <= x < d[i + 1])
                e.check(ok, f"set_index: partition {i} of divisions {d} holds index value {x} (column {vals} cut at {cuts})")
        return [int(x) for x in d]

    return Obligation(f"set_index[len<={L},parts<={nparts}]", setup, run)


def _truthful_if_known(out, want, what):
    """unknown divisions make no claim; known ones must be truthful. Rows must equal pandas either way."""
    if out.known_divisions:
        _truthful(out, want, what)
    else:
        got = out.compute(scheduler="sync")
        if not got.equals(want):
            raise Violation(f"{what}: rows differ from pandas ({got.index.tolist()} vs {want.index.tolist()})")


def mk_concat(maxlen):
    """dd.concat of two frames with known divisions whose index ranges are separated, TOUCH (last label of the first == first label of the
    second), or overlap; partition counts 1..2 each; interleave_partitions on/off. Known result divisions must be truthful (half-open
    partitions!), rows equal pd.concat, and a label lookup of the boundary label returns every row carrying it. Enumerated."""
    def setup(e):
        la = 1 + e.choice("len_a", maxlen)
        lb = 1 + e.choice("len_b", maxlen)
        gap = e.pick("gap", (-1, 0, 1))          # first label of b relative to the last label of a
        na = 1 + e.choice("nparts_a", 2)
        nb = 1 + e.choice("nparts_b", 2)
        inter = e.flag("interleave")
        return la, lb, gap, na, nb, inter

    def run(e, la, lb, gap, na, nb, inter):
        ia = list(range(10, 10 + la))
        ib = list(range(ia[-1] + gap, ia[-1] + gap + lb))
        A = pd.DataFrame({"x": range(la)}, index=pd.Index(ia, dtype="int64"))
        B = pd.DataFrame({"x": range(100, 100 + lb)}, index=pd.Index(ib, dtype="int64"))
        da_, db_ = dd.from_pandas(A, npartitions=na), dd.from_pandas(B, npartitions=nb)
        what = f"concat(index {ia} in {da_.npartitions} partitions, index {ib} in {db_.npartitions} partitions, interleave_partitions={inter})"
        try:
            out = dd.concat([da_, db_], interleave_partitions=inter)
        except ValueError:
            return "refused"          # overlapping inputs without interleave_partitions may be refused
        want = pd.concat([A, B])
        if out.known_divisions:
            want_sorted = want.sort_index(kind="stable")
            got = out.compute(scheduler="sync")
            e.check(sorted(zip(got.index, got.x)) == sorted(zip(want.index, want.x)), f"{what}: rows differ from pandas")
            d = out.divisions
            low = out.optimize()
            e.check(low.npartitions == len(d) - 1, f"{what}: {low.npartitions} partitions but divisions {d}")
            for i in range(low.npartitions):
                for x in low.get_partition(i).compute(scheduler="sync").index:
                    ok = (d[i] <= x <= d[i + 1]) if i == low.npartitions - 1 else (d[i] <= x < d[i + 1])
                    e.check(ok, f"{what}: partition {i} of divisions {d} holds index value {x}")
            # (label lookups assume partitions that are sorted internally; interleaving OVERLAPPING inputs does not promise that and the
            # property is about the divisions only)
            for lab in ({ia[-1], ib[0]} if gap >= 0 else ()):
                g = out.loc[lab].compute(scheduler="sync")
                w = want_sorted.loc[[lab]]
                e.check(sorted(g.x) == sorted(w.x), f"{what}: .loc[{lab}] returns rows {sorted(g.x)}, pandas {sorted(w.x)}")
        else:
            got = out.compute(scheduler="sync")
            e.check(sorted(zip(got.index, got.x)) == sorted(zip(want.index, want.x)), f"{what}: rows differ from pandas")
        return [None if x is None else int(x) for x in out.divisions]

    return Obligation(f"concat_divisions[len<={maxlen}]", setup, run)


def mk_repartition_pandas(L):
    """dd.repartition(<pandas frame>, divisions) (FromPandasDivisions): unique index labels 10, 20, ...; divisions drawn from labels AND values
    between labels; the reported divisions must be truthful and every row inside [divisions[0], divisions[-1]] kept. Enumerated."""
    def setup(e):
        n = 1 + e.choice("len", L)
        nd = 2 + e.choice("ndiv", 3)
        divs = []
        prev = 0
        for i in range(nd):
            step = e.choice(f"d{i}", 4) + (0 if i == 0 else 1)
            prev = prev + step
            divs.append(prev)
        series = e.flag("series")
        return n, divs, series

    def run(e, n, divs, series):
        labels = [10 * (i + 1) for i in range(n)]
        divs = [5 * d + 5 for d in divs]           # 5, 10, 15, ...: every second value is a label, the others lie between labels
        df = pd.DataFrame({"x": range(n)}, index=pd.Index(labels, dtype="int64"))
        obj = df.x if series else df
        what = f"dd.repartition({'Series' if series else 'DataFrame'} with index {labels}, divisions={divs})"
        try:
            out = dd.repartition(obj, divs)
        except ValueError:
            return "refused"
        if not (divs[0] <= labels[0] and labels[-1] <= divs[-1]):
            return "divisions do not span the index (outside the documented use)"
        e.check(tuple(out.divisions) == tuple(divs), f"{what}: reports divisions {out.divisions}")
        want = obj[(obj.index >= divs[0]) & (obj.index <= divs[-1])]
        inside_all = len(want) == n
        got = out.compute(scheduler="sync")
        if inside_all:
            e.check(got.equals(want), f"{what}: rows differ from pandas ({got.index.tolist()} vs {want.index.tolist()})")
        d = out.divisions
        low = out.optimize()
        e.check(low.npartitions == len(d) - 1, f"{what}: {low.npartitions} partitions but divisions {d}")
        for i in range(low.npartitions):
            for x in low.get_partition(i).compute(scheduler="sync").index:
                ok = (d[i] <= x <= d[i + 1]) if i == low.npartitions - 1 else (d[i] <= x < d[i + 1])
                e.check(ok, f"{what}: partition {i} of divisions {d} holds index value {x}")
        for lab in labels:
            if divs[0] <= lab <= divs[-1] and inside_all:
                g = out.loc[lab].compute(scheduler="sync")
                e.check(len(g) == 1, f"{what}: .loc[{lab}] finds {len(g)} rows")
        return got.index.tolist()

    return Obligation(f"repartition_pandas[len<={L}]", setup, run)


def obligations(tier):
    obs = []
    if tier == "quick":
        for n in (1, 2, 3):
            obs.append(mk_loc_slice(n))
            obs.append(mk_partition_of(n))
        obs += [mk_loc_element(3), mk_loc_list(2, 2), mk_loc_list(3, 2), mk_more_numeric(2, 5), mk_from_pandas(4), mk_set_index(4, 2), mk_concat(3), mk_repartition_pandas(3)]
        for na in (2, 3):
            for nb in (2, 3):
                obs.append(C44.mk_div(na, nb, False))
        obs.append(C44.mk_div(3, 3, True))
    else:
        for n in (1, 2, 3, 4, 5):
            obs.append(mk_loc_slice(n))
            obs.append(mk_partition_of(n))
        obs += [mk_loc_element(4), mk_loc_list(2, 3), mk_loc_list(3, 3), mk_loc_list(4, 2), mk_more_numeric(3, 8), mk_from_pandas(6), mk_set_index(5, 3), mk_concat(4), mk_repartition_pandas(5)]
        for na in (2, 3, 4):
            for nb in (2, 3, 4, 5):
                for force in (False, True):
                    obs.append(C44.mk_div(na, nb, force))
    obs += [o for o in C45.obligations(tier) if True][:6 if tier == "quick" else 1000]
    return obs
