"""C27 -- counting, set, search and histogram routines equal NumPy.

Public routines of dask.array.routines decided here: unique (return_index / return_inverse / return_counts), bincount (minlength,
weights, split_every), histogram and histogram2d / histogramdd with fixed bins, digitize, searchsorted, isin, argwhere / nonzero /
flatnonzero / where(cond) / count_nonzero, unravel_index / ravel_multi_index, coarsen and compress / extract.  Most of their work is
NumPy C code per block, so the inputs (chunking, including size-1 and size-0 chunks, and the element values) are enumerated by the
solver and pushed through the public API against plain NumPy on the unchunked array.  The pure integer kernels underneath coarsen
(dask.array.routines._partition, aligned_coarsen_chunks, dask.array.chunk.coarsen's trimming / reshape arithmetic) and compress
(dask.array.utils.validate_axis) are run with genuinely symbolic, unbounded integers.
"""
from __future__ import annotations

import builtins
import itertools
import warnings

import numpy as np

from symx.core import Violation, HarnessError
from symx.patch import py_indices, slice_len
from symx.run import Obligation

import dask
import dask.array as da
import dask.array.routines as R
import dask.array.chunk as CK
import dask.array.utils as AU

PROPERTY = "C27"
LEVEL = "other"
BUDGET = {"quick": 400, "thorough": 2400}      # caps, not targets: quick needs ~55 s, thorough ~6 min of wall on 6 idle cores
EXPLANATION = (
    "Bounded symbolic execution / solver-driven enumeration of dask.array's counting, set, search and histogram routines. "
    "(1) Kernel obligations with symbolic unbounded integers: aligned_coarsen_chunks(chunks, multiple) run on symbolic chunk sizes (NumPy object "
    "arrays keep them symbolic; every comparison forks in the solver): the result adds up to the axis, has no empty chunk and every chunk but the "
    "last is a multiple of the coarsening factor (so the per-block trimming of coarsen only ever trims the global excess); _partition; "
    "dask.array.chunk.coarsen on a recording block of symbolic shape: with trim_excess the slice it takes (read with CPython slice semantics) "
    "keeps exactly the first (d // k) * k elements and the reshape is (d // k, k) per axis reduced over the odd axes, without trim_excess the block "
    "is reshaped iff k divides d; validate_axis for symbolic axis / ndim. "
    "(2) Public-API obligations: for EVERY chunking of the input with at most K chunks per axis (chunks of size 0 and 1 included, enumerated by the "
    "solver) and EVERY assignment of values from a small table to the elements, the dask result is computed with the synchronous scheduler and "
    "compared with the NumPy function on the unchunked array: same shape, same values, same dtype; where NumPy raises (misaligned coarsen, "
    "out-of-range ravel/unravel indices) dask must raise as well. Integer data is used so that equality is exact; unique / isin / digitize / "
    "searchsorted / nonzero / count_nonzero (pure comparisons) are additionally run on float data containing NaN. Every path is replayed natively.")
ASSUMPTIONS = [
    "reference = the NumPy function of the same name on the concatenated array (np.unique, np.bincount, np.histogram, np.histogram2d, np.digitize, "
    "np.searchsorted, np.isin, np.argwhere, np.nonzero, np.flatnonzero, np.count_nonzero, np.unravel_index, np.ravel_multi_index, np.compress, "
    "np.extract); coarsen: reduction(x[: n // k * k].reshape(n // k, k), axis=1) per coarsened axis, written directly in NumPy",
    "searchsorted: `a` is sorted in ascending order (NumPy's precondition), sorter=None (dask documents sorter as unsupported)",
    "bincount / histogram weights are chunked like the data (dask raises ValueError otherwise: documented)",
    "bincount with weights on an EMPTY input: NumPy ignores the weights and returns an intp array; only the values are compared there",
    "compress: len(condition) <= length of the axis (longer conditions: see the compress_long_condition model variable)",
    "unravel_index / ravel_multi_index: dims is a non-empty tuple",
    "histogram: bins is an int with an integer range whose width the number of bins divides, or an increasing integer edge array (exact edges); density=False",
    "NumPy object arrays apply % - + == > < elementwise to their items with Python semantics (used to keep aligned_coarsen_chunks symbolic; every path "
    "is replayed natively on int64 arrays)",
]
STUBS = ["recording block (shape / __getitem__ / reshape, CPython slice semantics transcribed in symx.patch.py_indices) for dask.array.chunk.coarsen",
         "recording reduction function for dask.array.chunk.coarsen", "no patches: dask runs unmodified"]
ENUM = [
    "ALL inputs of the public-API obligations are concretised (they pass through NumPy): array length / shape, number of chunks and every chunk size, "
    "every element value (index into a small value table), bins / minlength / weights / side / order / mode / axis variants are solver-enumerated "
    "shape variables or Python loops inside a path",
    "_partition: the number of multiples (tuple repetition) is concretised; divisor is enumerated (non-linear otherwise)",
    "aligned_coarsen_chunks / chunk.coarsen: the coarsening factor is enumerated (modulo by a symbol is non-linear); chunk sizes / block shapes stay symbolic and unbounded",
]
OUTSIDE = [
    "float binning numerics of histogram / histogram2d (float data, non-integer edges, density=True), float weights beyond halves",
    "arrays with more elements / chunks / dimensions than the bounds of the tier; value tables other than the listed ones",
    "unknown (NaN) chunk sizes on the INPUT; further operations on the unknown-chunked RESULTS of unique / nonzero / compress",
    "dask-collection bins / range (Delayed, Array) of histogram; histogramdd with a rectangular (N, D) sample beyond the witnesses; searchsorted sorter=",
    "unique on structured-array-free backends (cupy), unique(axis=...) (not implemented by dask)",
    "the reduction tree of bincount for more chunks than the bound (reductions: C22); rechunk inside coarsen (C23); ravel / reshape (C24) and "
    "boolean-mask slicing (C20) are exercised only as far as these routines call them",
    "schedulers other than the synchronous one",
]
BOUNDS = {
    "quick": dict(kernels="aligned_coarsen_chunks: 2..3 chunks of symbolic size >= 0 (unbounded), factor in {1,2,3}; chunk.coarsen: 1-d block factor 1..4, 2-d block "
                          "factor 1..3, symbolic extents >= 0 (unbounded); _partition: divisor 1..5, total <= 4*divisor; validate_axis: unbounded",
                  one_d="1-d arrays of length 0..3, EVERY chunking into <= 3 chunks (size-0 chunks anywhere), EVERY value assignment from a table of 2..3 values "
                        "(histogram2d, unravel/ravel, float searchsorted/digitize/isin/nonzero: length 0..2; float unique <= 2 chunks; coarsen length 0..6 factor 1..3; "
                        "compress: every condition of length 0..n+1)",
                  n_d="shapes (2,2) (1,2) (0,2) (2,0) (1,1) (1,2,2), <= 2 chunks per axis (every chunking), 3 fixed value patterns; coarsen (2,4) (4,3) with 4 axis/factor "
                      "maps; compress (2,2) (2,3), axis in {0,1,-1,None}, 2 condition patterns per length",
                  variants="unique: plain and index+inverse+counts (float: also index+counts, inverse); bincount 6 (minlength, weights, split_every) configurations; "
                           "histogram 5 bin specifications x weights; histogram2d 3 bin specifications + histogramdd (N,2); digitize 5 bin arrays x right; "
                           "searchsorted side left/right x v 1-d (with an empty chunk) / 2-d / empty; isin 4 test arrays (chunked, empty chunk, 2-d) x invert; "
                           "unravel/ravel order C/F, modes raise/wrap/clip"),
    "thorough": dict(kernels="aligned_coarsen_chunks: 2..3 chunks factor 1..4, 4 chunks factor 1..3; chunk.coarsen factor 1..6; _partition divisor 1..8, total <= 6*divisor",
                     one_d="length 0..4 with <= 3 chunks and length 0..2 (some 0..3) with <= 4 chunks; nonzero length 0..5; coarsen length 0..9 (<= 3 chunks, factor 1..4) and "
                           "0..7 (<= 4 chunks); all 8 unique flag combinations for length 0..3; searchsorted additionally every chunking of v",
                     n_d="additionally shapes (2,3) (3,2) (1,3) (2,1,2), 4 value patterns, <= 3 chunks per axis for (2,2) / (1,3); every value assignment for (2,2) "
                         "(unique, nonzero) and every condition for compress on (2,2) (2,3); coarsen (3,6) (4,4) and <= 3 chunks per axis"),
}

# ----------------------------------------------------------------------------------------------------------------------------------
# Findings on the unchanged tree (each region is named by a model variable so that a known-finding predicate can refer to it):
#   unique_nan_aux           da.unique(float data containing NaN, return_index / return_inverse / return_counts): _unique_internal matches
#                            values with `ar == v` (never true for NaN): return_index raises ValueError (min of an empty array), return_counts
#                            reports 0 for NaN, return_inverse maps NaN to 0.  Plain da.unique (values only) is right and stays asserted.
#   coarsen_empty_result     da.coarsen whose result is empty along a coarsened axis (axis shorter than the factor with trim_excess, or an
#                            empty axis): ValueError "Empty tuples are not allowed in chunks" (all output chunks are filtered away).
#   compress_long_condition  da.compress with len(condition) > axis length: NumPy accepts it when the surplus entries are False and raises
#                            IndexError otherwise; dask raises for every NumPy condition and returns garbage for a dask condition.
#   zero_chunk_nd            arrays of >= 2 dimensions that are not empty but contain a size-0 chunk: Array.ravel() / reshape (property C24)
#                            declares wrong chunks (reshape_rechunk's "all lower axes completely chunked" test is len(chunks) == dim), which breaks
#                            every routine here that flattens: argwhere, nonzero, flatnonzero, unique, compress(axis=None), extract.
#   coarsen_zero_chunk_other_axis  da.coarsen of an array with a size-0 chunk on an axis that is NOT coarsened: the output chunks drop every
#                            size-0 chunk (`if coarsen_dim(bd, i) > 0`) but the graph keeps one key per input block, so the block indices shift
#                            and the result silently consists of the wrong (empty) blocks.
#   bincount_minlength_too_small  da.bincount(x, minlength=m) declares shape (m,) although NumPy's (and the computed) result has
#                            max(m, x.max() + 1) entries: slicing the lazy result then gives wrong values.  Values stay asserted in the region,
#                            the declared shape does not.
#   hist2d_weights_dtype     histogram2d / histogramdd with integer weights returns the weights' dtype, NumPy returns float64 (values agree).
# ----------------------------------------------------------------------------------------------------------------------------------


def functions():
    return [R.unique, R._unique_internal, R.bincount, R._bincount_agg, R.histogram, R._block_hist, R.histogram2d, R.histogramdd,
            R._block_histogramdd_multiarg, R._block_histogramdd_rect, R.digitize, R.searchsorted, R._searchsorted_block, R.isin, R._isin_kernel,
            R.argwhere, R.nonzero, R.flatnonzero, R.count_nonzero, R.isnonzero, R.where, R.unravel_index, R._unravel_index_kernel,
            R.ravel_multi_index, R.coarsen, R.aligned_coarsen_chunks, R._partition, CK.coarsen, R.compress, R.extract, AU.validate_axis]


# ---------------------------------------------------------------------------------------------------------------------------------- inputs

def chunking(e, tag, n, K):
    """solver-enumerated chunking of an axis of length n (plain int): 1..K chunks with sizes >= 0 adding up to n (every composition once)"""
    k = 1 + e.choice(f"k{tag}", K)
    out, left = [], n
    for i in range(k - 1):
        c = e.choice(f"c{tag}_{i}", left + 1)
        out.append(c)
        left -= c
    out.append(left)
    return tuple(out)


def values(e, tag, n, table):
    return [table[e.choice(f"{tag}{i}", len(table))] for i in range(n)]


def declare_1d(e, N, K, table, tag="x", dtype="i8", nmin=0):
    n = nmin + e.choice(f"n{tag}", N + 1 - nmin)
    ch = chunking(e, tag, n, K)
    x = np.array(values(e, tag, n, table), dtype=dtype)
    return x, (ch,)


PATTERNS = ((0, 1, 2, 0, 1, 2, 0, 1, 2, 0, 1, 2), (2, 2, 0, 1, 0, 0, 2, 1, 1, 0, 2, 0), (1, 0, 0, 2, 2, 1, 0, 1, 2, 2, 0, 1), (1, 1, 1, 1, 1, 1, 1, 1, 1, 1, 1, 1))


def declare_nd(e, shapes, K, table, tag="x", dtype="i8", seeds=None):
    """seeds=None: every assignment of table values to the elements; seeds=k: the first k fixed value patterns"""
    shape = e.pick(f"shape{tag}", shapes)
    chunks = tuple(chunking(e, f"{tag}a{a}", d, K) for a, d in enumerate(shape))
    size = 1
    for d in shape:
        size *= d
    if seeds is None:
        vals = values(e, tag, size, table)
    else:
        pat = PATTERNS[e.choice(f"pattern{tag}", seeds)]
        vals = [table[pat[i % len(pat)] % len(table)] for i in range(size)]
    x = np.array(vals, dtype=dtype).reshape(shape)
    return x, chunks


# regions whose defect was repaired in /repo ("fix:" commits, see known_findings.json): nothing is skipped there any more
REPAIRED = {"unique_nan_aux", "coarsen_empty_result", "coarsen_zero_chunk_other_axis"}
# regions registered as OPEN known findings in known_findings.json: the assertions run and the check reports KNOWN-FINDING there
OPEN = {"bincount_minlength_too_small", "zero_chunk_nd"}


def known_flag(e, name, value):
    """model variable naming the region of a finding: name == 1 iff the path's concrete inputs are inside the region. Returns 1 only for regions
    that are still skipped as a documented precondition (compress_long_condition)."""
    f = e.int(name, 0, 1)
    v = 1 if value else 0
    e.assume(lambda: f == v)
    return 0 if (name in REPAIRED or name in OPEN) else v


def zero_chunk_nd(x, chunks):
    """(the general zero-size-chunk reshape defect was repaired in /repo; what is left is the degenerate case) a non-empty array of >= 2
    dimensions with an axis of length 1 that is cut into several chunks, e.g. chunks (0, 1)"""
    return x.ndim >= 2 and x.size > 0 and builtins.any(len(ch) > 1 and sum(ch) <= 1 for ch in chunks)


def darr(x, chunks):
    x = np.asarray(x)
    d = da.from_array(x, chunks=chunks)
    if d.chunks != tuple(tuple(c) for c in chunks):
        raise HarnessError(f"from_array changed the chunks {chunks} -> {d.chunks}")
    return d


# ---------------------------------------------------------------------------------------------------------------------------------- comparing

def comp(d):
    return d.compute(scheduler="sync")


def _known_shape(d):
    return builtins.all(isinstance(s, (int, np.integer)) for s in d.shape)


class Batch(list):
    """the (dask expression, NumPy outcome) pairs of one path.  All dask expressions are built first and then computed in ONE
    dask.compute(..., scheduler="sync") call (one call per expression when that raises), then compared; the list holds the observation"""

    def __init__(self, e):
        super().__init__()
        self.e = e
        self.items = []

    def add(self, label, dask_fn, numpy_fn, info, dtype=True, declared=True):
        """dtype=False: the dtype is not compared; declared=False: the lazily declared shape is not compared (values and computed shape always are)"""
        wst, want = attempt(numpy_fn)
        gst, got = attempt(dask_fn)           # builds the graph only
        self.items.append(dict(label=label, info=info, dtype=dtype, declared=declared, wst=wst, want=want, gst=gst, got=got))

    @staticmethod
    def _parts(g):
        return list(g) if isinstance(g, (tuple, list)) else [g]

    def finish(self):
        e = self.e
        # (expressions for which NumPy raised are expected to raise: they are computed one by one)
        joint = [it for it in self.items if it["gst"] == "ok" and it["wst"] == "ok"]
        lazies = [p for it in joint for p in self._parts(it["got"]) if isinstance(p, da.Array)]
        try:
            vals = list(dask.compute(*lazies, scheduler="sync")) if lazies else []
        except (Violation, HarnessError):
            raise
        except Exception:
            vals = None
        for it in self.items:
            label, info = it["label"], it["info"]
            if it["gst"] == "ok":
                parts = self._parts(it["got"])
                if vals is not None and it["wst"] == "ok":
                    it["val"] = [np.asarray(vals.pop(0)) if isinstance(p, da.Array) else np.asarray(p) for p in parts]
                else:
                    it["gst"], r = attempt(lambda: [np.asarray(comp(p)) if isinstance(p, da.Array) else np.asarray(p) for p in parts])
                    if it["gst"] == "ok":
                        it["val"] = r
                    else:
                        it["got"] = r
            if it["wst"] == "raised":
                e.check(it["gst"] == "raised", f"{label}: NumPy raises ({it['want']}) but dask returns a value [{info}]")
                self.append(f"{label}=raised")
                continue
            e.check(it["gst"] == "ok", f"{label}: dask raises {it['got']} but NumPy returns a value [{info}]")
            want, parts, val = it["want"], self._parts(it["got"]), it["val"]
            if isinstance(want, (tuple, list)):
                e.check(isinstance(it["got"], (tuple, list)) and len(val) == len(want), f"{label}: dask returns {len(val)} arrays, NumPy {len(want)} [{info}]")
                for i, (p, v, w) in enumerate(zip(parts, val, want)):
                    self._same(f"{label}[{i}]", p, v, w, info, it["dtype"], it["declared"])
            else:
                e.check(not isinstance(it["got"], (tuple, list)), f"{label}: dask returns a sequence, NumPy one array [{info}]")
                self._same(label, parts[0], val[0], want, info, it["dtype"], it["declared"])
        return list(self)

    def _same(self, label, lazy, val, want, info, dtype, declared=True):
        e = self.e
        want = np.asarray(want)
        if declared and isinstance(lazy, da.Array) and _known_shape(lazy):
            e.check(tuple(lazy.shape) == want.shape, f"{label}: dask declares shape {lazy.shape}, NumPy's result has shape {want.shape} [{info}]")
        ok = val.shape == want.shape and np.array_equal(val, want, equal_nan=(want.dtype.kind in "fc" and val.dtype.kind in "fc"))
        e.check(ok, f"{label}: dask gives {val.tolist()!r} (shape {val.shape}), NumPy gives {want.tolist()!r} (shape {want.shape}) [{info}]")
        if dtype:
            e.check(val.dtype == want.dtype, f"{label}: dask result has dtype {val.dtype}, NumPy's has {want.dtype} [{info}]")
        self.append(f"{label}={val.tolist()!r}")


def attempt(fn):
    """("ok", value) or ("raised", exception type name: message); harness exceptions pass through"""
    try:
        return "ok", fn()
    except (Violation, HarnessError):
        raise
    except Exception as ex:
        return "raised", type(ex).__name__ + ": " + str(ex)[:120]


def same(e, out, label, got, want, info, dtype=True):
    """got: an already built dask Array (or ndarray); want: NumPy's result"""
    out.add(label, lambda: got, lambda: want, info, dtype)


def same_or_raises(e, out, label, dask_fn, numpy_fn, info, dtype=True, declared=True):
    """NumPy's outcome decides: a value -> dask must give that value; an exception -> dask must raise too (while building or computing)"""
    out.add(label, dask_fn, numpy_fn, info, dtype, declared)


def _dom(N, nd, seeds):
    if nd is None:
        return f"n<={N}"
    return f"shapes={list(nd)},{'all values' if seeds is None else str(seeds) + ' value patterns'}"


def quiet(fn):
    def run(e, *a):
        with warnings.catch_warnings():
            warnings.simplefilter("ignore")
            return fn(e, *a)
    return run


def ob(name, setup, run):
    return Obligation(name, setup, quiet(run))


def _and(xs):
    r = True
    for x in xs:
        r = r & x
    return r


# ---------------------------------------------------------------------------------------------------------------------------------- (1) kernels

def mk_validate_axis():
    def setup(e):
        e.opaque_str = True          # the AxisError message formats the numbers
        return e.int("axis"), e.int("ndim", 0)

    def run(e, axis, ndim):
        try:
            r = AU.validate_axis(axis, ndim)
        except np.exceptions.AxisError:
            e.check(lambda: (axis < -ndim) | (axis >= ndim), "AxisError for an axis inside [-ndim, ndim)")
            return "AxisError"
        e.check(lambda: (axis >= -ndim) & (axis < ndim), "no AxisError for an axis outside [-ndim, ndim)")
        e.check(lambda: (r >= 0) & (r < ndim) & ((r == axis) | (r == axis + ndim)), "validate_axis does not return the non-negative equivalent of the axis")
        return r

    return Obligation("validate_axis[symbolic]", setup, run)


def mk_partition(DIV, Q):
    def setup(e):
        div = 1 + e.choice("divisor", DIV)
        total = e.int("total", 0)
        e.assume(lambda: total <= Q * div)
        return total, div

    def run(e, total, div):
        mult, rem = R._partition(total, div)
        e.check(isinstance(mult, tuple) and isinstance(rem, tuple) and len(rem) <= 1, "_partition does not return (tuple, tuple of length <= 1)")
        e.check(builtins.all(m is div or m == div for m in mult), "a multiple differs from the divisor")
        s = len(mult) * div
        for r in rem:
            e.check(lambda: (r > 0) & (r < div), "remainder outside (0, divisor)")
            s = s + r
        e.check(lambda: s == total, "multiples and remainder do not add up to the total")
        return (len(mult), list(rem))

    return Obligation(f"_partition[divisor<={DIV},total<={Q}*divisor]", setup, run)


def mk_aligned(n, MULT):
    """aligned_coarsen_chunks on symbolic chunk sizes (unbounded)"""
    def setup(e):
        m = 1 + e.choice("multiple", MULT)
        chunks = tuple(e.int(f"c{i}", 0) for i in range(n))
        return chunks, m

    def run(e, chunks, m):
        tot = 0
        for c in chunks:
            tot = tot + c
        out = R.aligned_coarsen_chunks(chunks, m)
        e.check(isinstance(out, tuple), "aligned_coarsen_chunks does not return a tuple")
        s = 0
        for c in out:
            s = s + c
        e.check(lambda: s == tot, "aligned chunks do not add up to the axis length")
        # an empty axis keeps exactly one empty chunk (chunks may not be an empty tuple); otherwise no chunk is empty
        if len(out) == 1:
            e.check(lambda: (out[0] > 0) | (tot == 0), "aligned chunks contain an empty (or negative) chunk")
        else:
            e.check(lambda: _and(c > 0 for c in out), "aligned chunks contain an empty (or negative) chunk")
        e.check(len(out) >= 1, "aligned chunks are an empty tuple")
        e.check(lambda: _and(c % m == 0 for c in out[:-1]), "an aligned chunk other than the last is not a multiple of the coarsening factor "
                                                             "(chunk.coarsen would trim or refuse data in the middle of the axis)")
        if out:
            last = out[-1]
            e.check(lambda: (last % m == 0) | (last == tot % m), "the last aligned chunk is neither a multiple of the factor nor the global excess")
        # what coarsen() derives from it: the coarsened chunks add up to the coarsened axis
        cs = 0
        for c in out:
            cs = cs + c // m
        e.check(lambda: cs == tot // m, "coarsened chunk sizes do not add up to len(axis) // factor")
        # (which of several equally small chunks receives the excess depends on the tie-breaking of NumPy's unstable argsort, which differs between
        # object and int64 arrays: the observation is the number of chunks only; every assertion above is independent of the tie-breaking)
        return len(out)

    def e2e(model):
        m = 1 + model.get("multiple", 0)
        chunks = tuple(model[f"c{i}"] % 7 for i in range(n))
        x = (np.arange(sum(chunks)) * 7 + 3) % 5
        k = len(x) // m
        if len(x) == 0:
            return
        d = da.from_array(x, chunks=(chunks,))
        got = da.coarsen(np.sum, d, {0: m}, trim_excess=True).compute(scheduler="sync")
        want = x[:k * m].reshape(k, m).sum(axis=1)
        if got.shape != want.shape or not np.array_equal(got, want):
            raise Violation(f"coarsen(sum, chunks={chunks}, factor={m}, trim_excess=True) = {got.tolist()}, NumPy {want.tolist()}")

    return Obligation(f"aligned_coarsen_chunks[symbolic,chunks={n},factor<={MULT}]", setup, run, e2e=e2e, e2e_every=5)


class RecBlock:
    """stand-in for a NumPy block: shape only; basic slicing with CPython's slice semantics; reshape validates per coarsened axis"""

    def __init__(self, shape, log, origin=None):
        self.shape = tuple(shape)
        self.ndim = len(self.shape)
        self.log = log
        self.kept = origin           # per axis (start, length) of the kept region, in the original block's coordinates

    def __getitem__(self, ind):
        if not isinstance(ind, tuple) or len(ind) != self.ndim:
            raise HarnessError(f"unexpected index {ind!r}")
        new, kept = [], []
        for d, s in zip(self.shape, ind):
            start, stop, step = py_indices(s, d)
            if step != 1:
                raise HarnessError("step")
            ln = slice_len(start, stop, step)
            new.append(ln)
            kept.append((start, ln))
        self.log.append("getitem")
        return RecBlock(new, self.log, kept)

    def reshape(self, newshape):
        newshape = tuple(newshape)
        if len(newshape) != 2 * self.ndim:
            raise HarnessError(f"unexpected reshape target {newshape!r}")
        for a in range(self.ndim):
            if newshape[2 * a] * newshape[2 * a + 1] != self.shape[a]:
                raise ValueError("cannot reshape array")      # (NumPy refuses when the total size differs)
        self.log.append("reshape")
        r = RecBlock(newshape, self.log, self.kept)
        r.base = self
        return r


def mk_chunk_coarsen(ndim, DIV):
    def setup(e):
        shape = tuple(e.int(f"d{a}", 0) for a in range(ndim))
        divs = {}
        for a in range(ndim):
            if ndim == 1 or e.flag(f"has{a}"):
                divs[a] = 1 + e.choice(f"k{a}", DIV)
        trim = e.flag("trim_excess")
        return shape, divs, trim

    def run(e, shape, divs, trim):
        log = []
        blk = RecBlock(shape, log, [(0, d) for d in shape])
        seen = {}

        def reduction(x, axis=None, **kw):
            seen["x"], seen["axis"], seen["kw"] = x, axis, kw
            return "reduced"
        axes = dict(divs)
        k = [divs.get(a, 1) for a in range(ndim)]
        try:
            r = CK.coarsen(reduction, blk, axes, trim_excess=trim, marker=1)
        except ValueError:
            e.check(not trim, "chunk.coarsen(trim_excess=True) cannot reshape the trimmed block")
            e.check(lambda: ~_and(d % kk == 0 for d, kk in zip(shape, k)), "chunk.coarsen refuses a block whose extents are multiples of the factors")
            return "ValueError"
        e.check(r == "reduced" and seen.get("kw") == {"marker": 1}, "reduction not called with the keyword arguments")
        if not trim:
            e.check(lambda: _and(d % kk == 0 for d, kk in zip(shape, k)), "chunk.coarsen reshapes a block that is not a multiple of the factor (NumPy would raise)")
        x = seen["x"]
        e.check(seen["axis"] == tuple(range(1, 2 * ndim, 2)), f"reduction over axes {seen['axis']}, expected the odd axes")
        for a in range(ndim):
            start, ln = x.kept[a]
            e.check(lambda: (start == 0) & (ln == (shape[a] // k[a]) * k[a]), "the kept region is not the first (d // k) * k elements of the axis")
            e.check(lambda: (x.shape[2 * a] == shape[a] // k[a]) & (x.shape[2 * a + 1] == k[a]), "block is not reshaped to (d // k, k) along the axis")
        return [x.shape, list(log)]

    return Obligation(f"chunk.coarsen[symbolic,ndim={ndim},factor<={DIV}]", setup, run)


# ---------------------------------------------------------------------------------------------------------------------------------- (2) unique

ALL_COMBOS = tuple(itertools.product((False, True), repeat=3))
QUICK_COMBOS = ((False, False, False), (True, True, True), (True, False, True), (False, True, False))


def _unique_checks(e, out, x, d, combos, info, nan):
    for ri, rv, rc in combos:
        if nan and (ri or rv or rc):
            continue                  # unique_nan_aux (finding): only the plain unique is asserted for data containing NaN
        label = f"unique(index={int(ri)},inverse={int(rv)},counts={int(rc)})"
        same_or_raises(e, out, label, lambda: da.unique(d, return_index=ri, return_inverse=rv, return_counts=rc),
                       lambda: np.unique(x, return_index=ri, return_inverse=rv, return_counts=rc), info)


def mk_unique(N, K, combos, floats=False):
    table = (0.0, 1.5, float("nan")) if floats else (0, 1, 2)

    def setup(e):
        x, ch = declare_1d(e, N, K, table, dtype="f8" if floats else "i8")
        nan = known_flag(e, "unique_nan_aux", floats and bool(np.isnan(x).any()))
        return x, ch, nan

    def run(e, x, ch, nan):
        out = Batch(e)
        _unique_checks(e, out, x, darr(x, ch), combos, f"x={x.tolist()} chunks={ch}", nan)
        return out.finish()

    return ob(f"unique[{'float+nan' if floats else 'int'},n<={N},chunks<={K}]", setup, run)


def mk_unique_nd(shapes, K, combos, seeds=None):
    def setup(e):
        x, ch = declare_nd(e, shapes, K, (0, 1, 2), seeds=seeds)
        z = known_flag(e, "zero_chunk_nd", zero_chunk_nd(x, ch))
        return x, ch, z

    def run(e, x, ch, z):
        if z:
            return "known"            # zero_chunk_nd (finding): ravel() of such an array is broken
        out = Batch(e)
        _unique_checks(e, out, x, darr(x, ch), combos, f"x={x.tolist()} chunks={ch}", 0)
        return out.finish()

    return ob(f"unique_nd[shapes={list(shapes)},chunks<={K},{'all values' if seeds is None else str(seeds) + ' value patterns'}]", setup, run)


# ---------------------------------------------------------------------------------------------------------------------------------- bincount

def mk_bincount(N, K):
    CONFIGS = ((0, None, None), (0, "int", 2), (2, None, 2), (5, "int", None), (1, "half", None), (3, None, 3))

    def setup(e):
        x, ch = declare_1d(e, N, K, (0, 1, 3))
        # region of the declared-shape finding: some minlength of CONFIGS is positive but not above the largest value (here: the value 3 occurs)
        known_flag(e, "bincount_minlength_too_small", len(x) > 0 and int(x.max()) >= 1)
        return x, ch

    def run(e, x, ch):
        out = Batch(e)
        d = darr(x, ch)
        wi = (np.arange(len(x), dtype="i8") * 2 + 1) % 5
        wh = wi * 0.5
        for ml, wk, se in CONFIGS:
            w = None if wk is None else (wi if wk == "int" else wh)
            dw = None if w is None else darr(w, ch)
            info = f"x={x.tolist()} chunks={ch} weights={None if w is None else w.tolist()}"
            # an empty input with weights: NumPy ignores the weights' dtype (documented in ASSUMPTIONS)
            same_or_raises(e, out, f"bincount(minlength={ml},weights={wk},split_every={se})",
                           lambda: da.bincount(d, weights=dw, minlength=ml, split_every=se), lambda: np.bincount(x, weights=w, minlength=ml), info,
                           dtype=not (w is not None and len(x) == 0),
                           declared=True)      # inside the region bincount_minlength_too_small the declared shape is an open known finding
        return out.finish()

    return ob(f"bincount[n<={N},chunks<={K}]", setup, run)


# ---------------------------------------------------------------------------------------------------------------------------------- histogram

HIST_BINS = (
    ("3 bins on (0, 6)", 3, (0, 6)),                  # edges 0 2 4 6: the value 2 sits on an inner edge, 5 inside the last bin
    ("edges [0, 2, 5]", np.array([0, 2, 5]), None),   # 5 on the closed rightmost edge
    ("edges [1, 2, 3, 4]", [1, 2, 3, 4], None),       # 0 and 5 outside
    ("1 bin on (2, 5)", 1, (2, 5)),
    ("edges [2, 2, 5]", np.array([2, 2, 5]), None),   # empty bin of width 0
)


def mk_histogram(N, K, nd=None, seeds=None):
    table = (0, 2, 5)

    def setup(e):
        if nd is None:
            x, ch = declare_1d(e, N, K, table)
        else:
            x, ch = declare_nd(e, nd, K, table, seeds=seeds)
        return x, ch

    def run(e, x, ch):
        out = Batch(e)
        d = darr(x, ch)
        w = ((np.arange(x.size, dtype="i8") * 3 + 1) % 4).reshape(x.shape)
        dw = darr(w, ch)
        for i, (name, bins, rng) in enumerate(HIST_BINS):
            for wt in ((None, w) if i % 2 == 0 else (w, None))[: 2 if i < 2 else 1]:
                info = f"x={x.tolist()} chunks={ch} weights={None if wt is None else wt.tolist()}"
                want, wedges = np.histogram(x, bins=bins, range=rng, weights=wt)
                got, gedges = da.histogram(d, bins=bins, range=rng, weights=None if wt is None else dw)
                same(e, out, f"histogram({name},weights={'int' if wt is not None else None})", got, want, info)
                same(e, out, f"histogram edges({name})", gedges, wedges, info)
        return out.finish()

    return ob(f"histogram[{_dom(N, nd, seeds)},chunks<={K}]", setup, run)


H2D_BINS = (
    ("2 x 3 bins on (0,4) x (0,3)", (2, 3), ((0, 4), (0, 3))),
    ("edges [0,1,3] x [0,2,3]", [np.array([0, 1, 3]), np.array([0, 2, 3])], None),
    ("3 bins on (0,3) x (0,3)", 3, ((0, 3), (0, 3))),
)


def mk_histogram2d(N, K):
    def setup(e):
        n = e.choice("n", N + 1)
        ch = chunking(e, "x", n, K)
        x = np.array(values(e, "x", n, (0, 1, 3)), dtype="i8")
        y = np.array(values(e, "y", n, (0, 2)), dtype="i8")
        known_flag(e, "hist2d_weights_dtype", True)       # every path has one weighted configuration: its dtype is not asserted (finding), its values are
        return x, y, (ch,)

    def run(e, x, y, ch):
        out = Batch(e)
        dx, dy = darr(x, ch), darr(y, ch)
        w = (np.arange(len(x), dtype="i8") * 3 + 1) % 4
        dw = darr(w, ch)
        for i, (name, bins, rng) in enumerate(H2D_BINS):
            wt = w if i == 1 else None
            info = f"x={x.tolist()} y={y.tolist()} chunks={ch} weights={None if wt is None else wt.tolist()}"
            want = np.histogram2d(x, y, bins=bins, range=rng, weights=wt)
            got = da.histogram2d(dx, dy, bins=bins, range=rng, weights=None if wt is None else dw)
            e.check(len(got) == 3, "histogram2d does not return (H, xedges, yedges)")
            same(e, out, f"histogram2d({name},weights={'int' if wt is not None else None})", got[0], want[0], info, dtype=wt is None)
            same(e, out, f"histogram2d xedges({name})", got[1], want[1], info)
            same(e, out, f"histogram2d yedges({name})", got[2], want[2], info)
        # the (N, 2) sample form of histogramdd, chunked along the rows only
        s = np.stack([x, y], axis=1)
        ds = darr(s, (ch[0], (2,)))
        name, bins, rng = H2D_BINS[1]
        want = np.histogramdd(s, bins=bins)
        got = da.histogramdd(ds, bins=bins)
        same(e, out, "histogramdd((N, 2) sample)", got[0], want[0], f"sample={s.tolist()} chunks={ds.chunks}")
        return out.finish()

    return ob(f"histogram2d[n<={N},chunks<={K}]", setup, run)


# ---------------------------------------------------------------------------------------------------------------------------------- digitize

DIGI_BINS = ((1, 3), (3, 1), (0, 1, 1, 3), (2,), ())


def mk_digitize(N, K, nd=None, floats=False, seeds=None):
    table = (0.0, 1.0, 2.5, float("nan")) if floats else (0, 1, 3)

    def setup(e):
        dt = "f8" if floats else "i8"
        if nd is None:
            return declare_1d(e, N, K, table, dtype=dt)
        return declare_nd(e, nd, K, table, dtype=dt, seeds=seeds)

    def run(e, x, ch):
        out = Batch(e)
        d = darr(x, ch)
        for bins in DIGI_BINS:
            b = np.array(bins, dtype=x.dtype)
            for right in (False, True):
                same_or_raises(e, out, f"digitize(bins={list(bins)},right={right})", lambda: da.digitize(d, b, right=right),
                               lambda: np.digitize(x, b, right=right), f"x={x.tolist()} chunks={ch}")
        return out.finish()

    return ob(f"digitize[{'float+nan,' if floats else ''}{_dom(N, nd, seeds)},chunks<={K}]", setup, run)


# ---------------------------------------------------------------------------------------------------------------------------------- searchsorted

def mk_searchsorted(N, K, floats=False, vchunks=False, steps=(0, 1, 2)):
    """a: every non-decreasing sequence starting at 0 / 1 (/ 2) with the given steps (duplicates inside and across chunks), every chunking;
    v: every integer from below the smallest to above the largest possible element"""
    def setup(e):
        n = e.choice("n", N + 1)
        ch = chunking(e, "a", n, K)
        steps_ = values(e, "s", n, steps)
        a = np.cumsum(np.array(steps_, dtype="i8")) if n else np.zeros(0, dtype="i8")
        nn = 0
        if floats:       # the largest values become NaN (sorted order keeps NaN last)
            nn = e.choice("nnan", n + 1)
        vk = chunking(e, "v", 2 * N + 3, 3) if vchunks else None
        return a, (ch,), nn, vk

    def run(e, a, ch, nn, vk):
        out = Batch(e)
        if floats:
            a = a * 0.5
            if nn:
                a[len(a) - nn:] = np.nan
        d = darr(a, ch)
        v1 = np.arange(-1, 2 * N + 2, dtype="i8")         # every value from below the smallest to above the largest possible element
        if floats:
            v1 = v1 * 0.5
            v1[-1] = np.nan
        v1c = (vk,) if vk is not None else ((2, 0, len(v1) - 3, 1),)
        v2 = np.array([[0, 2], [3, 1]], dtype=a.dtype)
        vs = [("1-d", v1, v1c), ("2-d", v2, ((1, 1), (2,))), ("empty", np.zeros(0, dtype=a.dtype), ((0,),))]
        for name, v, vc in vs:
            dv = darr(v, vc)
            for side in {"1-d": ("left", "right"), "2-d": ("left",), "empty": ("right",)}[name]:
                same(e, out, f"searchsorted(v {name},side={side})", da.searchsorted(d, dv, side=side), np.searchsorted(a, v, side=side),
                     f"a={a.tolist()} chunks={ch} v={v.tolist()} vchunks={vc}")
        return out.finish()

    return ob(f"searchsorted[{'float+nan,' if floats else ''}n<={N},chunks<={K},steps={list(steps)}{',v-chunkings' if vchunks else ''}]", setup, run)


# ---------------------------------------------------------------------------------------------------------------------------------- isin

def mk_isin(N, K, nd=None, floats=False, seeds=None):
    table = (0.0, 1.5, float("nan")) if floats else (0, 1, 2)
    dt = "f8" if floats else "i8"
    TESTS = (
        ("empty", np.zeros(0, dtype=dt), ((0,),)),
        ("[1]", np.array([1], dtype=dt), ((1, 0),)),
        ("[2,0,2]", np.array([2, 0, 2], dtype=dt), ((1, 0, 2),)),
        ("2-d", np.array([[0, 5], [2, 5]], dtype=dt), ((1, 1), (2,))),
    ) + ((("nan", np.array([np.nan, 1.5]), ((1, 1),)),) if floats else ())

    def setup(e):
        if nd is None:
            return declare_1d(e, N, K, table, dtype=dt)
        return declare_nd(e, nd, K, table, dtype=dt, seeds=seeds)

    def run(e, x, ch):
        out = Batch(e)
        d = darr(x, ch)
        for name, t, tc in TESTS:
            dt_ = darr(t, tc)
            for inv in (False, True):
                same(e, out, f"isin(test {name},invert={inv})", da.isin(d, dt_, invert=inv), np.isin(x, t, invert=inv), f"x={x.tolist()} chunks={ch} test={t.tolist()} tchunks={tc}")
        uniq = len(set(x.ravel().tolist())) == x.size and not floats
        if uniq:
            t = np.array([2, 0], dtype=dt)
            same(e, out, "isin(assume_unique)", da.isin(d, darr(t, ((1, 1),)), assume_unique=True), np.isin(x, t, assume_unique=True), f"x={x.tolist()} chunks={ch}")
        # a NumPy array / list as test_elements
        same(e, out, "isin(list)", da.isin(d, [1, 2]), np.isin(x, [1, 2]), f"x={x.tolist()} chunks={ch}")
        return out.finish()

    return ob(f"isin[{'float+nan,' if floats else ''}{_dom(N, nd, seeds)},chunks<={K}]", setup, run)


# ---------------------------------------------------------------------------------------------------------------------------------- nonzero

def mk_nonzero(N, K, nd=None, floats=False, seeds=None):
    table = (0.0, float("nan"), -0.0) if floats else (0, 3)
    dt = "f8" if floats else "i8"

    def setup(e):
        if nd is None:
            x, ch = declare_1d(e, N, K, table, dtype=dt)
        else:
            x, ch = declare_nd(e, nd, K, table, dtype=dt, seeds=seeds)
        z = known_flag(e, "zero_chunk_nd", zero_chunk_nd(x, ch))
        return x, ch, z

    def run(e, x, ch, z):
        out = Batch(e)
        d = darr(x, ch)
        info = f"x={x.tolist()} chunks={ch}"
        for ax in (None,) + tuple(range(-1, x.ndim)) + (((0, 1),) if x.ndim >= 2 else ()):
            same(e, out, f"count_nonzero(axis={ax})", da.count_nonzero(d, axis=ax), np.count_nonzero(x, axis=ax), info)
        if z:
            out.append("flattening routines: known")          # zero_chunk_nd (finding)
            return out.finish()
        same(e, out, "argwhere", da.argwhere(d), np.argwhere(x), info)
        same(e, out, "flatnonzero", da.flatnonzero(d), np.flatnonzero(x), info)
        same_or_raises(e, out, "nonzero", lambda: da.nonzero(d), lambda: np.nonzero(x), info)
        same_or_raises(e, out, "where(cond)", lambda: da.where(d), lambda: np.where(x), info)
        same_or_raises(e, out, "Array.nonzero", lambda: d.nonzero(), lambda: x.nonzero(), info)
        return out.finish()

    return ob(f"nonzero[{'float+nan,' if floats else ''}{_dom(N, nd, seeds)},chunks<={K}]", setup, run)


# ---------------------------------------------------------------------------------------------------------------------------------- ravel / unravel

def mk_unravel(N, K, dimss):
    def setup(e):
        dims = e.pick("dims", dimss)
        tot = 1
        for d in dims:
            tot *= d
        x, ch = declare_1d(e, N, K, tuple(range(tot)))
        return dims, x, ch

    def run(e, dims, x, ch):
        out = Batch(e)
        d = darr(x, ch)
        nd = len(dims)
        info = f"indices={x.tolist()} chunks={ch} dims={dims}"
        for order in ("C", "F"):
            same_or_raises(e, out, f"unravel_index(order={order})", lambda: da.unravel_index(d, dims, order=order), lambda: np.unravel_index(x, dims, order=order), info)
            mi = np.stack(np.unravel_index(x, dims, order=order)).astype("i8").reshape(nd, len(x))
            want = lambda: np.ravel_multi_index(mi, dims, order=order)
            rows = ((nd,) if order == "C" else (1,) * nd)
            same_or_raises(e, out, f"ravel_multi_index(stacked,row chunks {rows},order={order})",
                           lambda: da.ravel_multi_index(darr(mi, (rows, ch[0])), dims, order=order), want, info)
            if order == "F":
                same_or_raises(e, out, f"ravel_multi_index(tuple,order={order})",
                               lambda: da.ravel_multi_index(tuple(darr(r, ch) for r in mi), dims, order=order), want, info)
        # out-of-range flat indices (x + 1 contains prod(dims) when x contains the last index): NumPy raises ValueError
        same_or_raises(e, out, "unravel_index(indices + 1)", lambda: da.unravel_index(d + 1, dims), lambda: np.unravel_index(x + 1, dims), info)
        # out-of-range coordinates -1 .. 2 * d - 1 under the three modes
        mo = mi * 2 - 1
        for mode in ("raise", "wrap", "clip"):
            same_or_raises(e, out, f"ravel_multi_index(mode={mode})", lambda: da.ravel_multi_index(darr(mo, ((nd,), ch[0])), dims, mode=mode, order="F"),
                           lambda: np.ravel_multi_index(mo, dims, mode=mode, order="F"), info + f" multi_index={mo.tolist()}")
        return out.finish()

    return ob(f"unravel_ravel[n<={N},chunks<={K},dims={list(dimss)}]", setup, run)


# ---------------------------------------------------------------------------------------------------------------------------------- coarsen

def _np_coarsen(red, x, axes):
    """reference: per coarsened axis keep the first (n // k) * k entries, split the axis into (n // k, k), reduce the k-axis"""
    for a, k in sorted(axes.items()):
        n = x.shape[a]
        q = n // k
        x = x[(slice(None),) * a + (slice(0, q * k),)]
        x = red(x.reshape(x.shape[:a] + (q, k) + x.shape[a + 1:]), axis=a + 1)
    return x


REDS = (("sum", np.sum, da.sum), ("max", np.max, np.max))


def mk_coarsen(N, K, DIV):
    def setup(e):
        n = e.choice("n", N + 1)
        ch = chunking(e, "x", n, K)
        k = 1 + e.choice("factor", DIV)
        trim = e.flag("trim_excess")
        empty = known_flag(e, "coarsen_empty_result", n // k == 0 and (trim or n % k == 0))
        return n, (ch,), k, trim, empty

    def run(e, n, ch, k, trim, empty):
        out = Batch(e)
        x = (np.arange(n, dtype="i8") * 7 + 3) % 5
        d = darr(x, ch)
        info = f"n={n} chunks={ch} factor={k} trim_excess={trim}"
        for name, nred, dred in REDS:
            if n % k and not trim:
                st, r = attempt(lambda: comp(da.coarsen(dred, d, {0: k}, trim_excess=False)))
                e.check(st == "raised" and r.startswith("ValueError"), f"coarsen({name}) of a misaligned axis without trim_excess did not raise ValueError: {r!r} [{info}]")
                out.append("ValueError")
                continue
            if empty:
                out.append("known")       # coarsen_empty_result (finding)
                continue
            r = da.coarsen(dred, d, {0: k}, trim_excess=trim)
            want = _np_coarsen(nred, x, {0: k})
            e.check(tuple(sum(c) for c in r.chunks) == want.shape, f"coarsen({name}): declared chunks {r.chunks} do not add up to the coarsened shape {want.shape} [{info}]")
            same(e, out, f"coarsen({name})", r, want, info)
        return out.finish()

    return ob(f"coarsen[n<={N},chunks<={K},factor<={DIV}]", setup, run)


def mk_coarsen_nd(shapes, K):
    AXES = ({0: 2, 1: 2}, {1: 3}, {0: 3, 1: 1}, {0: 2})

    def setup(e):
        shape = e.pick("shape", shapes)
        ch = tuple(chunking(e, f"a{a}", d, K) for a, d in enumerate(shape))
        axes = e.pick("axes", AXES)
        trim = e.flag("trim_excess")
        aligned = builtins.all(shape[a] % k == 0 for a, k in axes.items())
        empty = known_flag(e, "coarsen_empty_result", (trim or aligned) and builtins.any(shape[a] // k == 0 for a, k in axes.items()))
        zc = known_flag(e, "coarsen_zero_chunk_other_axis", builtins.any(c == 0 for a in range(len(shape)) if a not in axes for c in ch[a]))
        return shape, ch, axes, trim, empty or zc

    def run(e, shape, ch, axes, trim, empty):
        out = Batch(e)
        x = ((np.arange(int(np.prod(shape)), dtype="i8") * 7 + 3) % 5).reshape(shape)
        d = darr(x, ch)
        info = f"shape={shape} chunks={ch} axes={axes} trim_excess={trim}"
        aligned = builtins.all(shape[a] % k == 0 for a, k in axes.items())
        if not aligned and not trim:
            st, r = attempt(lambda: comp(da.coarsen(np.sum, d, dict(axes), trim_excess=False)))
            e.check(st == "raised" and r.startswith("ValueError"), f"coarsen of a misaligned array without trim_excess did not raise ValueError: {r!r} [{info}]")
            return "ValueError"
        if empty:
            return "known"                # coarsen_empty_result / coarsen_zero_chunk_other_axis (findings)
        for name, nred, dred in REDS:
            r = da.coarsen(dred, d, dict(axes), trim_excess=trim)
            want = _np_coarsen(nred, x, axes)
            e.check(tuple(sum(c) for c in r.chunks) == want.shape, f"coarsen({name}): declared chunks {r.chunks} do not add up to the coarsened shape {want.shape} [{info}]")
            same(e, out, f"coarsen({name})", r, want, info)
        return out.finish()

    return ob(f"coarsen_nd[shapes={list(shapes)},chunks<={K}]", setup, run)


# ---------------------------------------------------------------------------------------------------------------------------------- compress

def _cond_forms(cond):
    m = len(cond)
    forms = [("numpy", lambda: cond), ("list", lambda: cond.tolist()), ("dask 1 chunk", lambda: darr(cond, ((m,),)))]
    if m >= 2:      # (an axis of length <= 1 cut into several chunks: the degenerate-axis finding of property C19, not repeated here)
        forms.append(("dask chunks", lambda: darr(cond, ((m // 2, 0, m - m // 2),))))
    return forms


def mk_compress(N, K, extra=1):
    def setup(e):
        n = e.choice("n", N + 1)
        ch = chunking(e, "x", n, K)
        m = e.choice("m", n + 1 + extra)
        cond = np.array(values(e, "b", m, (False, True)), dtype=bool)
        long_ = known_flag(e, "compress_long_condition", m > n)
        return n, (ch,), cond, long_

    def run(e, n, ch, cond, long_):
        if long_:
            return "known"                # compress_long_condition (finding)
        out = Batch(e)
        x = np.arange(n, dtype="i8") * 3 + 1
        d = darr(x, ch)
        for name, mk in _cond_forms(cond):
            same_or_raises(e, out, f"compress(condition {name})", lambda: da.compress(mk(), d), lambda: np.compress(cond, x), f"x={x.tolist()} chunks={ch} condition={cond.tolist()}")
        if len(cond) == n:
            same_or_raises(e, out, "extract", lambda: da.extract(darr(cond, ch), d), lambda: np.extract(cond, x), f"x={x.tolist()} chunks={ch} condition={cond.tolist()}")
            same_or_raises(e, out, "Array.compress", lambda: d.compress(cond) if hasattr(d, "compress") else da.compress(cond, d), lambda: x.compress(cond), f"x={x.tolist()} chunks={ch}")
        return out.finish()

    return ob(f"compress[n<={N},chunks<={K}]", setup, run)


def mk_compress_nd(shapes, K, seeds=None):
    def setup(e):
        shape = e.pick("shape", shapes)
        ch = tuple(chunking(e, f"a{a}", d, K) for a, d in enumerate(shape))
        axis = e.pick("axis", (0, 1, -1, None))
        size = int(np.prod(shape))
        alen = size if axis is None else shape[axis]
        m = e.choice("m", alen + 1)
        if seeds is None:
            cond = np.array(values(e, "b", m, (False, True)), dtype=bool)
        else:
            pat = PATTERNS[e.choice("patternb", seeds)]
            cond = np.array([pat[i] % 2 == 1 for i in range(m)], dtype=bool)
        x = (np.arange(size, dtype="i8") * 3 + 1).reshape(shape)
        z = known_flag(e, "zero_chunk_nd", axis is None and zero_chunk_nd(x, ch))
        return x, ch, axis, cond, z

    def run(e, x, ch, axis, cond, z):
        if z:
            return "known"                # zero_chunk_nd (finding): axis=None flattens
        out = Batch(e)
        d = darr(x, ch)
        for name, mk in _cond_forms(cond):
            same_or_raises(e, out, f"compress(axis={axis},condition {name})", lambda: da.compress(mk(), d, axis=axis), lambda: np.compress(cond, x, axis=axis),
                           f"x={x.tolist()} chunks={ch} condition={cond.tolist()}")
        return out.finish()

    return ob(f"compress_nd[shapes={list(shapes)},chunks<={K},{'all conditions' if seeds is None else str(seeds) + ' condition patterns'}]", setup, run)


# ---------------------------------------------------------------------------------------------------------------------------------- obligations

def obligations(tier):
    q = tier == "quick"
    obs = [mk_validate_axis(), mk_partition(5 if q else 8, 4 if q else 6)]
    if q:
        obs += [mk_aligned(2, 3), mk_aligned(3, 3), mk_chunk_coarsen(1, 4), mk_chunk_coarsen(2, 3)]
        obs += [mk_unique(3, 3, QUICK_COMBOS[:2]), mk_unique(3, 2, QUICK_COMBOS, floats=True), mk_unique_nd([(2, 2), (1, 2), (0, 2)], 2, QUICK_COMBOS[:2], seeds=3)]
        obs += [mk_bincount(3, 3)]
        obs += [mk_histogram(3, 3), mk_histogram(0, 2, nd=[(2, 2), (1, 2)], seeds=3), mk_histogram2d(2, 3)]
        obs += [mk_digitize(3, 3), mk_digitize(0, 2, nd=[(2, 2)], seeds=3), mk_digitize(2, 3, floats=True)]
        obs += [mk_searchsorted(3, 3, steps=(0, 1)), mk_searchsorted(2, 2, steps=(0, 1, 2)), mk_searchsorted(2, 3, floats=True, steps=(0, 1))]
        obs += [mk_isin(3, 3), mk_isin(0, 2, nd=[(2, 2), (2, 0)], seeds=3), mk_isin(2, 3, floats=True)]
        obs += [mk_nonzero(3, 3), mk_nonzero(0, 2, nd=[(2, 2), (1, 2, 2), (2, 0), (1, 1)], seeds=3), mk_nonzero(2, 3, floats=True)]
        obs += [mk_unravel(2, 3, [(2, 2), (2, 1, 2)])]
        obs += [mk_coarsen(6, 3, 3), mk_coarsen_nd([(2, 4), (4, 3)], 2)]
        obs += [mk_compress(3, 3), mk_compress_nd([(2, 2), (2, 3)], 2, seeds=2)]
    else:
        obs += [mk_aligned(2, 4), mk_aligned(3, 4), mk_aligned(4, 3), mk_chunk_coarsen(1, 6), mk_chunk_coarsen(2, 6)]
        obs += [mk_unique(4, 3, QUICK_COMBOS[:2]), mk_unique(3, 3, ALL_COMBOS), mk_unique(2, 4, ALL_COMBOS), mk_unique(3, 3, QUICK_COMBOS, floats=True),
                mk_unique_nd([(2, 2), (1, 2), (0, 2), (2, 3), (3, 2)], 2, QUICK_COMBOS, seeds=4), mk_unique_nd([(2, 2)], 2, QUICK_COMBOS)]
        obs += [mk_bincount(4, 3), mk_bincount(2, 4)]
        obs += [mk_histogram(4, 3), mk_histogram(2, 4), mk_histogram(0, 2, nd=[(2, 2), (1, 2), (2, 3), (0, 2)], seeds=4), mk_histogram(0, 3, nd=[(2, 2)], seeds=4),
                mk_histogram2d(3, 2), mk_histogram2d(2, 4)]
        obs += [mk_digitize(4, 3), mk_digitize(3, 4), mk_digitize(0, 3, nd=[(2, 2), (2, 3)], seeds=4), mk_digitize(3, 3, floats=True)]
        obs += [mk_searchsorted(4, 3, steps=(0, 1)), mk_searchsorted(3, 3), mk_searchsorted(2, 4), mk_searchsorted(1, 2, vchunks=True),
                mk_searchsorted(3, 3, floats=True, steps=(0, 1))]
        obs += [mk_isin(4, 3), mk_isin(2, 4), mk_isin(0, 2, nd=[(2, 2), (2, 0), (2, 3)], seeds=4), mk_isin(0, 3, nd=[(2, 2)], seeds=4), mk_isin(3, 3, floats=True)]
        obs += [mk_nonzero(5, 3), mk_nonzero(4, 4), mk_nonzero(0, 2, nd=[(2, 2), (1, 2, 2), (2, 0), (1, 1), (2, 3), (3, 2), (2, 1, 2)], seeds=4),
                mk_nonzero(0, 3, nd=[(2, 2), (1, 3)], seeds=4), mk_nonzero(0, 2, nd=[(2, 2), (1, 3)]), mk_nonzero(3, 3, floats=True)]
        obs += [mk_unravel(3, 2, [(2, 2), (4,), (2, 1, 2)]), mk_unravel(2, 3, [(2, 3), (3, 2), (6,)])]
        obs += [mk_coarsen(9, 3, 4), mk_coarsen(7, 4, 3), mk_coarsen_nd([(2, 4), (4, 3), (3, 6), (4, 4)], 2), mk_coarsen_nd([(2, 4), (4, 3)], 3)]
        obs += [mk_compress(4, 3), mk_compress(3, 4), mk_compress_nd([(2, 2), (2, 3), (3, 2)], 2, seeds=3), mk_compress_nd([(2, 2), (2, 3)], 2)]
    return obs
