"""CrossHair contracts for C50 (free-form text and delimiter strings)."""
from dask.bag.text import decode, file_to_blocks


def ref_split(text: str, d: str):
    """the file split after each delimiter (left-to-right, non-overlapping), no empty trailing element"""
    out = []
    i = 0
    while True:
        j = text.find(d, i)
        if j < 0:
            break
        out.append(text[i:j + len(d)])
        i = j + len(d)
    if i < len(text):
        out.append(text[i:])
    return out


class FakeBlock:
    def __init__(self, s):
        self.s = s

    def decode(self, encoding, errors):
        return self.s


class FakeLazyFile:
    path = "p"

    def __init__(self, s):
        self.s = s

    def __enter__(self):
        return self

    def __exit__(self, *a):
        return False

    def read(self):
        return self.s


def _decode_ok(text: str, delim: str) -> bool:
    got = decode(FakeBlock(text), "utf-8", "strict", delim)
    return got == ref_split(text, delim) and "".join(got) == text


def _ftb_ok(text: str, delim: str, include_path: bool) -> bool:
    got = list(file_to_blocks(include_path, FakeLazyFile(text), delim))
    want = ref_split(text, delim)
    if include_path:
        want = [(x, "p") for x in want]
    return got == want


def c_decode(text: str, delim: str) -> bool:
    """
    pre: len(text) <= 4 and 1 <= len(delim) <= 2
    pre: delim != chr(10) and delim != chr(13) and delim != chr(13) + chr(10)
    post: _
    """
    return _decode_ok(text, delim)


def t_decode(text: str, delim: str) -> bool:
    """
    pre: len(text) <= 4 and 1 <= len(delim) <= 2
    pre: delim != chr(10) and delim != chr(13) and delim != chr(13) + chr(10)
    post: not _
    """
    return _decode_ok(text, delim)


def c_file_to_blocks(text: str, delim: str, include_path: bool) -> bool:
    """
    pre: len(text) <= 4 and 1 <= len(delim) <= 2
    post: _
    """
    return _ftb_ok(text, delim, include_path)


def t_file_to_blocks(text: str, delim: str, include_path: bool) -> bool:
    """
    pre: len(text) <= 4 and 1 <= len(delim) <= 2
    post: not _
    """
    return _ftb_ok(text, delim, include_path)


def c_decode6(text: str, delim: str) -> bool:
    """
    pre: len(text) <= 6 and 1 <= len(delim) <= 3
    pre: delim != chr(10) and delim != chr(13) and delim != chr(13) + chr(10)
    post: _
    """
    return _decode_ok(text, delim)


def t_decode6(text: str, delim: str) -> bool:
    """
    pre: len(text) <= 6 and 1 <= len(delim) <= 3
    pre: delim != chr(10) and delim != chr(13) and delim != chr(13) + chr(10)
    post: not _
    """
    return _decode_ok(text, delim)


def c_file_to_blocks6(text: str, delim: str, include_path: bool) -> bool:
    """
    pre: len(text) <= 6 and 1 <= len(delim) <= 3
    post: _
    """
    return _ftb_ok(text, delim, include_path)


def t_file_to_blocks6(text: str, delim: str, include_path: bool) -> bool:
    """
    pre: len(text) <= 6 and 1 <= len(delim) <= 3
    post: not _
    """
    return _ftb_ok(text, delim, include_path)
