"""C29 -- storing arrays writes exactly the array into the targets.

Kernels: dask.array.core.slices_from_chunks, dask.layers.ArraySliceDep (the block -> target-slice map used by
store), dask.array.optimization.fuse_slice / normalize_slice (region composition inside load_store_chunk) and
load_store_chunk itself (run on a recording target).
"""
from __future__ import annotations

import itertools
import threading

import numpy as np

from symx.core import SInt, Violation, HarnessError
from symx.patch import py_indices, slice_len
from symx.run import Obligation

import dask
import dask.array as da
import dask.array.core as AC
import dask.array.optimization as AO
import dask.layers as L
import dask.utils as U

PROPERTY = "C29"
LEVEL = "other"
BUDGET = {"quick": 150, "thorough": 1200}
EXPLANATION = (
    "Bounded symbolic execution of the index arithmetic behind da.store. (1) ArraySliceDep / slices_from_chunks with symbolic chunk sizes "
    "(unbounded above, zero allowed) and a symbolic probe position: the block slices tile [0, shape) -- the probe lies in exactly one block's "
    "slice, namely its own block's, slices are contiguous and in product order. (2) load_store_chunk with a symbolic region (start/stop symbolic "
    "or None, step a solver-enumerated constant) inside a target of symbolic length and a symbolic block slice lying inside the region's extent "
    "(store's documented precondition target[region].shape == source.shape): the real function is run on a recording target; the index it "
    "writes to, read with Python slice semantics on the target, has exactly the block's length and its q-th element (q symbolic) is the global "
    "position target[region][block_slice][q]; 1-d and 2-d (tuple) regions. Each path model is replayed natively on a NumPy target, and "
    "e2e through da.store (lock True/False/Lock, compute=False then compute, return_stored) against NumPy assignment.")
ASSUMPTIONS = [
    "Python/NumPy basic-slice semantics of the target's __setitem__ are given by PySlice_AdjustIndices (transcribed in symx.patch.py_indices, "
    "validated natively against NumPy on every path model)",
    "region steps are solver-enumerated constants (step * symbolic offset would be non-linear otherwise)",
]
STUBS = ["recording target object (captures the index passed to __setitem__)", "functools.lru_cache of dask.utils._cumsum cleared per path"]
ENUM = ["number of chunks per axis, ndim, region step, None-ness of region start/stop"]
OUTSIDE = ["to_npy_stack / from_npy_stack beyond the e2e witnesses (file I/O: round trip along every axis on each witness, no solver claim)", "lock contention between real threads", "targets that are Delayed objects",
           "regions with negative slice bounds (fuse_slice raises NotImplementedError: documented limitation); regions with more than one integer"]
BOUNDS = {
    "quick": dict(tiling="ndim<=2, <=3 chunks per axis, chunk sizes >= 0 unbounded", region="1-d and 2-d, step in {None,1,2,3}, start/stop symbolic >= 0 or None, "
                  "target length symbolic in [0, 40], block offset/length symbolic"),
    "thorough": dict(tiling="ndim<=3, <=4 chunks per axis", region="step in {None,1..5}, target length in [0, 200]"),
}


def functions():
    return [AC.slices_from_chunks, L.ArraySliceDep.__init__, L.ArraySliceDep.__getitem__, U.cached_cumsum, AO.fuse_slice, AO.normalize_slice,
            AC.load_store_chunk, AC.load_chunk]


def _clear():
    U._cumsum.cache_clear()


def mk_tiling(nchunks):
    """nchunks: tuple, number of chunks per axis"""
    nd = len(nchunks)

    def setup(e):
        chunks = tuple(tuple(e.int(f"c{a}_{i}", 0) for i in range(n)) for a, n in enumerate(nchunks))
        probe = []
        for a in range(nd):
            p = e.int(f"p{a}", 0)
            tot = 0
            for c in chunks[a]:
                tot = tot + c
            e.assume(lambda: p < tot)
            probe.append(p)
        return chunks, tuple(probe)

    def run(e, chunks, probe):
        _clear()
        sl = AC.slices_from_chunks(chunks)
        dep = L.ArraySliceDep(chunks)
        idxs = list(itertools.product(*[range(n) for n in nchunks]))
        e.check(len(sl) == len(idxs), "wrong number of block slices")
        hits = []
        for k, idx in enumerate(idxs):
            s1 = sl[k]
            s2 = dep[idx]
            e.check(len(s1) == nd and len(s2) == nd, "slice tuple rank")
            inside = True
            for a in range(nd):
                x, y = s1[a], s2[a]
                e.check(lambda: (x.start == y.start) & (x.stop == y.stop), "ArraySliceDep and slices_from_chunks disagree")
                e.check(x.step is None and y.step is None, "unexpected step")
                # contiguity: starts at the sum of the preceding chunks, has the chunk's length
                base = 0
                for c in chunks[a][:idx[a]]:
                    base = base + c
                e.check(lambda: (x.start == base) & (x.stop == base + chunks[a][idx[a]]), "block slice is not [sum(previous chunks), +chunk)")
                if not (x.start <= probe[a] and probe[a] < x.stop):
                    inside = False
            if inside:
                hits.append(idx)
        e.check(len(hits) == 1, f"position covered by {len(hits)} block slices (gap or overlap)")
        _clear()
        return hits

    def e2e(model):
        chunks = tuple(tuple(model[f"c{a}_{i}"] % 5 for i in range(n)) for a, n in enumerate(nchunks))
        _store_e2e(chunks, None, None)
        # and a variant without empty chunks (irregular sizes), which also exercises the npy-stack round trip
        chunks = tuple(tuple(1 + (model[f"c{a}_{i}"] + i + 2 * a) % 4 for i in range(n)) for a, n in enumerate(nchunks))
        _store_e2e(chunks, None, None)

    return Obligation(f"tiling{list(nchunks)}", setup, run, e2e=e2e, e2e_every=7)


class Recorder:
    """target that records the index it is written at"""

    def __init__(self):
        self.index = "unset"

    def __setitem__(self, index, value):
        self.index = index

    def __getitem__(self, index):
        return ("read", index)


class FakeBlock:
    size = 1
    shape = (1,)
    __array_function__ = None
    dtype = np.dtype("i8")
    ndim = 1


def _is_none_choice(e, name):
    return e.flag(name)


def mk_region(nd, step_opts, Tmax):
    """region composition: nd axes; per axis a region slice and a block slice inside it"""

    def setup(e):
        axes = []
        for a in range(nd):
            T = e.int(f"T{a}", 0, Tmax)
            step = e.pick(f"step{a}", step_opts)
            rs = None if e.flag(f"rs_none{a}") else e.int(f"rs{a}", 0)
            re = None if e.flag(f"re_none{a}") else e.int(f"re{a}", 0)
            # extent of target[region] along this axis
            a0, b0, c0 = py_indices(slice(rs, re, step), T)
            ext = slice_len(a0, b0, c0)
            s = e.int(f"s{a}", 0)
            d = e.int(f"d{a}", 1)
            e.assume(lambda: s + d <= ext)
            q = e.int(f"q{a}", 0)
            e.assume(lambda: q < d)
            axes.append((T, slice(rs, re, step), s, d, q))
        return (tuple(axes),)

    def run(e, axes):
        region = tuple(ax[1] for ax in axes)
        index = tuple(slice(ax[2], ax[2] + ax[3], None) for ax in axes)
        rec = Recorder()
        lock = threading.Lock()
        AC.load_store_chunk(FakeBlock(), rec, index, region, lock, False, False)
        e.check(not lock.locked(), "lock not released")
        fused = rec.index
        e.check(isinstance(fused, tuple) and len(fused) == nd, f"index written is {fused!r}")
        out = []
        for a in range(nd):
            T, reg, s, d, q = axes[a]
            f = fused[a]
            e.check(isinstance(f, slice), "fused index is not a slice")
            fa, fb, fc = py_indices(f, T)
            n = slice_len(fa, fb, fc)
            e.check(lambda: n == d, "the fused index selects a different number of elements than the block has")
            ra, rb, rc = py_indices(reg, T)
            want = ra + (s + q) * rc
            got = fa + q * fc
            e.check(lambda: got == want, "element written to the wrong target position")
            out.append((fa, fc, n))
        return out

    def e2e(model):
        T = [model[f"T{a}"] for a in range(nd)]
        reg = []
        idx = []
        for a in range(nd):
            rs = None if model.get(f"rs_none{a}") else model[f"rs{a}"]
            re = None if model.get(f"re_none{a}") else model[f"re{a}"]
            st = step_opts[model.get(f"step{a}", 0)]
            reg.append(slice(rs, re, st))
            idx.append(slice(model[f"s{a}"], model[f"s{a}"] + model[f"d{a}"]))
        tgt = np.full(T, -1)
        ref = tgt.copy()
        blk = np.arange(int(np.prod([model[f"d{a}"] for a in range(nd)]))).reshape([model[f"d{a}"] for a in range(nd)]) + 100
        view = ref[tuple(reg)]
        view[tuple(idx)] = blk
        AC.load_store_chunk(blk, tgt, tuple(idx), tuple(reg), False, False, False)
        if not np.array_equal(tgt, ref):
            raise Violation(f"load_store_chunk wrote to the wrong place: T={T} region={reg} index={idx}")
        # whole-array store into the region: source shape = extent of the region
        ext = tuple(view.shape)
        if all(ext) and int(np.prod(ext)) <= 400:
            chunks = tuple(_split(n, model[f"s{a}"] + 1) for a, n in enumerate(ext))
            _store_e2e(chunks, tuple(reg), T)

    return Obligation(f"region[nd={nd},steps={list(step_opts)},T<={Tmax}]", setup, run, e2e=e2e, e2e_every=11)


def mk_region_int(Tmax):
    """a region that also selects ONE plane of a target with an extra leading or trailing axis by an integer (Python int symbolic; the
    NumPy-integer spelling np.int64(k) in the e2e witness): region (k, slice) / (slice, k) composed with the 1-d block slice"""

    def setup(e):
        T = e.int("T", 1, Tmax)
        P = e.int("P", 1, 3)                   # length of the axis indexed by the integer
        k = e.int("k")
        e.assume(lambda: (k >= -P) & (k < P))
        first = e.flag("int_first")
        rs = e.int("rs", 0)
        re = e.int("re", 0)
        a0, b0, c0 = py_indices(slice(rs, re, None), T)
        ext = slice_len(a0, b0, c0)
        s = e.int("s", 0)
        d = e.int("d", 1)
        e.assume(lambda: s + d <= ext)
        return T, P, k, first, rs, re, s, d

    def run(e, T, P, k, first, rs, re, s, d):
        import operator
        k = operator.index(k)       # a plain int in both modes (enumerated): code that tests isinstance(k, int) must see the same thing as a user's int
        reg = slice(rs, re, None)
        region = (k, reg) if first else (reg, k)
        index = (slice(s, s + d, None),)
        rec = Recorder()
        AC.load_store_chunk(FakeBlock(), rec, index, region, False, False, False)
        fused = rec.index
        e.check(isinstance(fused, tuple) and len(fused) == 2, f"index written is {fused!r}")
        fi, fs = (fused[0], fused[1]) if first else (fused[1], fused[0])
        e.check(not isinstance(fi, slice), "the integer of the region became a slice")
        e.check(lambda: fi == k, "the plane selected by the region's integer changed")
        e.check(isinstance(fs, slice), "fused index is not a slice")
        fa, fb, fc = py_indices(fs, T)
        e.check(lambda: slice_len(fa, fb, fc) == d, "the fused index selects a different number of elements than the block has")
        ra, rb, rc = py_indices(reg, T)
        e.check(lambda: (fa == ra + s) & (fc == 1), "block written to the wrong target position")
        return (fa, fc)

    def e2e(model):
        T, P, k = model["T"], min(model["P"], 4), model["k"]
        k = max(-P, min(P - 1, k))
        first = bool(model.get("int_first"))
        reg = slice(model["rs"], model["re"], None)
        shape = (P, T) if first else (T, P)
        probe = np.zeros(shape)
        for kk in (k, np.int64(k), np.intp(k)):
            region = (kk, reg) if first else (reg, kk)
            n = probe[region].shape[0]
            if n == 0:
                continue
            x = np.arange(n) + 5
            src = da.from_array(x, chunks=_split(n, model["s"] + 1))
            ref = np.full(shape, -1)
            ref[region] = x
            for variant in range(3):
                tgt = np.full(shape, -1)
                if variant == 0:
                    da.store(src, tgt, regions=region, lock=False, scheduler="sync")
                elif variant == 1:
                    r = da.store(src, tgt, regions=region, lock=True, compute=False)
                    dask.compute(r, scheduler="sync")
                else:
                    r = da.store(src, tgt, regions=region, lock=False, return_stored=True, scheduler="sync")
                    if not np.array_equal(r.compute(scheduler="sync"), x):
                        raise Violation(f"return_stored array differs from the source for region {region!r}")
                if not np.array_equal(tgt, ref):
                    raise Violation(f"store with region {region!r} ({type(kk).__name__} plane index) variant {variant} wrote a different array")

    return Obligation(f"region_int[T<={Tmax},plane axis<=3]", setup, run, e2e=e2e, e2e_every=3)


def mk_big_targets():
    """distinct targets larger than 1 MB that hold identical data beforehand (graph construction wraps large arguments differently from small ones):
    every target must receive exactly its own source. No arithmetic: the mode is solver-enumerated."""

    def setup(e):
        return (e.pick("mode", ("one_call", "computed_together", "return_stored")), e.pick("fill", ("zeros", "empty_like_equal")))

    def run(e, mode, fill):
        n = 140_000                                            # 1.12 MB of float64
        x1 = np.arange(n, dtype=float)
        x2 = x1 + 0.5
        s1, s2 = da.from_array(x1, chunks=n // 2), da.from_array(x2, chunks=n // 2)
        t1 = np.zeros(n) if fill == "zeros" else np.full(n, 7.0)
        t2 = t1.copy()
        if mode == "one_call":
            da.store([s1, s2], [t1, t2], lock=False, scheduler="sync")
        elif mode == "computed_together":
            r1 = da.store(s1, t1, lock=False, compute=False)
            r2 = da.store(s2, t2, lock=False, compute=False)
            dask.compute(r1, r2, scheduler="sync")
        else:
            r1, r2 = da.store([s1, s2], [t1, t2], lock=False, return_stored=True, compute=False)
            g1, g2 = dask.compute(r1, r2, scheduler="sync")
            e.check(np.array_equal(g1, x1) and np.array_equal(g2, x2), "return_stored arrays differ from their sources (large targets)")
        e.check(np.array_equal(t1, x1), "first large target does not hold the first source")
        e.check(np.array_equal(t2, x2), "second large target does not hold the second source")
        return mode

    return Obligation("big_equal_targets[2 x 1.1 MB]", setup, run)


def _split(n, k):
    k = max(1, min(k, n))
    base, extra = divmod(n, k)
    return tuple(base + (1 if i < extra else 0) for i in range(k))


def _store_e2e(chunks, region, T):
    shape = tuple(sum(c) for c in chunks)
    if int(np.prod(shape)) > 2000:
        return
    x = np.arange(int(np.prod(shape))).reshape(shape) + 1
    try:
        src = da.from_array(x, chunks=chunks)
    except ValueError:
        return
    if src.chunks != chunks:
        return
    T = shape if T is None else tuple(T)
    ref = np.full(T, -1)
    if region is None:
        ref[...] = x
    else:
        ref[region] = x
    for variant in range(4):
        tgt = np.full(T, -1)
        if variant == 0:
            da.store(src, tgt, regions=region, lock=True, scheduler="sync")
        elif variant == 1:
            da.store(src, tgt, regions=region, lock=False, scheduler="threads")
        elif variant == 2:
            r = da.store(src, tgt, regions=region, lock=threading.Lock(), compute=False)
            if not np.array_equal(tgt, np.full(T, -1)):
                raise Violation("compute=False wrote before compute")
            dask.compute(r, scheduler="sync")
        else:
            r = da.store(src, tgt, regions=region, lock=False, return_stored=True, scheduler="sync")
            got = r.compute(scheduler="sync")
            if got.shape != x.shape or not np.array_equal(got, x):
                raise Violation(f"return_stored array differs from the source: chunks={chunks} region={region}")
            if r.chunks != src.chunks:
                raise Violation("return_stored chunks differ")
        if not np.array_equal(tgt, ref):
            raise Violation(f"store variant {variant} wrote a different array: chunks={chunks} region={region} target shape={T}")
    # to_npy_stack / from_npy_stack round trip along every axis (file I/O: witness only)
    if region is None and all(all(c > 0 for c in cs) for cs in chunks) and x.size:
        import tempfile
        for axis in range(x.ndim):
            with tempfile.TemporaryDirectory() as d:
                da.to_npy_stack(d, src, axis=axis)
                back = da.from_npy_stack(d)
                if back.shape != x.shape or not np.array_equal(back.compute(scheduler="sync"), x):
                    raise Violation(f"to_npy_stack/from_npy_stack(axis={axis}) does not reproduce the array: chunks={chunks}")
                if back.chunks[axis] != chunks[axis]:
                    raise Violation(f"from_npy_stack chunks {back.chunks} differ from {chunks} along the stacking axis {axis}")
    # several sources in one call, into distinct targets that hold equal data beforehand
    t1, t2, t3 = np.full(T, -1), np.full(T, -1), np.full(T, -1)
    src2 = da.from_array(x + 1000, chunks=chunks)
    regs = None if region is None else [region, region, region]
    da.store([src, src, src2], [t1, t2, t3], regions=regs, lock=False, scheduler="sync")
    ref3 = ref.copy()
    if region is None:
        ref3[...] = x + 1000
    else:
        ref3[region] = x + 1000
    for nm, got, want in (("first", t1, ref), ("second", t2, ref), ("third", t3, ref3)):
        if not np.array_equal(got, want):
            raise Violation(f"store of three sources into three equal-content targets: the {nm} target was not written correctly (chunks={chunks} region={region})")


def obligations(tier):
    obs = []
    if tier == "quick":
        for nc in [(1,), (2,), (3,), (1, 2), (2, 2), (3, 2)]:
            obs.append(mk_tiling(nc))
        obs.append(mk_region(1, (None, 1, 2, 3), 40))
        obs.append(mk_region(2, (None, 2), 12))
        obs.append(mk_region_int(20))
        obs.append(mk_big_targets())
    else:
        for nc in [(1,), (2,), (3,), (4,), (1, 2), (2, 2), (3, 2), (3, 3), (4, 2), (2, 2, 2)]:
            obs.append(mk_tiling(nc))
        obs.append(mk_region(1, (None, 1, 2, 3, 4, 5), 200))
        obs.append(mk_region(2, (None, 1, 2, 3), 30))
        obs.append(mk_region_int(200))
        obs.append(mk_big_targets())
    return obs
