"""shared harness for the local-scheduler family (C01 C02 C03 C04 C05 C52).

The real `dask.local.get_async` main loop (with start_state_from_dask,
fire_tasks, finish_task, release_data, execute_task, batch_execute_tasks,
nested_get, local_callbacks/unpack_callbacks and the real `order`) is executed
with

* `num_workers` a symbolic integer (>= 1, optionally unbounded above) -- the
  ceil-division / min / max arithmetic of fire_tasks is partitioned by z3;
* `chunksize` in {-1, 1, 2, 3, 4} (enumerated: it multiplies num_workers, and
  a product of two unknowns would leave linear arithmetic);
* a controlled executor: submitted batches stay pending until the scheduler
  blocks in queue.get(); *which* pending batch completes next is a solver
  choice, so every completion interleaving of the submitted batches is
  covered;
* graphs from a choice grammar (solver-enumerated shape bits): N nodes in
  topological order, node kind in {Task, DataNode, Alias, legacy tuple task,
  Task with a nested List argument, legacy task with a nested list}, edge
  bits, requested-key subset and nesting, failing-task subset.
"""
from __future__ import annotations

import contextlib

from symx.core import Violation, HarnessError, SInt
from symx.patch import patched
from symx.run import Obligation

import dask.local as L
import dask.callbacks as CB
from dask._task_spec import Task, TaskRef, DataNode, Alias, List, GraphNode

ALL_KINDS = ("task", "data", "alias", "legacy", "listarg", "legacylist")
# "none": a Task whose body returns None (side-effect style task); kept out of ALL_KINDS so that the big obligations do not grow
NONE_KINDS = ("task", "none", "data")


def key_of(j):
    return f"k{j}" if j % 2 == 0 else ("t", j)


class Boom(Exception):
    pass


class BaseBoom(BaseException):
    """KeyboardInterrupt-like: not an Exception subclass"""


# StopIteration is special: inside an iterator-driven loop (map, starmap, generators) it silently ends the loop instead of propagating
EXC = (ValueError, Boom, BaseBoom, StopIteration)


class F:
    """task body of node j: logs the call, optionally fails, returns a tuple
    exposing the argument order and values"""

    def __init__(self, j, log, fail_cls=None, ret_none=False):
        self.j, self.log, self.fail_cls, self.ret_none = j, log, fail_cls, ret_none

    def __call__(self, *args):
        self.log.append(("exec", self.j, args))
        if self.fail_cls is not None:
            raise self.fail_cls(f"boom{self.j}", self.j)
        if self.ret_none:
            return None
        return (self.j,) + tuple(args)

    def __repr__(self):
        return f"F{self.j}"


class Fut:
    def __init__(self, fn, args):
        self.fn, self.args = fn, args
        self._res = self._exc = None

    def add_done_callback(self, cb):
        self.cb = cb

    def run(self, pool_semantics=False):
        """returns False when the work item is lost (see Ctl.pool_semantics)"""
        try:
            self._res = self.fn(*self.args)
        except BaseException as ex:   # what a ThreadPoolExecutor work item does
            if isinstance(ex, (Violation, HarnessError)) or type(ex).__module__.startswith("symx"):
                raise
            if pool_semantics and not isinstance(ex, Exception):
                return False
            self._exc = ex
        return True

    def result(self):
        if self._exc is not None:
            raise self._exc
        return self._res


class Ctl:
    """controlled executor + queue"""

    def __init__(self, e, log, tag="", pool_semantics=False):
        self.e, self.log, self.pending, self.npick, self.tag = e, log, [], 0, tag
        # multiprocessing.pool semantics (dask.threaded.get(pool=ThreadPool(..)) / multiprocessing.get): a worker only reports
        # `Exception`s; a BaseException escaping the submitted callable kills the worker and the job never completes
        self.pool_semantics = pool_semantics

    def submit(self, fn, *args):
        f = Fut(fn, args)
        self.pending.append(f)
        self.log.append(("submit", tuple(a[0] for a in args[0])))
        return f

    def Queue(self):
        ctl = self

        class Q:
            def put(self, x):
                pass

            def get(self, *a, **k):
                while True:
                    if not ctl.pending:
                        raise Violation("scheduler hangs: blocks in queue.get() with no batch pending")
                    i = ctl.e.choice(f"pick{ctl.tag}{ctl.npick}", len(ctl.pending))
                    ctl.npick += 1
                    f = ctl.pending.pop(i)
                    if f.run(ctl.pool_semantics):
                        return f
                    ctl.log.append(("lost", None))

        return Q


def gen_graph(e, N, kinds, sym_leaf=True, edge_all=False):
    """spec[j] = dict(kind, deps, leaf)"""
    spec = []
    for j in range(N):
        allowed = [k for k in kinds if not (k == "alias" and j == 0)]
        kind = e.pick(f"kind{j}", allowed)
        s = dict(kind=kind, deps=[], leaf=None)
        if kind == "data":
            s["leaf"] = e.int(f"v{j}", -2, 2) if sym_leaf else 100 + j
        elif kind == "alias":
            s["deps"] = [e.choice(f"a{j}", j)]
        else:
            s["deps"] = [i for i in range(j) if e.flag(f"e{i}_{j}")]
        spec.append(s)
    return spec


def build(spec, log, fails):
    dsk = {}
    for j, s in enumerate(spec):
        k = key_of(j)
        kind = s["kind"]
        f = F(j, log, fails.get(j), ret_none=(kind == "none"))
        deps = [key_of(i) for i in s["deps"]]
        if kind in ("task", "none"):
            dsk[k] = Task(k, f, *[TaskRef(d) for d in deps])
        elif kind == "data":
            dsk[k] = DataNode(k, s["leaf"])
        elif kind == "alias":
            dsk[k] = Alias(k, deps[0])
        elif kind == "legacy":
            dsk[k] = (f,) + tuple(deps)
        elif kind == "listarg":
            dsk[k] = Task(k, f, List(*[TaskRef(d) for d in deps]))
        elif kind == "legacylist":
            dsk[k] = (f, list(deps))
        else:
            raise HarnessError(kind)
    return dsk


def ref_value(spec, j):
    """independent evaluator: the value the graph denotes for node j"""
    s = spec[j]
    kind = s["kind"]
    if kind == "data":
        return s["leaf"]
    if kind == "alias":
        return ref_value(spec, s["deps"][0])
    if kind == "none":
        return None
    vals = [ref_value(spec, i) for i in s["deps"]]
    if kind in ("task", "legacy"):
        return (j,) + tuple(vals)
    return (j, list(vals))


def needed_set(spec, want):
    seen, stack = set(), list(want)
    while stack:
        j = stack.pop()
        if j in seen:
            continue
        seen.add(j)
        stack.extend(spec[j]["deps"])
    return seen


NSHAPES = 5


def gen_request(e, N, allow_empty=True, shapes=(0, 1, 2, 3, 4)):
    """requested node subset (possibly empty) and the nesting of the request:
    0 scalar key (single) / flat list   1 flat list   2 [[k0], rest]  (list first)
    3 [k0, rest]  (key first, then a list: heterogeneous)   4 [rest, k_last]  (list first, then a key)"""
    want = [j for j in range(N) if e.flag(f"w{j}")]
    if not allow_empty:
        e.assume(len(want) > 0)
    shape = e.pick("shape", shapes)
    if not want:
        e.assume(shape in (1, 2, 3))      # [] , [[], []] , [[]]
    return want, shape


def request_keys(want, shape):
    """(keys structure handed to the scheduler, function packing the list of node values the same way)"""
    ks = [key_of(j) for j in want]
    if not ks:
        if shape == 2:
            return [[], []], (lambda v: ((), ()))
        if shape == 3:
            return [[]], (lambda v: ((),))
        return [], (lambda v: ())
    if shape == 0 and len(ks) == 1:
        return ks[0], (lambda v: v[0])
    if shape == 2:
        return [[ks[0]], ks[1:]], (lambda v: ((v[0],), tuple(v[1:])))
    if shape == 3:
        return [ks[0], ks[1:]], (lambda v: (v[0], tuple(v[1:])))
    if shape == 4:
        return [ks[:-1], ks[-1]], (lambda v: (tuple(v[:-1]), v[-1]))
    return ks, (lambda v: tuple(v))


def executed_kinds(kind):
    return kind != "data"


class Monitors:
    """callback tuples that record scheduler-visible events and snapshots"""

    def __init__(self, log, e, snapshot=False):
        self.log, self.e, self.snapshot = log, e, snapshot

    def snap(self, state):
        if not self.snapshot:
            return None
        return dict(cache=set(state["cache"]), finished=set(state["finished"]), running=set(state["running"]),
                    released=set(state["released"]), ready=list(state["ready"]), waiting=set(state["waiting"]))

    def tuple(self, tag, parts="sSpPf"):
        log = self.log

        def start(dsk):
            log.append(("cb_start", tag))

        def start_state(dsk, state):
            log.append(("cb_start_state", tag, self.snap(state)))

        def pretask(key, dsk, state):
            log.append(("cb_pretask", tag, key, self.snap(state)))

        def posttask(key, result, dsk, state, worker_id):
            log.append(("cb_posttask", tag, key, self.snap(state), result))

        def finish(dsk, state, failed):
            log.append(("cb_finish", tag, failed, self.snap(state) if state else None))

        fs = dict(s=start, S=start_state, p=pretask, P=posttask, f=finish)
        return tuple(fs[c] if c in parts else None for c in "sSpPf")


def logging_loads(log):
    def loads(x):
        if isinstance(x, tuple) and len(x) == 2 and isinstance(x[0], GraphNode) and isinstance(x[1], dict):
            log.append(("data", x[0].key, dict(x[1])))
        return x
    return loads


def run_scheduler(e, dsk, keys, nw, cs, log, callbacks=None, pack=None, rerun=None, cache=None, use_loads=True, tag="", pool_semantics=False):
    ctl = Ctl(e, log, tag, pool_semantics)
    kw = {}
    if pack is not None:
        kw["pack_exception"] = pack
    if rerun is not None:
        kw["rerun_exceptions_locally"] = rerun
    if use_loads:
        kw["loads"] = logging_loads(log)
    with patched((L, "Queue", ctl.Queue())):
        return L.get_async(ctl.submit, nw, dsk, keys, cache=cache, chunksize=cs, callbacks=callbacks, **kw)


def sched_functions():
    import dask.order
    return [L.get_async, L.start_state_from_dask, L.finish_task, L.release_data, L.execute_task,
            L.batch_execute_tasks, L.nested_get, CB.local_callbacks, CB.unpack_callbacks, dask.order.order]


CHUNKSIZES = (-1, 1, 2, 3, 4)


def declare_config(e, nw_hi):
    nw = e.int("num_workers", 1, nw_hi)
    cs = e.pick("chunksize", CHUNKSIZES)
    return nw, cs


SCHED_ASSUMPTIONS = [
    "executor and queue are replaced by a controlled pair: a submitted batch runs when the scheduler next blocks in "
    "queue.get() and the solver picks which pending batch completes; this covers every completion order of the "
    "submitted batches (task bodies are pure, and their input data is captured at submit time by the real code)",
    "task bodies are tuple-builders that expose argument order and values; leaf data are symbolic ints",
    "graph shape, node kinds, requested keys, failing subset, chunksize and completion picks are solver-enumerated "
    "choices (bounded exhaustive); num_workers is a genuinely symbolic integer",
    "the multiprocessing scheduler's process boundary (pickling, remote tracebacks) is outside the claim",
]
SCHED_STUBS = ["dask.local.Queue -> controlled queue (pick = solver choice)", "executor.submit -> controlled executor",
               "loads= identity that logs the (task, data) pair handed to each task"]
