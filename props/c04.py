"""C04 -- a failing task surfaces its exception and the scheduler terminates cleanly"""
from __future__ import annotations

import sys

from symx.core import Violation
from symx.run import Obligation
from props import sched as SC

import dask.threaded
import dask.multiprocessing as MP

PROPERTY = "C04"
LEVEL = "other"
BUDGET = {"quick": 200, "thorough": 2400}
CHUNK_PATHS = 150
EXPLANATION = (
    "Fault enumeration carried out by the solver on the real get_async loop: for every bounded graph, every non-empty "
    "subset of failing tasks, every exception class in {ValueError, custom Exception, custom BaseException}, every "
    "exception transport (default re-raise in the worker, dask.threaded.pack_exception, dask.multiprocessing."
    "pack_exception + reraise with identity dumps/loads), rerun_exceptions_locally on/off, symbolic num_workers, "
    "enumerated chunksize and every solver-picked completion order: the call raises an exception whose type is (a "
    "subclass of) the failing task's exception type carrying its message, no (transitive) dependent of an executed "
    "failing task was executed, the scheduler never blocks with nothing pending, and the finish callback ran exactly "
    "once with failed=True. Runs in which no failing task is needed must succeed with the right value.")
ASSUMPTIONS = SC.SCHED_ASSUMPTIONS + ["exceptions are not pickled: dumps/loads are identity (the process boundary is outside the claim)"]
STUBS = SC.SCHED_STUBS
ENUM = ["graph shape bits, node kinds, requested subset, failing subset, exception class, transport, chunksize, completion picks"]
OUTSIDE = ["real process boundary of the multiprocessing scheduler, unpicklable exceptions", "graphs with more than N nodes"]
BOUNDS = {
    "quick": dict(N="<=2 (all transports), 3 (kinds {Task, DataNode}, transports default/threaded, chunksize {-1,2})", failing="every non-empty subset of task nodes", num_workers="symbolic >= 1, unbounded",
                  chunksize=list(SC.CHUNKSIZES), transports=["default", "threaded", "multiprocessing(identity dumps)", "threaded with multiprocessing.pool worker semantics"]),
    "thorough": dict(N="<=3 (kinds {Task, DataNode, Alias, legacy list}), 4 (kinds {Task}), all transports", failing="every non-empty subset",
                     num_workers="symbolic >= 1, unbounded", chunksize=list(SC.CHUNKSIZES)),
}


def functions():
    return SC.sched_functions() + [dask.threaded.pack_exception, MP.pack_exception, MP.remote_exception]


TRANSPORTS = ("default", "threaded", "mp", "pool")


def mk(N, kinds, transports=TRANSPORTS, chunks=SC.CHUNKSIZES, excs=(0, 1, 2, 3)):
    def setup(e):
        spec = SC.gen_graph(e, N, kinds, sym_leaf=False)
        want, shape = SC.gen_request(e, N, allow_empty=False, shapes=(0, 1, 2))
        fails = {}
        for j in range(N):
            if spec[j]["kind"] not in ("data", "alias") and e.flag(f"fail{j}"):
                fails[j] = SC.EXC[e.pick(f"exc{j}", excs)] if len(fails) == 0 else SC.EXC[excs[0]]
        e.assume(len(fails) > 0)
        transport = e.pick("transport", transports)
        rerun = e.flag("rerun") if transport not in ("default", "pool") else False
        nw = e.int("num_workers", 1)
        cs = e.pick("chunksize", chunks)
        return spec, want, shape, fails, transport, rerun, nw, cs

    def run(e, spec, want, shape, fails, transport, rerun, nw, cs):
        log = []
        dsk = SC.build(spec, log, fails)
        keys, pack = SC.request_keys(want, shape)
        mon = SC.Monitors(log, e)
        kw = {}
        packf = None
        if transport in ("threaded", "pool"):
            packf = dask.threaded.pack_exception
        elif transport == "mp":
            packf = MP.pack_exception
        raised = None
        res = None
        ctl_kw = dict(callbacks=[mon.tuple("m", "spPf")], pack=packf, rerun=rerun)
        try:
            if transport == "mp":
                ctl = SC.Ctl(e, log)
                from symx.patch import patched
                import dask.local as L
                with patched((L, "Queue", ctl.Queue())):
                    res = L.get_async(ctl.submit, nw, dsk, keys, chunksize=cs, callbacks=ctl_kw["callbacks"],
                                      pack_exception=MP.pack_exception, raise_exception=MP.reraise,
                                      rerun_exceptions_locally=rerun, loads=SC.logging_loads(log))
            else:
                res = SC.run_scheduler(e, dsk, keys, nw, cs, log, pool_semantics=(transport == "pool"), **ctl_kw)
        except Violation:
            raise
        except BaseException as ex:
            if type(ex).__module__.startswith("symx"):
                raise
            raised = ex
        needed = SC.needed_set(spec, want)
        must_fail = any(j in needed for j in fails)
        fin = [ev for ev in log if ev[0] == "cb_finish"]
        e.check(len(fin) == 1, f"finish callback ran {len(fin)} times")
        if not must_fail:
            e.check(raised is None, f"no needed task fails but the scheduler raised {raised!r}")
            exp = pack([SC.ref_value(spec, j) for j in want])
            e.check(res == exp, "wrong value")
            e.check(fin[0][2] is False, "finish callback got failed=True on success")
            return ("ok",)
        e.check(raised is not None, "a needed task fails but the scheduler returned normally")
        e.check(fin[0][2] is True, "finish callback did not get failed=True")
        executed_fail = [ev[1] for ev in log if ev[0] == "exec" and ev[1] in fails]
        e.check(len(executed_fail) >= 1, "raised although no failing task was executed")
        match = [j for j in executed_fail if isinstance(raised, fails[j]) and f"boom{j}" in str(raised)]
        e.check(len(match) >= 1, f"raised {type(raised).__name__}({raised}) which is not the exception of an executed failing task")
        if transport != "mp":
            e.check(type(raised) is fails[match[0]] and raised.args == (f"boom{match[0]}", match[0]),
                    "exception type/args not preserved")
        # no dependent of an executed failing task was executed
        bad = set(executed_fail)
        for j in range(len(spec)):
            if any(i in bad for i in spec[j]["deps"]):
                bad.add(j)
        handed = {ev[1] for ev in log if ev[0] == "data"}
        for j in bad - set(executed_fail):
            e.check(SC.key_of(j) not in handed, f"{SC.key_of(j)!r} depends on a failed task but was executed")
        return ("raised", type(raised).__name__, match[0])

    def e2e(model):
        # the same failing graph on the real threaded scheduler
        from symx.core import NativeEngine
        ne = NativeEngine(model)
        spec, want, shape, fails, transport, rerun, nw, cs = setup(ne)
        if any(c in (SC.BaseBoom, StopIteration) for c in fails.values()):
            return
        log = []
        dsk = SC.build(spec, log, fails)
        keys, pack = SC.request_keys(want, shape)
        needed = SC.needed_set(spec, want)
        must_fail = any(j in needed for j in fails)
        try:
            dask.threaded.get(dsk, keys, num_workers=min(nw, 4), chunksize=cs)
            ok = True
        except Exception as ex:
            ok = False
            if not any(type(ex) is c for c in fails.values()):
                raise Violation(f"threaded.get raised {ex!r}")
        if ok == must_fail:
            raise Violation(f"threaded.get {'returned' if ok else 'raised'} but must_fail={must_fail}")

    return Obligation(f"fail[N={N},kinds={'+'.join(kinds)},tr={'+'.join(transports)}]", setup, run, e2e=e2e, e2e_every=50)


class ParseErrorA(ValueError):
    pass


class ParseErrorB(LookupError):
    pass


ParseErrorA.__name__ = ParseErrorB.__name__ = "ParseError"      # two libraries' exception classes with the same name
ParseErrorA.__qualname__ = ParseErrorB.__qualname__ = "ParseError"


class Picky(Exception):
    """cannot be multiply-inherited with RemoteException's constructor signature"""
    def __init__(self, a, b):
        super().__init__(a, b)


REMOTE = (ValueError, ParseErrorA, ParseErrorB, KeyError, SC.Boom)


def mk_remote(L):
    """sequences of failures crossing the multiprocessing transport in one parent process: each re-raised exception is an
    instance of the class that was raised and carries its message (pack_exception -> reraise / remote_exception)"""
    def setup(e):
        n = 1 + e.choice("len", L)
        return ([e.choice(f"cls{t}", len(REMOTE)) for t in range(n)],)

    def run(e, seq):
        MP.exceptions.clear()
        out = []
        for t, ci in enumerate(seq):
            cls = REMOTE[ci]
            try:
                raise cls(f"msg{t}")
            except Exception as ex:
                packed = MP.pack_exception(ex, lambda x: x)
            exc, tb = packed
            try:
                MP.reraise(exc, tb)
                raise Violation("reraise returned")
            except Violation:
                raise
            except Exception as got:
                e.check(isinstance(got, cls), f"failure {t}: raised {cls.__mro__[1].__name__}-based {cls.__name__}, the scheduler re-raised {type(got).__mro__} "
                                              f"which is not an instance of it (sequence {[REMOTE[c].__mro__[1].__name__ for c in seq]})")
                e.check(f"msg{t}" in str(got), "original message lost")
                out.append(type(got).__name__)
        MP.exceptions.clear()
        return out

    return Obligation(f"remote_exception[len<={L}]", setup, run)


def obligations(tier):
    if tier == "quick":
        return [mk(1, ("task",)), mk(2, ("task", "data")), mk(3, ("task", "data"), transports=("default", "threaded", "pool"), excs=(0, 2), chunks=(-1, 2)),
                mk_remote(3)]
    return [mk(1, ("task", "legacylist")), mk(2, ("task", "data", "alias", "legacylist")),
            mk(3, ("task", "data", "alias", "legacylist")), mk(4, ("task",), chunks=(-1, 1, 2), excs=(0, 2)), mk_remote(4)]
