"""C02 -- each needed task runs exactly once and only after its dependencies finished"""
from __future__ import annotations

from symx.core import Violation
from symx.run import Obligation
from props import sched as SC

PROPERTY = "C02"
LEVEL = "other"
BUDGET = {"quick": 200, "thorough": 2400}
CHUNK_PATHS = 150
EXPLANATION = (
    "Same symbolic run of the real get_async loop as C01 (symbolic num_workers, enumerated chunksize, solver-picked "
    "completion order, solver-enumerated graphs and requests). Monitors built from the submit/hand-over/execute log and "
    "from pretask/posttask callbacks assert on every path: every needed non-literal node is handed to a worker exactly "
    "once and executed exactly once; unneeded nodes never; the data dict handed to a task has exactly its dependencies "
    "as keys with the values the graph denotes (z3 equality); every dependency's posttask precedes the dependent's "
    "pretask. Path tree exhausted; per-path native replay.")
ASSUMPTIONS = SC.SCHED_ASSUMPTIONS
STUBS = SC.SCHED_STUBS
ENUM = ["graph shape bits, node kinds, requested subset/nesting, chunksize, completion picks"]
OUTSIDE = ["the real threaded pool under randomized delays (replaced by the solver-picked completion order)",
           "multiprocessing scheduler", "graphs with more than N nodes"]
BOUNDS = {
    "quick": dict(N="<=2 (all kinds), 3 (kinds {Task,DataNode,Alias} / {legacy,List arg,legacy list})", num_workers="symbolic >= 1, unbounded", chunksize=list(SC.CHUNKSIZES)),
    "thorough": dict(N="<=3 (all kinds), 4 (kinds {Task,DataNode,Alias})", num_workers="symbolic >= 1, unbounded", chunksize=list(SC.CHUNKSIZES)),
}


# request shapes: the small graphs get every nesting and the empty request; the largest quick graphs only scalar/flat and list-first
REQ = {False: dict(), True: dict(allow_empty=False, shapes=(0, 2))}


def functions():
    return SC.sched_functions()


def oracle(e, spec, want, log):
    needed = SC.needed_set(spec, want)
    N = len(spec)
    handed = {}
    execs = {}
    for ev in log:
        if ev[0] == "data":
            handed.setdefault(ev[1], []).append(ev[2])
        elif ev[0] == "exec":
            execs[ev[1]] = execs.get(ev[1], 0) + 1
    for j in range(N):
        k = SC.key_of(j)
        kind = spec[j]["kind"]
        runs = len(handed.get(k, []))
        if j in needed and kind != "data":
            e.check(runs == 1, f"needed node {k!r} handed to a worker {runs} times")
            if kind != "alias":
                e.check(execs.get(j, 0) == 1, f"needed task {k!r} executed {execs.get(j, 0)} times")
            data = handed[k][0]
            deps = {SC.key_of(i) for i in spec[j]["deps"]}
            e.check(set(data) == deps, f"task {k!r} received data for {sorted(map(str, data))}, depends on {sorted(map(str, deps))}")
            for i in spec[j]["deps"]:
                e.check(lambda: e.equal(data[SC.key_of(i)], SC.ref_value(spec, i)),
                        f"task {k!r} received a wrong value for its dependency {SC.key_of(i)!r}")
        else:
            e.check(runs == 0 and execs.get(j, 0) == 0, f"node {k!r} is not needed (or is a literal) but was executed")
    # ordering from the scheduler-side callbacks
    pos_pre, pos_post = {}, {}
    for t, ev in enumerate(log):
        if ev[0] == "cb_pretask":
            e.check(ev[2] not in pos_pre, f"two pretask events for {ev[2]!r}")
            pos_pre[ev[2]] = t
        elif ev[0] == "cb_posttask":
            pos_post[ev[2]] = t
    for j in needed:
        if spec[j]["kind"] == "data":
            continue
        k = SC.key_of(j)
        e.check(k in pos_pre and k in pos_post and pos_pre[k] < pos_post[k], f"{k!r}: pretask/posttask missing or out of order")
        for i in spec[j]["deps"]:
            if spec[i]["kind"] == "data":
                continue
            d = SC.key_of(i)
            e.check(d in pos_post and pos_post[d] < pos_pre[k], f"{k!r} started before its dependency {d!r} finished")


def mk(N, kinds, chunks=SC.CHUNKSIZES, small=False):
    def setup(e):
        spec = SC.gen_graph(e, N, kinds)
        want, shape = SC.gen_request(e, N, **REQ[small])
        nw = e.int("num_workers", 1)
        cs = e.pick("chunksize", chunks)
        return spec, want, shape, nw, cs

    def run(e, spec, want, shape, nw, cs):
        log = []
        dsk = SC.build(spec, log, {})
        keys, pack = SC.request_keys(want, shape)
        mon = SC.Monitors(log, e)
        SC.run_scheduler(e, dsk, keys, nw, cs, log, callbacks=[mon.tuple("m", "pP")])
        oracle(e, spec, want, log)
        return [ev[:2] for ev in log if ev[0] in ("submit", "exec")]

    return Obligation(f"once[N={N},kinds={'+'.join(kinds)}{',fewshapes' if small else ''}]", setup, run)


def mk_precached(N, kinds):
    """the caller supplies cache= holding stale values under keys of graph literals (e.g. left over from an earlier call with
    another graph) and an unrelated entry: tasks must still receive the values the *graph* denotes"""
    def setup(e):
        spec = SC.gen_graph(e, N, kinds)
        e.assume(any(s["kind"] == "data" for s in spec))
        want, shape = SC.gen_request(e, N, allow_empty=False, shapes=(1,))
        stale = {j: e.int(f"stale{j}", -2, 2) for j, s in enumerate(spec) if s["kind"] == "data" and e.flag(f"pre{j}")}
        e.assume(len(stale) > 0)
        nw = e.int("num_workers", 1)
        cs = e.pick("chunksize", (-1, 1, 2))
        return spec, want, shape, stale, nw, cs

    def run(e, spec, want, shape, stale, nw, cs):
        log = []
        dsk = SC.build(spec, log, {})
        keys, pack = SC.request_keys(want, shape)
        cache = {SC.key_of(j): v for j, v in stale.items()}
        cache["unrelated"] = 7
        mon = SC.Monitors(log, e)
        res = SC.run_scheduler(e, dsk, keys, nw, cs, log, callbacks=[mon.tuple("m", "pP")], cache=cache)
        oracle(e, spec, want, log)
        exp = pack([SC.ref_value(spec, j) for j in want])
        e.check(lambda: e.equal(res, exp), "result computed from a stale cache entry instead of the graph's literal")
        e.check("unrelated" in cache and cache["unrelated"] == 7, "the scheduler touched a cache entry it does not own")
        return res

    return Obligation(f"precached[N={N},kinds={'+'.join(kinds)}]", setup, run)


def obligations(tier):
    A, B = ("task", "data", "alias"), ("legacy", "listarg", "legacylist")
    if tier == "quick":
        return [mk(1, SC.ALL_KINDS), mk(2, SC.ALL_KINDS), mk(3, A, small=True), mk(3, B, small=True), mk(3, SC.NONE_KINDS, small=True), mk_precached(3, ("task", "data", "legacy"))]
    return [mk(1, SC.ALL_KINDS), mk(2, SC.ALL_KINDS), mk(3, SC.ALL_KINDS), mk(3, SC.NONE_KINDS), mk(4, A), mk_precached(3, SC.ALL_KINDS), mk_precached(4, ("task", "data"))]
