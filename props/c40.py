"""C40 -- sorting, shuffling and de-duplication keep exactly the right rows.

Kernels executed symbolically: dask.dataframe.dask_expr._shuffle.TaskShuffle._layer / SimpleShuffle._layer (staged task-shuffle wiring),
SimpleShuffle._shuffle_group, dask.dataframe.shuffle.shuffle_group / shuffle_group_2 / shuffle_group_get (routing arithmetic
``(ind % npartitions) // k**stage % k``) and partitioning_index (``hash % npartitions`` and its narrowing cast).  Everything that has
to pass through pandas / NumPy (set_partitions_pre, hashing, the disk shuffle, quantile divisions, the public shuffle / sort_values /
set_index / drop_duplicates / unique / nunique API) is covered by solver-enumerated inputs against pandas.
"""
from __future__ import annotations

import operator
import warnings

import numpy as np
import pandas as pd

import z3

from symx import core
from symx.core import SInt, Violation, HarnessError
from symx.patch import patched, ModuleShim, INT_SHIM
from symx.run import Obligation
from props.dfstub import dd

import dask
from dask.dataframe import shuffle as S0
from dask.dataframe.core import _concat
from dask.dataframe.dask_expr import _shuffle as SH
from dask.dataframe.dispatch import group_split_dispatch, hash_object_dispatch

PROPERTY = "C40"
LEVEL = "other"
BUDGET = {"quick": 400, "thorough": 2400}
CHUNK_PATHS = 40
EXPLANATION = (
    "(1) task_routing: the real TaskShuffle._layer / SimpleShuffle._layer graph is built on a real TaskShuffle expression for solver-enumerated "
    "(input partitions n, output partitions m, max_branch, optional partition filter) and interpreted task by task; the tasks call the real "
    "SimpleShuffle._shuffle_group / shuffle_group / shuffle_group_2 / shuffle_group_get on a duck-typed one-row partition whose routing value is "
    "either the '_partitions' value p in [0, m) (what RearrangeByColumn / set_partitions_pre produce; bounded by m, hence enumerated) or a SYMBOLIC raw "
    "64-bit hash h in [0, 2**64) (shuffle_group's hashing branch: h % nfinal, then the base-k digits of (h % nfinal) % npartitions). z3 decides on every "
    "path that the row arrives in exactly one output partition, exactly once, and that this partition is p (resp. h % m), for every source partition: "
    "hence rows with equal keys meet and the multiset of rows is preserved by the wiring, including the stages' empty padding partitions and partitions "
    "that receive nothing; a partition filter pushed into the shuffle (ddf.shuffle(..).partitions[sel]) must select exactly those outputs. "
    "(2) partitioning_index with a symbolic hash "
    "and an UNBOUNDED symbolic npartitions: the result equals hash % npartitions, lies in [0, npartitions) and survives the narrowing astype. "
    "(3) duck_model: the duck-typed partition model (integer column arithmetic, astype wrap-around, group_split) is compared with the real pandas "
    "implementation of shuffle_group / shuffle_group_2 on solver-enumerated inputs, and shuffle_group's documented grouping is asserted on real "
    "frames. (4) set_partitions_pre on real pandas Series (ints with duplicates, NaN, strings; ascending / descending; na_position): partition "
    "numbers are in range, monotone in the key in the direction asked, equal keys get equal partitions, NA goes to the first / last partition. "
    "(5)-(8) the public API on solver-enumerated frames (every split of the rows over the input partitions incl. empty ones, every equality / order "
    "pattern of the keys, key dtypes int / float+NaN / str+NA / categorical): shuffle (on column, columns, index; npartitions out; tasks and disk; "
    "max_branch 2 / 3 forcing 2-3 stages), sort_values, set_index, drop_duplicates / unique / nunique (split_out, split_every, shuffle method, keep) "
    "are computed PARTITION BY PARTITION (a plain .compute() lets the optimizer collapse the whole sort into one pandas call) and compared with "
    "pandas. Every path model is replayed natively; e2e witnesses push a larger frame derived from the model through the same API.")
ASSUMPTIONS = [
    "group_split_dispatch(df, c, k) returns {i: rows with c == i for i in range(k)} in stable order and requires 0 <= c < k (the contract of "
    "pandas' groupsort_indexer); integer astype between NumPy integer dtypes wraps modulo 2**bits; both are validated against pandas by the duck_model obligation",
    "_concat keeps every row of its pieces exactly once (interpreted as list concatenation in the kernel obligation; the real _concat runs in all API obligations)",
    "the hash of a key (pandas.util.hash_pandas_object) is a function of the key value only; the kernel obligations take it as an arbitrary 64-bit unsigned int",
    "shuffle(): npartitions_out >= the number of input partitions reaching TaskShuffle (Shuffle._lower repartitions to fewer first); the kernel obligation covers n <= m",
    "rows with equal sort keys may appear in any relative order (dask documents no stability); sorted results are compared on the key columns plus the multiset of rows",
    "set_index / sort_values on string keys: no nulls (dask raises NotImplementedError: documented); set_index: no nulls at all (documented as unsupported in the index)",
    "drop_duplicates: keep='first' / 'last' refer to the order of the rows of the concatenated partitions",
    "dask.dataframe is imported with a stub `pyarrow` package (absent from the sandbox); dataframe.convert-string is off",
]
STUBS = [
    "duck-typed partitions (class Rows / Col / KeyView) registered for their own type in group_split_dispatch and hash_object_dispatch",
    "graph interpreter: dask.dataframe.core._concat is interpreted as list concatenation of duck partitions",
    "partitioning_index: dask.dataframe.shuffle.int -> ShimInt, np.min_scalar_type -> transcription that forks on the documented thresholds for a symbolic argument",
]
ENUM = [
    "task_routing: n, m, max_branch, the source partition and the partition filter are concretised (math.log / ** / range); only the routing value is symbolic",
    "duck_model, set_partitions_pre and all *_api obligations: every input is solver-enumerated (pandas / NumPy / partd code): partition sizes, key patterns, "
    "dtypes, npartitions, split_out, split_every, shuffle method, max_branch, ascending, na_position, keep",
]
OUTSIDE = [
    "p2p shuffle (needs distributed), cudf backends, user supplied sort_function, partition_size= / npartitions='auto'",
    "string sort keys with nulls (documented NotImplementedError), nulls in set_index, sort_values(by=[a, b]) beyond the enumerated two int columns",
    "object-dtype columns mixing None and NaN; more rows / partitions than the bounds of the tier",
    "truthfulness of the divisions set_index reports (C41); the number of output partitions of sort_values / set_index (npartitions is documented as 'ideal')",
    "rewrites of sort_values(...).head() / .tail() into nsmallest / nlargest reductions",
    "the known regions named by the model variables stage_filter_bug, na_first_bug, all_na_partition, presorted_na_bug, cat_order_bug (order assertion "
    "skipped, rows still checked) and dup_keys x shuffle_method='disk' (one row per distinct key instead of pandas' representative)",
]
BOUNDS = {
    "quick": dict(task_routing="n in 1..5 input partitions, m in n..7 output partitions, max_branch in {2, 3, 32} (2-3 stages), every source partition; routing value: "
                               "'_partitions' value p in [0, m) enumerated, raw hash h in [0, 2**64) symbolic; partition filters: every 3-subset of 4 (max_branch 2) and "
                               "4-subset of 5 (max_branch 3) outputs plus samples with m = n + 2",
                  partitioning_index="npartitions in [1, 2**62] symbolic, hash in [0, 2**64) symbolic",
                  duck_model="npartitions <= 6, k <= 3, stage <= 2, nfinal in {n, n+1, n+2, n+3}, every final partition number",
                  set_partitions_pre="2..3 division values (last two may be equal) over 0..3, two probe keys in range + NA, ascending / descending, na_position",
                  shuffle_api="int keys: <= 3 rows in <= 3 partitions; float+NaN / str+NA / categorical keys: <= 2 rows in <= 2 partitions; every split of the rows "
                              "(empty partitions included) x every equality pattern of the keys; per path 4 of the 48 combinations npartitions in {n-1, n, n+1, 2n+1} x "
                              "{tasks, tasks max_branch=2, tasks max_branch=3, disk} x on in {'k', ['k','k2'], index name}, rotating, plus on_index=True",
                  sort_values_api="int: <= 3 rows in <= 3 partitions; float (top rank optionally NaN, na_position first / last), categorical (lexical and non-lexical "
                                  "category order): <= 3 rows in <= 2 partitions; str: <= 2 rows; every split x every weak ordering of the keys; ascending and descending, "
                                  "1 (int) or 2 rotating (npartitions, shuffle method / max_branch) combinations each; int: one two-column sort",
                  set_index_api="int: <= 3 rows in <= 3 partitions, str: <= 3 rows in <= 2 partitions; 2 rotating (npartitions, method, drop) combinations + divisions=",
                  dedup_api="int: <= 3 rows in <= 3 partitions; float+NaN: <= 3 rows, str+NA / cat: <= 2 rows in <= 2 partitions; every split x every equality pattern; rotating "
                            "(subset, keep, split_out, split_every, shuffle_method, ignore_index)",
                  e2e="17 rows in partitions of sizes [3, 0, 5, 1, 6, 2], options derived from the model"),
    "thorough": dict(task_routing="n in 1..10, m in n..12, max_branch in {2, 3, 4, 32}; filters additionally 5-subsets of 8 outputs",
                     partitioning_index="as quick", duck_model="npartitions <= 9, k <= 4, nfinal up to n + 3",
                     set_partitions_pre="2..4 division values over 0..4",
                     shuffle_api="int: <= 4 rows in <= 4 partitions (rotating options) and <= 3 rows in <= 3 partitions with ALL 48 option combinations; other key types <= 3 rows in <= 4 partitions",
                     sort_values_api="int: <= 4 rows in <= 3 partitions, and <= 3 rows in <= 2 partitions with all 16 (npartitions, method) combinations; float / str / cat: <= 3 rows in <= 3 partitions",
                     set_index_api="int: <= 4 rows in <= 3 partitions, and <= 3 rows in <= 2 partitions with all 32 combinations; str: <= 3 rows in <= 3 partitions",
                     dedup_api="int: <= 4 rows in <= 3 partitions; float / str / cat: <= 3 rows in <= 3 partitions", e2e="as quick"),
}


def functions():
    return [SH.TaskShuffle._layer, SH.SimpleShuffle._layer, SH.SimpleShuffle._shuffle_group, SH.DiskShuffle._layer, SH.DiskShuffle._shuffle_group,
            SH.Shuffle._lower, SH.RearrangeByColumn._lower, SH.AssignPartitioningIndex.operation, SH.SortValues._lower, SH.SetPartition._lower,
            SH.SetIndex._lower, SH._calculate_divisions, S0.shuffle_group, S0.shuffle_group_2, S0.shuffle_group_get, S0.partitioning_index,
            S0.set_partitions_pre, S0.collect, S0.barrier]


# ---------------------------------------------------------------------------
# duck-typed partitions for the kernel obligations


def _wrap(v, lo, hi):
    """C cast of the integer v to the integer type with range [lo, hi]: wraps modulo hi - lo + 1.  For a symbolic v that provably fits
    (the negation is unsatisfiable under the path condition) the value is returned unchanged, which keeps the solver terms small"""
    if isinstance(v, SInt):
        eng = core.ENG
        if getattr(eng, "mode", "") == "sym" and not eng._check(z3.Or(v.z < lo, v.z > hi)):
            return v
    return (v - lo) % (hi - lo + 1) + lo


class Col:
    """integer column (values: int or SInt) with the arithmetic shuffle_group* use"""

    def __init__(self, vals):
        self.vals = list(vals)

    def __len__(self):
        return len(self.vals)

    def __mod__(self, n):
        return Col([v % n for v in self.vals])

    def __floordiv__(self, n):
        return Col([v // n for v in self.vals])

    def __mul__(self, n):
        return Col([v * n for v in self.vals])

    def __add__(self, n):
        return Col([v + n for v in self.vals])

    def __sub__(self, n):
        return Col([v - n for v in self.vals])

    def astype(self, typ, **kw):
        dt = np.dtype(typ)
        if dt.kind not in "iu":
            raise HarnessError(f"duck column: astype({dt})")
        bits = 8 * dt.itemsize
        if dt.kind == "u":
            return Col([_wrap(v, 0, (1 << bits) - 1) for v in self.vals])
        half = 1 << (bits - 1)
        return Col([_wrap(v, -half, half - 1) for v in self.vals])

    def max(self):
        return max(operator.index(v) for v in self.vals)

    @property
    def values(self):
        return self


class Rows:
    """duck-typed partition: rows are (row id, routing value)"""

    def __init__(self, rows):
        self.rows = list(rows)

    def __len__(self):
        return len(self.rows)

    def __getitem__(self, col):
        if isinstance(col, list):
            return KeyView(self)
        return Col([v for _, v in self.rows])

    @property
    def iloc(self):
        return _ILoc(self)


class KeyView:
    """df[cols]: only ever handed to hash_object_dispatch"""

    def __init__(self, rows):
        self.rows = rows


class _ILoc:
    def __init__(self, rows):
        self.r = rows

    def __getitem__(self, sl):
        return Rows(self.r.rows[sl])


def _rows_hash(obj, index=True, **kw):
    rows = obj.rows if isinstance(obj, KeyView) else obj
    return Col([v for _, v in rows.rows])


def _rows_group_split(df, c, k, ignore_index=False):
    """contract of group_split_pandas (groupsort_indexer): stable, keys range(k), 0 <= c < k"""
    k = operator.index(k)
    out = {i: [] for i in range(k)}
    for r, cv in zip(df.rows, c.vals):
        cv = operator.index(cv)
        if not 0 <= cv < k:
            raise Violation(f"group_split called with group number {cv} outside [0, {k}) (out of bounds in groupsort_indexer)")
        out[cv].append(r)
    return {i: Rows(v) for i, v in out.items()}


hash_object_dispatch.register((Rows, KeyView))(_rows_hash)
group_split_dispatch.register(Rows)(_rows_group_split)


def _nrows(x):
    return len(x.rows) if isinstance(x, Rows) else len(x)


def _concat_model(pieces, ignore_index=False):
    rows = []
    for p in pieces:
        if isinstance(p, Rows):
            rows += p.rows
        elif len(p):
            raise HarnessError("non-empty pandas piece in the kernel interpreter")
    return Rows(rows)


def interpret(dsk, key, inputs, cache):
    """evaluate a legacy tuple-task graph; `inputs` supplies the partitions of the shuffled frame"""
    if key in cache:
        return cache[key]
    if key in inputs:
        return inputs[key]
    v = dsk[key]
    cache[key] = r = _run_task(dsk, v, inputs, cache)
    return r


def _is_key(dsk, inputs, x):
    try:
        return x in dsk or x in inputs
    except TypeError:
        return False


def _arg(dsk, x, inputs, cache):
    if isinstance(x, (tuple, str)) and _is_key(dsk, inputs, x):
        return interpret(dsk, x, inputs, cache)
    if isinstance(x, list):
        return [_arg(dsk, y, inputs, cache) for y in x]
    if isinstance(x, tuple) and x and callable(x[0]):
        return _run_task(dsk, x, inputs, cache)
    return x


def _run_task(dsk, v, inputs, cache):
    if isinstance(v, tuple) and v and callable(v[0]):
        f = v[0]
        args = [_arg(dsk, a, inputs, cache) for a in v[1:]]
        if f is _concat:
            return _concat_model(*args)
        return f(*args)
    return v


# ---------------------------------------------------------------------------
# (1) staged task shuffle wiring with a symbolic routing value

_META = pd.DataFrame({"_partitions": np.array([], dtype="int32"), "k": np.array([], dtype="int64"), "id": np.array([], dtype="int64")})


def _meta_part(i):
    return _META


_FRAMES = {}


def _frame_expr(n):
    if n not in _FRAMES:
        _FRAMES[n] = dd.from_map(_meta_part, list(range(n)), meta=_META).expr
    return _FRAMES[n]


def _subsets(m, size):
    import itertools
    return [list(c) for c in itertools.combinations(range(m), size)]


def mk_routing(nmax, mmax, branches, hashed):
    """one symbolic row, every source partition, unfiltered output"""
    def setup(e):
        n = operator.index(e.int("n", 1, nmax))
        m = operator.index(e.int("m", n, mmax))
        mb = e.pick("max_branch", branches)
        src = e.choice("src", n)
        if hashed:
            v = e.int("h", 0, 2 ** 64 - 1)
        else:
            v = operator.index(e.int("p", 0, m - 1))      # bounded by m anyway: enumerated
        return n, m, mb, src, v

    def run(e, n, m, mb, src, v):
        col = ["k"] if hashed else "_partitions"
        ts = SH.TaskShuffle(_frame_expr(n), col, m, False, {"max_branch": mb}, None)
        dsk = ts._layer()
        fname = ts.frame._name
        inputs = {(fname, i): Rows([(0, v)] if i == src else []) for i in range(n)}
        cache = {}
        outs = [interpret(dsk, (ts._name, j), inputs, cache) for j in range(m)]
        e.check(not any(k[0] == ts._name and not (0 <= k[1] < m) for k in dsk if isinstance(k, tuple) and len(k) == 2),
                "the layer defines more output partitions than npartitions_out")
        where = [j for j, o in enumerate(outs) for _ in range(_nrows(o))]
        e.check(len(where) == 1, f"one row went in, {len(where)} rows came out (n={n}, m={m}, max_branch={mb}, source partition {src}): rows lost or duplicated")
        want = (v % m) if hashed else v
        e.check(lambda: want == where[0], f"row landed in output partition {where[0]}, its partitioning index says another one (n={n}, m={m}, max_branch={mb})")
        got = outs[where[0]].rows[0]
        e.check(got[0] == 0, "row identity changed")
        e.check(lambda: got[1] == v, "routing value changed on the way")
        return (where[0], len(dsk))

    def e2e(model):
        n, m = model["n"], model["m"]
        mb = list(branches)[model.get("max_branch", 0)]
        _api_shuffle_witness(n, m, mb, model.get("h", model.get("p", 0)), model.get("src", 0))

    tag = "hash" if hashed else "partitions"
    return Obligation(f"task_routing[{tag},n<={nmax},m<={mmax}]", setup, run, e2e=e2e, e2e_every=11)


def mk_routing_filtered(n, mb, size):
    """partition filter pushed into the shuffle (ddf.shuffle(...).partitions[sel]): output i is partition sel[i]"""
    def setup(e):
        if e.flag("more_outputs"):
            m = n + 2
            sel = e.pick("sel", _subsets(m, size)[::5])
        else:
            m = n
            sel = e.pick("sel", _subsets(m, size) + [list(reversed(s)) for s in _subsets(m, size)][:2])
        src = e.choice("src", n)
        p = e.int("p", 0, m - 1)
        return m, sel, src, p

    def run(e, m, sel, src, p):
        ts = SH.TaskShuffle(_frame_expr(n), "_partitions", m, False, {"max_branch": mb}, None, list(sel))
        dsk = ts._layer()
        staged = any(isinstance(k, tuple) and str(k[0]).startswith("group-stage-") for k in dsk)
        ksplit = max((v[5] for k, v in dsk.items() if isinstance(k, tuple) and str(k[0]).startswith("group-") and isinstance(v, tuple) and len(v) == 9), default=0)
        # KNOWN REGION (dask defect, reported): in the staged layout with npartitions_out == npartitions_in the last stage hands the partition
        # filter (partition NUMBERS) to SimpleShuffle._shuffle_group, which applies it to the stage's DIGIT keys 0..k-1; a selection that does not
        # contain every digit makes the split tasks fail with KeyError.
        bug = int(staged and m == n and not set(range(ksplit)) <= set(sel))
        flag = e.int("stage_filter_bug", 0, 1)      # (repaired in /repo: nothing is skipped in this region any more)
        e.assume(lambda: flag == bug)
        fname = ts.frame._name
        inputs = {(fname, i): Rows([(0, p)] if i == src else []) for i in range(n)}
        cache = {}
        outs = [interpret(dsk, (ts._name, i), inputs, cache) for i in range(len(sel))]
        where = [sel[i] for i, o in enumerate(outs) for _ in range(_nrows(o))]
        pc = operator.index(p)
        e.check(where == ([pc] if pc in sel else []), f"selected partitions {sel}: a row of partition {pc} shows up in {where}")
        return where

    return Obligation(f"task_routing_filtered[n={n},max_branch={mb},sel={size}]", setup, run)


def _api_shuffle_witness(n, m, mb, seed, src):
    """public API twin of the kernel obligation: n input partitions, m output partitions, staged task shuffle"""
    N = 2 * n + 3
    keys = [(seed + 7 * i * i + src) % 5 for i in range(N)]
    df = pd.DataFrame({"k": keys, "x": range(N)})
    ddf = dd.from_pandas(df, npartitions=n, sort=False)
    if ddf.npartitions != n:
        return
    out = ddf.shuffle("k", npartitions=m, shuffle_method="tasks", max_branch=mb)
    _check_shuffled(out, df, ["k"], m, f"shuffle('k', npartitions={m}, max_branch={mb}) of {n} partitions, keys {keys}", Violation)


# ---------------------------------------------------------------------------
# (2) partitioning_index


def _sym_min_scalar_type(x):
    """np.min_scalar_type for a symbolic integer: smallest unsigned type for x >= 0, smallest signed type for x < 0 (NumPy documentation)"""
    if not isinstance(x, SInt):
        return np.min_scalar_type(x)
    if x >= 0:
        for bits, t in ((8, np.uint8), (16, np.uint16), (32, np.uint32), (64, np.uint64)):
            if x < (1 << bits):
                return np.dtype(t)
        return np.dtype(object)
    for bits, t in ((8, np.int8), (16, np.int16), (32, np.int32), (64, np.int64)):
        if x >= -(1 << (bits - 1)):
            return np.dtype(t)
    return np.dtype(object)


def mk_partitioning_index():
    def setup(e):
        n = e.int("npartitions", 1, 2 ** 62)
        h = e.int("h", 0, 2 ** 64 - 1)
        return n, h

    def run(e, n, h):
        res = S0.partitioning_index(KeyView(Rows([(0, h)])), n)
        e.check(isinstance(res, Col) and len(res) == 1, "partitioning_index must return one value per row")
        r = res.vals[0]
        e.check(lambda: (r >= 0) & (r < n), "partitioning index outside [0, npartitions)")
        e.check(lambda: r == h % n, "partitioning index is not hash % npartitions (narrowing cast overflowed?)")
        return r

    def e2e(model):
        n = model["npartitions"]
        if n > 2 ** 31:
            return
        df = pd.DataFrame({"a": [model["h"] % 1000, 5, model["h"] % 1000, -1], "b": ["x", "y", "x", "z"]})
        got = S0.partitioning_index(df, n)
        want = [int(v) % n for v in pd.util.hash_pandas_object(df, index=False)]
        if [int(v) for v in got] != want or got[0] != got[2]:
            raise Violation(f"partitioning_index(df, {n}) = {list(got)}, hash % n = {want}")

    return Obligation("partitioning_index[symbolic]", setup, run,
                      patches=lambda: patched((S0, "int", INT_SHIM), (S0, "np", ModuleShim(np, min_scalar_type=_sym_min_scalar_type))),
                      e2e=e2e, e2e_every=1)


# ---------------------------------------------------------------------------
# (3) the duck model against pandas, and shuffle_group's documented grouping on real frames


def mk_duck_model(nmax, kmax, finmax):
    def setup(e):
        n = operator.index(e.int("npartitions", 1, nmax))
        k = operator.index(e.int("k", 1, kmax))
        stage = e.choice("stage", 3)
        nfinal = n + e.pick("more", (0, 1, 3, finmax - nmax))
        hashed = e.flag("hashed")
        # one frame holding every final partition number (twice, in two orders)
        vals = list(range(nfinal)) + list(reversed(range(nfinal)))
        return n, k, stage, nfinal, vals, hashed

    def run(e, n, k, stage, nfinal, vals, hashed):
        # preconditions of one stage of the staged shuffle: k**(stage+1) slots must not exceed what the caller created
        if k ** stage > n:
            return "skip"
        col = ["k"] if hashed else "_partitions"
        pdf = pd.DataFrame({"_partitions": np.array(vals, dtype="int32"), "k": np.array(vals, dtype="int64"), "id": range(len(vals))})
        duck = Rows(list(enumerate(pd.util.hash_pandas_object(pdf[["k"]], index=False).astype(object).tolist() if hashed else vals)))
        real = S0.shuffle_group(pdf, col, stage, k, n, False, nfinal)
        mine = S0.shuffle_group(duck, col, stage, k, n, False, nfinal)
        e.check(sorted(real) == list(range(k)), f"shuffle_group must return the groups 0..k-1, got {sorted(real)}")
        real_ids = {c: list(f["id"]) for c, f in real.items()}
        e.check(real_ids == {c: [r[0] for r in f.rows] for c, f in mine.items()}, f"duck model and pandas disagree on shuffle_group: {real_ids}")
        # documented grouping, independently: group of a row = digit `stage` (base k) of (final partition % npartitions)
        hv = [int(x) for x in pd.util.hash_pandas_object(pdf[["k"]], index=False)]
        for i, v in enumerate(vals):
            fin = (hv[i] % nfinal if nfinal != n else hv[i]) if hashed else v
            c = (fin % n) // k ** stage % k
            e.check(i in real_ids[c], f"row with final partition {fin} is not in group {c} (stage {stage}, k {k}, npartitions {n})")
        e.check(sorted(x for ids in real_ids.values() for x in ids) == list(range(len(vals))), "shuffle_group lost or duplicated rows")
        # shuffle_group_2 / shuffle_group_get (repartitioning step of the staged shuffle)
        g_real, head = S0.shuffle_group_2(pdf, col, False, nfinal)
        g_mine, _ = S0.shuffle_group_2(duck, col, False, nfinal)
        ids2 = {c: list(f["id"]) for c, f in g_real.items() if len(f)}
        e.check(ids2 == {c: [r[0] for r in f.rows] for c, f in g_mine.items() if len(f)}, "duck model and pandas disagree on shuffle_group_2")
        for i, v in enumerate(vals):
            fin = hv[i] % nfinal if hashed else v
            e.check(i in list(S0.shuffle_group_get((g_real, head), fin)["id"]), f"shuffle_group_2: row with final partition {fin} is not in its group")
        e.check(len(S0.shuffle_group_get((g_real, head), nfinal + 3)) == 0, "shuffle_group_get of an absent group must be empty")
        return sorted(real_ids.items())

    return Obligation(f"duck_model[n<={nmax},k<={kmax},nfinal<={finmax}]", setup, run)


# ---------------------------------------------------------------------------
# (4) set_partitions_pre


def _isna(v):
    return v is None or v is pd.NA or v != v


def mk_set_partitions_pre(vmax, maxcuts, kind):
    """kind: 'int' | 'float' (with NaN) | 'str'"""
    def setup(e):
        ncuts = 2 + e.choice("ndiv", maxcuts - 1)
        d, prev = [], None
        for i in range(ncuts):
            lo = 0 if prev is None else prev + (0 if i == ncuts - 1 else 1)
            x = e.int(f"d{i}", lo, vmax)
            if prev is not None and i == ncuts - 1:
                e.assume(lambda: x >= prev)
            x = operator.index(x)
            d.append(x)
            prev = x
        a = operator.index(e.int("a", d[0], d[-1]))
        b = operator.index(e.int("b", d[0], d[-1]))
        asc = e.flag("ascending")
        nap = e.pick("na_position", ("last", "first"))
        return d, a, b, asc, nap

    def conv(x):
        if kind == "str":
            return "s%02d" % x
        return float(x) if kind == "float" else x

    def run(e, d, a, b, asc, nap):
        divisions = pd.Series([conv(x) for x in d])
        vals = [conv(a), conv(b), conv(a)]
        if kind == "float":
            vals.append(float("nan"))
        elif kind == "str":
            vals.append(None)
        s = pd.Series(vals)
        got = [int(x) for x in S0.set_partitions_pre(s, divisions, ascending=asc, na_position=nap)]
        nparts = len(d) - 1
        e.check(all(0 <= g < nparts for g in got), f"partition number outside [0, {nparts}): {got}")
        pa, pb = got[0], got[1]
        e.check(got[2] == pa, "equal keys sent to different partitions")
        if a != b:
            lo, hi = (pa, pb) if a < b else (pb, pa)
            e.check(lo <= hi if asc else lo >= hi, f"not monotone: keys {a}, {b} -> partitions {pa}, {pb} (ascending={asc}, divisions {d})")
        if asc:
            # interval reading of divisions: partition i holds [d[i], d[i+1]), the last one is closed
            want = max(i for i in range(nparts) if d[i] <= a)
            e.check(pa == min(want, nparts - 1), f"key {a} with divisions {d}: partition {pa}, interval reading says {want}")
        if len(vals) == 4:
            e.check(got[3] == (nparts - 1 if nap == "last" else 0), f"NA key sent to partition {got[3]} with na_position={nap!r} ({nparts} partitions)")
        return got

    return Obligation(f"set_partitions_pre[{kind},v<={vmax},cuts<={maxcuts}]", setup, run)


# ---------------------------------------------------------------------------
# frames for the API obligations


class _Part:
    """from_map callable: partition (lo, hi) of a pandas frame"""
    __name__ = "c40part"

    def __init__(self, pdf):
        self.pdf = pdf

    def __call__(self, b):
        return self.pdf.iloc[b[0]:b[1]]

    def __dask_tokenize__(self):
        from dask.tokenize import tokenize
        return ("c40part", tokenize(self.pdf))


def make_ddf(pdf, sizes):
    b, pos = [], 0
    for s in sizes:
        b.append((pos, pos + s))
        pos += s
    if pos != len(pdf):
        raise HarnessError("sizes do not add up")
    return dd.from_map(_Part(pdf), b, meta=pdf.iloc[:0])


def parts_of(coll):
    """the partitions as computed one by one (NOT coll.compute(), which the optimizer may rewrite into a single-partition program)"""
    with warnings.catch_warnings():
        warnings.simplefilter("ignore")
        return list(dask.compute(*coll.to_delayed(), scheduler="sync"))


def structure(e, maxnp, maxn, minn=0):
    np_ = 1 + e.choice("np", maxnp)
    sizes, left = [], maxn
    for i in range(np_):
        s = e.choice(f"n{i}", left + 1)
        sizes.append(s)
        left -= s
    if sum(sizes) < minn:
        e.assume(False)
    return sizes


def rgs(e, n, name="g", maxlab=None):
    """restricted growth string: every equality pattern of n keys exactly once"""
    lab, top = [], 0
    for i in range(n):
        hi = top + 1 if maxlab is None else min(top + 1, maxlab)
        x = e.choice(f"{name}{i}", hi + 1 if i else 1) if i else 0
        x = min(x, hi)
        lab.append(x)
        top = max(top, x + 0)
    return lab


def canon(v):
    if _isna(v):
        return "<NA>"
    return v.item() if isinstance(v, np.generic) else v


KEYS = {
    "int": [3, 10, -7, 22, 5],
    "float": [float("nan"), 1.5, -2.0, 7.25, 0.0],       # label 0 is the NA key, so that even two-row frames have duplicated NA keys
    "str": [None, "a", "bb", "dd", "c"],
    "cat": ["u", "w", "v", "u2", "z"],
}


def key_series(kind, labels):
    vals = [KEYS[kind][x] for x in labels]
    if kind == "cat":
        return pd.Series(pd.Categorical(vals, categories=["w", "v", "u", "u2", "z", "unused"]))
    if kind == "int":
        return pd.Series(vals, dtype="int64")
    if kind == "float":
        return pd.Series(vals, dtype="float64")
    return pd.Series(vals, dtype="str")


def _check_shuffled(out, df, on, m, what, err):
    frames = parts_of(out)
    if len(frames) != m or out.npartitions != m:
        raise err(f"{what}: {len(frames)} partitions, asked for {m}")
    got = pd.concat(frames)
    if sorted(got["x"].tolist()) != list(range(len(df))):
        raise err(f"{what}: rows lost or duplicated: ids {sorted(got['x'].tolist())}")
    back = got.sort_values("x")
    for c in df.columns:
        if [canon(v) for v in back[c]] != [canon(v) for v in df[c]]:
            raise err(f"{what}: values of column {c!r} changed")
    home = {}
    for j, f in enumerate(frames):
        src = f.reset_index() if on == ["__index__"] else f
        cols = ["ix"] if on == ["__index__"] else on
        for t in src[cols].itertuples(index=False):
            key = tuple(canon(v) for v in t)
            if home.setdefault(key, j) != j:
                raise err(f"{what}: rows with key {key} are in partitions {home[key]} and {j}")
    return frames


def mk(name, setup, run, e2e=None, every=7):
    return Obligation(name, setup, run, e2e=e2e, e2e_every=every)


# ---------------------------------------------------------------------------
# (5) shuffle through the public API


def _expected_partition(df, on, m):
    """the documented spec: partitioning_index of the key columns (numeric keys hashed as float64 so that 1 and 1.0 meet)"""
    key = df[on].copy()
    for c in key.columns:
        if pd.api.types.is_numeric_dtype(key[c].dtype):
            key[c] = key[c].astype("float64")
    return [int(v) % m for v in pd.util.hash_pandas_object(key, index=False)]


def _offset(*seqs):
    """deterministic fingerprint of a path's concrete inputs: rotates the option combinations tried on that path"""
    t = 0
    for s in seqs:
        for i, x in enumerate(s):
            t = t * 3 + (i + 2) * (int(x) + 1)
    return t


SHUFFLE_METHODS = (("tasks", None), ("tasks", 2), ("tasks", 3), ("disk", None))
SHUFFLE_ON = ("k", ["k", "k2"], "ix")


def _shuffle_once(e, ddf, df, sizes, on, m, method, mb):
    opts = {} if mb is None else {"max_branch": mb}
    what = f"shuffle({on!r}, npartitions={m}, shuffle_method={method!r}, max_branch={mb}) of partitions {sizes}, keys {list(df.k)}"
    cols = ["__index__"] if on == "ix" else ([on] if isinstance(on, str) else on)
    try:
        out = ddf.shuffle(on, npartitions=m, shuffle_method=method, **opts)
        frames = _check_shuffled(out, df, cols, m, what, Violation)
    except Violation:
        raise
    except Exception as ex:
        raise Violation(f"{what}: {type(ex).__name__}: {ex}")
    if on != "ix":
        exp = _expected_partition(df, cols, m)
        for j, f in enumerate(frames):
            for x in f["x"]:
                e.check(exp[x] == j, f"{what}: row {x} is in partition {j}, partitioning_index says {exp[x]}")
    return [sorted(f["x"].tolist()) for f in frames]


def mk_shuffle_api(maxnp, maxn, kind, full=False):
    def setup(e):
        sizes = structure(e, maxnp, maxn)
        lab = rgs(e, sum(sizes))
        return sizes, lab

    def run(e, sizes, lab):
        N = len(lab)
        df = pd.DataFrame({"k": key_series(kind, lab), "k2": [i % 2 for i in range(N)], "x": range(N)},
                          index=pd.Index([(3 * i) % 4 for i in range(N)], name="ix"))
        ddf = make_ddf(df, sizes)
        n = len(sizes)
        ms = [max(1, n - 1), n, n + 1, 2 * n + 1]
        obs = []
        if full:
            combos = [(m, mm, on) for m in ms for mm in SHUFFLE_METHODS for on in SHUFFLE_ON]
        else:
            # 4 of the 48 (npartitions, method, on) combinations per path, rotating with the path's inputs: every npartitions and every
            # method on every path, every combination on 1/12 of the paths
            o = _offset(sizes, lab) % 12
            combos = [(ms[j], SHUFFLE_METHODS[(j + o) % 4], SHUFFLE_ON[(j + o // 4) % 3]) for j in range(4)]
        for m, (method, mb), on in combos:
            obs.append(_shuffle_once(e, ddf, df, sizes, on, m, method, mb))
        out = ddf.shuffle(on_index=True, npartitions=n + 1, shuffle_method="tasks", max_branch=2)
        _check_shuffled(out, df, ["__index__"], n + 1, f"shuffle(on_index=True) of partitions {sizes}", Violation)
        return obs

    def e2e(model):
        _shuffle_witness(kind, model)

    return mk(f"shuffle_api[{kind},np<={maxnp},rows<={maxn}{',all-options' if full else ''}]", setup, run, e2e=e2e, every=9)


WITNESS_SIZES = [3, 0, 5, 1, 6, 2]


def _seed(model):
    return sum((i + 1) * v for i, v in enumerate(model.values())) + len(model)


def _witness_frame(kind, model, N=17):
    seed = _seed(model)
    lab = [((seed + i) * (i + 3) + i * i) % 5 for i in range(N)]
    df = pd.DataFrame({"k": key_series(kind, lab), "k2": [(i * i + seed) % 3 for i in range(N)], "x": range(N)},
                      index=pd.Index([(5 * i + seed) % 7 for i in range(N)], name="ix"))
    return df, list(WITNESS_SIZES), seed


def _shuffle_witness(kind, model):
    df, sizes, seed = _witness_frame(kind, model)
    ddf = make_ddf(df, sizes)
    m = (6, 7, 13, 3)[seed % 4]
    method, mb = SHUFFLE_METHODS[(seed // 4) % 4]
    opts = {} if mb is None else {"max_branch": mb}
    on = SHUFFLE_ON[(seed // 16) % 3]
    out = ddf.shuffle(on, npartitions=m, shuffle_method=method, **opts)
    cols = ["__index__"] if on == "ix" else ([on] if isinstance(on, str) else on)
    _check_shuffled(out, df, cols, m, f"shuffle({on!r}, npartitions={m}, {method}, max_branch={mb}) of partitions {sizes}, keys {list(df.k)}", Violation)


# ---------------------------------------------------------------------------
# (6) sort_values through the public API


def ranks(e, n, name="r"):
    """every weak ordering of n keys exactly once: rank sequences whose set of values is {0 .. max}"""
    r = [e.choice(f"{name}{i}", n) for i in range(n)]
    used = set(r)
    if used != set(range(len(used))):
        e.assume(False)
    return r


SORT_VALUES = {
    "int": [-7, 3, 10, 22, 40],
    "float": [-2.0, 0.5, 1.5, 7.25, 9.0],
    "str": ["a", "bb", "c", "dd", "e"],
    "cat": ["u", "v", "w", "z", "zz"],
}
CAT_LEXICAL = ["u", "v", "w", "z", "zz", "zzz_unused"]
CAT_OTHER = ["w", "u", "zzz_unused", "zz", "v", "z"]


def sort_keys(kind, rk, nan_top=False, nonlexical=False):
    vals = [SORT_VALUES[kind][x] for x in rk]
    if nan_top and rk:
        top = max(rk)
        vals = [float("nan") if x == top else v for x, v in zip(rk, vals)]
    if kind == "cat":
        return pd.Series(pd.Categorical(vals, categories=CAT_OTHER if nonlexical else CAT_LEXICAL))
    return pd.Series(vals, dtype={"int": "int64", "float": "float64", "str": "str"}[kind])


def _key_rows(frame, by):
    return [tuple(canon(v) for v in t) for t in frame[by].itertuples(index=False)]


def _check_sorted(out, df, by, asc, nap, what, order=True):
    frames = parts_of(out)
    got = pd.concat(frames) if frames else df.iloc[:0]
    if sorted(got["x"].tolist()) != list(range(len(df))):
        raise Violation(f"{what}: rows lost or duplicated: ids {sorted(got['x'].tolist())}")
    back = got.sort_values("x")
    for c in df.columns:
        if [canon(v) for v in back[c]] != [canon(v) for v in df[c]]:
            raise Violation(f"{what}: values of column {c!r} changed")
    if order:
        want = df.sort_values(by, ascending=asc, na_position=nap)
        if _key_rows(got, by) != _key_rows(want, by):
            raise Violation(f"{what}: partitions hold keys {[_key_rows(f, by) for f in frames]}, pandas gives {_key_rows(want, by)}")
    return [len(f) for f in frames]


SORT_NP = (None, 1, "n+1", 2)
SORT_METHODS = ((None, None), ("tasks", None), ("tasks", 2), ("disk", None))


def _np_opt(x, n):
    return n + 1 if x == "n+1" else x


def mk_sort_api(maxnp, maxn, kind, full=False):
    def setup(e):
        sizes = structure(e, maxnp, maxn)
        rk = ranks(e, sum(sizes))
        nan_top = bool(rk) and kind == "float" and e.flag("nan_top")
        nap = e.pick("na_position", ("last", "first")) if nan_top else None
        nonlex = kind == "cat" and e.flag("nonlexical_categories")
        keys = sort_keys(kind, rk, nan_top, nonlex)
        # KNOWN REGIONS (dask defects, reported).  Model variables name them; inside a region only the order assertion is skipped,
        # the rows must still all be there.
        #  na_first_bug: SortValues._lower does not hand na_position to set_partitions_pre, so NA keys always travel to the LAST output
        #                partition; with na_position='first' they end up at the head of the last partition instead of the head of the result.
        #  all_na_partition: an input partition whose keys are all NA contributes NaN quantiles; the merged divisions then contain NaN and do
        #                not start at the minimum, and keys below the first division are sent to the last (ascending) / first partition.
        #  cat_order_bug: the divisions of a categorical key are rebuilt as a plain str Series and sorted lexically, while the partitions
        #                are sorted by category order.
        #  presorted_na_bug: when every input partition has a non-NA key and the partitions' key ranges are already strictly separated in
        #                ascending or descending order, sort_values only sorts each partition (min / max skip NA), so NA keys stay in
        #                whichever partition they were.
        pos, all_na, ranges = 0, 0, []
        for s_ in sizes:
            blk = keys.iloc[pos:pos + s_]
            pos += s_
            if s_ and blk.isna().all() and not keys.isna().all():
                all_na = 1
            live = [v for v in (blk.cat.codes if kind == "cat" else blk) if not _isna(v)]
            ranges.append((min(live), max(live)) if live else None)
        sep = len(sizes) > 1 and all(r is not None for r in ranges) and (
            all(a[1] < b[0] for a, b in zip(ranges, ranges[1:])) or all(a[0] > b[1] for a, b in zip(ranges, ranges[1:])))
        known = dict(na_first_bug=int(bool(nan_top) and nap == "first" and len(sizes) > 1),
                     all_na_partition=all_na,
                     presorted_na_bug=int(bool(nan_top) and sep),
                     cat_order_bug=int(bool(nonlex) and len(sizes) > 1))
        for nm, val in known.items():
            v = e.int(nm, 0, 1)
            e.assume(lambda: v == val)
        return sizes, rk, nan_top, nap, nonlex, known

    def run(e, sizes, rk, nan_top, nap, nonlex, known):
        N = len(rk)
        df = pd.DataFrame({"k": sort_keys(kind, rk, nan_top, nonlex), "k2": [(2 * i + 1) % 3 for i in range(N)], "x": range(N)})
        ddf = make_ddf(df, sizes)
        n = len(sizes)
        # na_first_bug was repaired in /repo; the other three regions are open known findings (known_findings.json): inside them the order
        # assertion is postponed to the end of the path, so that everything else is decided first
        open_region = bool(known["all_na_partition"] or known["presorted_na_bug"] or known["cat_order_bug"])
        order = not open_region
        o = _offset(sizes, rk)
        obs = []
        for ai, asc in enumerate((True, False)):
            if full:
                combos = [(a, b) for a in SORT_NP for b in SORT_METHODS]
            else:
                combos = [(SORT_NP[(o + ai + j) % 4], SORT_METHODS[(o // 4 + 2 * ai + j) % 4]) for j in range(1 if kind == "int" else 2)]
            for npo, (method, mb) in combos:
                pos_ = nap or ("last", "first")[(o + ai) % 2]
                opts = {} if mb is None else {"max_branch": mb}
                what = (f"sort_values('k', ascending={asc}, na_position={pos_!r}, npartitions={_np_opt(npo, n)}, shuffle_method={method!r}, max_branch={mb}) "
                        f"of partitions {sizes}, keys {list(df.k)}")
                try:
                    out = ddf.sort_values("k", ascending=asc, na_position=pos_, npartitions=_np_opt(npo, n), shuffle_method=method, **opts)
                    obs.append(_check_sorted(out, df, ["k"], asc, pos_, what, order))
                except Violation:
                    raise
                except Exception as ex:
                    raise Violation(f"{what}: {type(ex).__name__}: {ex}")
        if kind == "int":
            by = (["k", "k2"], ["k2", "k"])[o % 2]
            asc = ([True, False], [False, False], True, [False, True])[(o // 2) % 4]
            what = f"sort_values({by}, ascending={asc}) of partitions {sizes}, keys {list(zip(df.k, df.k2))}"
            try:
                out = ddf.sort_values(by, ascending=asc, npartitions=_np_opt(SORT_NP[o % 4], n))
                obs.append(_check_sorted(out, df, by, asc, "last", what))
            except Violation:
                raise
            except Exception as ex:
                raise Violation(f"{what}: {type(ex).__name__}: {ex}")
        if open_region:
            # last: the order assertion inside the open known-finding regions (reported as KNOWN-FINDING, never skipped silently)
            for asc in (True, False):
                pos_ = nap or "last"
                what = f"sort_values('k', ascending={asc}, na_position={pos_!r}) of partitions {sizes}, keys {list(df.k)}"
                try:
                    out = ddf.sort_values("k", ascending=asc, na_position=pos_)
                    _check_sorted(out, df, ["k"], asc, pos_, what, True)
                except Violation:
                    raise
                except Exception as ex:
                    raise Violation(f"{what}: {type(ex).__name__}: {ex}")
        return obs

    def e2e(model):
        if kind == "cat" and model.get("nonlexical_categories"):
            return
        seed = _seed(model)
        N = 17
        rk = [((seed + i) * (i + 3) + i * i) % 5 for i in range(N)]
        nan_top = kind == "float" and seed % 3 == 0
        # known regions (see setup): NaN keys with na_position='first'; here no input partition is all-NaN (every partition with rows has >= 2 ranks
        # or no top rank) unless the check below says so
        nap = "last" if nan_top else ("last", "first")[seed % 2]
        df = pd.DataFrame({"k": sort_keys(kind, rk, nan_top), "k2": [(i * i + seed) % 3 for i in range(N)], "x": range(N)})
        pos = 0
        for s_ in WITNESS_SIZES:
            blk = df.k.iloc[pos:pos + s_]
            pos += s_
            if s_ and blk.isna().all():
                return
        ddf = make_ddf(df, WITNESS_SIZES)
        asc = bool((seed // 2) % 2)
        npo = (None, 3, 7, 6)[(seed // 4) % 4]
        method, mb = SORT_METHODS[(seed // 16) % 4]
        opts = {} if mb is None else {"max_branch": mb}
        out = ddf.sort_values("k", ascending=asc, na_position=nap, npartitions=npo, shuffle_method=method, **opts)
        _check_sorted(out, df, ["k"], asc, nap, f"sort_values('k', ascending={asc}, na_position={nap!r}, npartitions={npo}, {method}, max_branch={mb}) of keys {list(df.k)} in partitions {WITNESS_SIZES}")

    return mk(f"sort_values_api[{kind},np<={maxnp},rows<={maxn}{',all-options' if full else ''}]", setup, run, e2e=e2e, every=9)


# ---------------------------------------------------------------------------
# (7) set_index through the public API


SETIX_NP = (None, 1, "n+1", 2)
SETIX_METHODS = ((None, None), ("tasks", 2), ("disk", None), ("tasks", None))


def _check_set_index(out, df, drop, what):
    frames = parts_of(out)
    got = pd.concat(frames) if frames else df.set_index("k", drop=drop)
    want = df.set_index("k", drop=drop).sort_index()
    if sorted(got["x"].tolist()) != list(range(len(df))):
        raise Violation(f"{what}: rows lost or duplicated: ids {sorted(got['x'].tolist())}")
    if list(got.index) != list(want.index):
        raise Violation(f"{what}: partitions hold index values {[list(f.index) for f in frames]}, pandas gives {list(want.index)}")
    if list(got.columns) != list(want.columns) or got.index.name != want.index.name:
        raise Violation(f"{what}: columns {list(got.columns)} / index name {got.index.name!r}, pandas {list(want.columns)} / {want.index.name!r}")
    keys = list(df["k"])
    for ix, x, k2 in zip(got.index, got["x"], got["k2"]):
        if keys[x] != ix or k2 != df["k2"].iloc[x]:
            raise Violation(f"{what}: row {x} carries index {ix!r}, its key is {keys[x]!r}")
    return [len(f) for f in frames]


def mk_set_index_api(maxnp, maxn, kind, full=False):
    def setup(e):
        sizes = structure(e, maxnp, maxn)
        rk = ranks(e, sum(sizes))
        return sizes, rk

    def run(e, sizes, rk):
        N = len(rk)
        df = pd.DataFrame({"k": sort_keys(kind, rk), "k2": [(2 * i + 1) % 3 for i in range(N)], "x": range(N)})
        ddf = make_ddf(df, sizes)
        n = len(sizes)
        o = _offset(sizes, rk)
        obs = []
        if full:
            combos = [(a, b, d) for a in SETIX_NP for b in SETIX_METHODS for d in (True, False)]
        else:
            combos = [(SETIX_NP[(o + j) % 4], SETIX_METHODS[(o // 4 + j) % 4], bool((o // 16 + j) % 2)) for j in range(2)]
        for npo, (method, mb), drop in combos:
            opts = {} if mb is None else {"max_branch": mb}
            what = f"set_index('k', drop={drop}, npartitions={_np_opt(npo, n)}, shuffle_method={method!r}, max_branch={mb}) of partitions {sizes}, keys {list(df.k)}"
            try:
                out = ddf.set_index("k", drop=drop, npartitions=_np_opt(npo, n), shuffle_method=method, **opts)
                obs.append(_check_set_index(out, df, drop, what))
            except Violation:
                raise
            except Exception as ex:
                raise Violation(f"{what}: {type(ex).__name__}: {ex}")
        if N:
            u = sorted(set(df.k))
            divs = sorted({u[0], u[(o // 3) % len(u)], u[-1]})
            if len(divs) == 1:
                divs = divs * 2
            what = f"set_index('k', divisions={divs}) of partitions {sizes}, keys {list(df.k)}"
            try:
                out = ddf.set_index("k", divisions=divs, shuffle_method=SETIX_METHODS[o % 4][0])
                obs.append(_check_set_index(out, df, True, what))
            except Violation:
                raise
            except Exception as ex:
                raise Violation(f"{what}: {type(ex).__name__}: {ex}")
        return obs

    def e2e(model):
        seed = _seed(model)
        N = 17
        rk = [((seed + i) * (i + 3) + i * i) % 5 for i in range(N)]
        df = pd.DataFrame({"k": sort_keys(kind, rk), "k2": [(i * i + seed) % 3 for i in range(N)], "x": range(N)})
        ddf = make_ddf(df, WITNESS_SIZES)
        npo = (None, 3, 7, 6)[(seed // 4) % 4]
        method, mb = SETIX_METHODS[(seed // 16) % 4]
        opts = {} if mb is None else {"max_branch": mb}
        drop = bool(seed % 2)
        out = ddf.set_index("k", drop=drop, npartitions=npo, shuffle_method=method, **opts)
        _check_set_index(out, df, drop, f"set_index('k', drop={drop}, npartitions={npo}, {method}, max_branch={mb}) of keys {list(df.k)} in partitions {WITNESS_SIZES}")

    return mk(f"set_index_api[{kind},np<={maxnp},rows<={maxn}{',all-options' if full else ''}]", setup, run, e2e=e2e, every=9)


# ---------------------------------------------------------------------------
# (8) drop_duplicates / unique / nunique through the public API


DD_SUBSET = (None, "k", ["k", "k2"], ["k2"])
DD_SPLIT_OUT = (True, 1, 2, "n+2")
DD_SPLIT_EVERY = (None, 2, False, 3)
DD_METHODS = (None, "tasks", "disk", "tasks")


def _check_dedup(e, frames, df, want, what, exact, subset):
    """exact: the kept rows must be pandas' rows; otherwise (known region) one row per distinct key"""
    got = pd.concat(frames) if frames else want.iloc[:0]
    ids = sorted(got["x"].tolist())
    if exact:
        e.check(ids == sorted(want["x"].tolist()), f"{what}: kept rows {ids}, pandas keeps {sorted(want['x'].tolist())}")
    else:
        cols = list(df.columns) if subset is None else ([subset] if isinstance(subset, str) else subset)
        gk = sorted(map(repr, _key_rows(got, cols)))
        wk = sorted(map(repr, _key_rows(want, cols)))
        e.check(gk == wk, f"{what}: distinct keys {gk}, pandas {wk}")
        e.check(len(set(ids)) == len(ids) and set(ids) <= set(range(len(df))), f"{what}: rows {ids} are not rows of the frame")
    for c in df.columns:
        e.check([canon(v) for v in got[c]] == [canon(df[c].iloc[x]) for x in got["x"]], f"{what}: values of column {c!r} changed")
    return ids if exact else len(ids)


def mk_dedup_api(maxnp, maxn, kind, full=False):
    def setup(e):
        sizes = structure(e, maxnp, maxn)
        lab = rgs(e, sum(sizes))
        # KNOWN REGION (dask behaviour contradicting the property text, reported): the disk shuffle does not keep the order of the rows, so
        # drop_duplicates(keep='first' / 'last', shuffle_method='disk') may keep another representative of a duplicated key than pandas.
        # dup_keys names the frames on which some call below sees duplicated keys (k2 repeats from the second row on); there, a call with
        # shuffle_method='disk' whose own subset has duplicates is only required to keep one row per distinct key.
        dup = int(len(lab) >= 2)
        v = e.int("dup_keys", 0, 1)
        e.assume(lambda: v == dup)
        return sizes, lab, dup

    def run(e, sizes, lab, dup):
        N = len(lab)
        df = pd.DataFrame({"k": key_series(kind, lab), "k2": [(i // 2) % 2 for i in range(N)], "x": range(N)})
        ddf = make_ddf(df, sizes)
        n = len(sizes)
        o = _offset(sizes, lab)
        obs = []

        def so(x):
            return n + 2 if x == "n+2" else x

        if full:
            combos = [(a, b, c, d, k) for a in DD_SUBSET for b in DD_SPLIT_OUT for c in DD_SPLIT_EVERY for d in DD_METHODS[:3] for k in ("first", "last")]
        else:
            combos = [(DD_SUBSET[(o + j) % 4], DD_SPLIT_OUT[(o // 4 + j) % 4], DD_SPLIT_EVERY[(o // 16 + 3 * j) % 4], DD_METHODS[(o // 64 + j) % 4],
                       ("first", "last")[(o // 3 + j) % 2]) for j in range(2)]
        for subset, spo, spe, method, keep in combos:
            ii = bool((o + len(obs)) % 2)
            what = (f"drop_duplicates(subset={subset!r}, keep={keep!r}, split_out={so(spo)}, split_every={spe}, shuffle_method={method!r}, ignore_index={ii}) "
                    f"of partitions {sizes}, rows {list(zip(df.k, df.k2))}")
            try:
                out = ddf.drop_duplicates(subset=subset, keep=keep, split_out=so(spo), split_every=spe, shuffle_method=method, ignore_index=ii)
                frames = parts_of(out)
            except Exception as ex:
                raise Violation(f"{what}: {type(ex).__name__}: {ex}")
            want = df.drop_duplicates(subset=subset, keep=keep)
            exact = not (method == "disk" and dup and len(want) < N)
            obs.append(_check_dedup(e, frames, df, want, what, exact, subset))
            if exact and not ii:
                got = pd.concat(frames)
                e.check(list(got.index) == list(got["x"]), f"{what}: index labels {list(got.index)} do not belong to the kept rows {list(got['x'])}")
        # rows that are duplicated as a whole: project the row id away
        spo, spe, method = DD_SPLIT_OUT[(o // 5) % 4], DD_SPLIT_EVERY[(o // 7) % 4], DD_METHODS[(o // 11) % 4]
        what = f"[['k','k2']].drop_duplicates(split_out={so(spo)}, split_every={spe}, shuffle_method={method!r}) of partitions {sizes}, rows {list(zip(df.k, df.k2))}"
        try:
            frames = parts_of(ddf[["k", "k2"]].drop_duplicates(split_out=so(spo), split_every=spe, shuffle_method=method))
        except Exception as ex:
            raise Violation(f"{what}: {type(ex).__name__}: {ex}")
        got = pd.concat(frames)
        want = df[["k", "k2"]].drop_duplicates()
        e.check(sorted(map(repr, _key_rows(got, ["k", "k2"]))) == sorted(map(repr, _key_rows(want, ["k", "k2"]))),
                f"{what}: {_key_rows(got, ['k', 'k2'])}, pandas {_key_rows(want, ['k', 'k2'])}")
        if not (method == "disk" and dup and len(want) < N):
            e.check(sorted(got.index) == sorted(want.index), f"{what}: kept index labels {sorted(got.index)}, pandas keeps {sorted(want.index)}")
        # Series.drop_duplicates / unique / nunique
        keep = ("first", "last")[o % 2]
        what = f"k.drop_duplicates(keep={keep!r}, split_out={so(spo)}, shuffle_method={method!r}) of partitions {sizes}, keys {list(df.k)}"
        try:
            frames = parts_of(ddf.k.drop_duplicates(keep=keep, split_out=so(spo), split_every=spe, shuffle_method=method))
        except Exception as ex:
            raise Violation(f"{what}: {type(ex).__name__}: {ex}")
        got = pd.concat(frames)
        want = df.k.drop_duplicates(keep=keep)
        e.check(sorted(map(repr, map(canon, got))) == sorted(map(repr, map(canon, want))), f"{what}: values {list(got)}, pandas {list(want)}")
        if not (method == "disk" and dup and len(want) < N):
            e.check(sorted(got.index) == sorted(want.index), f"{what}: kept index labels {sorted(got.index)}, pandas keeps {sorted(want.index)}")
        for j in range(2 if full else 1):
            spo, spe, method = DD_SPLIT_OUT[(o // 2 + j) % 4], DD_SPLIT_EVERY[(o // 3 + j) % 4], DD_METHODS[(o + 2 * j) % 4]
            what = f"k.unique(split_out={so(spo)}, split_every={spe}, shuffle_method={method!r}) of partitions {sizes}, keys {list(df.k)}"
            try:
                frames = parts_of(ddf.k.unique(split_out=so(spo), split_every=spe, shuffle_method=method))
            except Exception as ex:
                raise Violation(f"{what}: {type(ex).__name__}: {ex}")
            got = [canon(v) for f in frames for v in f]
            want = [canon(v) for v in df.k.unique()]
            e.check(sorted(map(repr, got)) == sorted(map(repr, want)), f"{what}: {got}, pandas {want}")
            obs.append(len(got))
            dropna = bool((o + j) % 2)
            what = f"k.nunique(dropna={dropna}, split_out={so(spo)}, split_every={spe}) of partitions {sizes}, keys {list(df.k)}"
            try:
                g = ddf.k.nunique(dropna=dropna, split_every=spe, split_out=so(spo)).compute(scheduler="sync")
                g2 = ddf.nunique(dropna=dropna, split_every=spe).compute(scheduler="sync") if (full or o % 3 == 0) else None
            except Exception as ex:
                raise Violation(f"{what}: {type(ex).__name__}: {ex}")
            e.check(int(g) == df.k.nunique(dropna=dropna), f"{what}: {g}, pandas {df.k.nunique(dropna=dropna)}")
            if g2 is not None:
                w2 = df.nunique(dropna=dropna)
                e.check(list(g2.index) == list(w2.index) and [int(v) for v in g2] == [int(v) for v in w2],
                        f"DataFrame.nunique(dropna={dropna}): {dict(g2)}, pandas {dict(w2)}")
            obs.append(int(g))
        return obs

    def e2e(model):
        df, sizes, seed = _witness_frame(kind, model)
        df = df.reset_index(drop=True)
        ddf = make_ddf(df, sizes)
        subset = DD_SUBSET[seed % 4]
        spo = (True, 1, 3, 9)[(seed // 4) % 4]
        spe = DD_SPLIT_EVERY[(seed // 16) % 4]
        method = (None, "tasks")[(seed // 64) % 2]
        keep = ("first", "last")[(seed // 128) % 2]
        got = pd.concat(parts_of(ddf.drop_duplicates(subset=subset, keep=keep, split_out=spo, split_every=spe, shuffle_method=method)))
        want = df.drop_duplicates(subset=subset, keep=keep)
        if sorted(got["x"]) != sorted(want["x"]):
            raise Violation(f"drop_duplicates(subset={subset!r}, keep={keep!r}, split_out={spo}, split_every={spe}, shuffle_method={method!r}) keeps rows "
                            f"{sorted(got['x'])}, pandas {sorted(want['x'])}; rows {list(zip(df.k, df.k2))} in partitions {sizes}")
        u = [canon(v) for f in parts_of(ddf.k.unique(split_out=spo, split_every=spe, shuffle_method="disk")) for v in f]
        if sorted(map(repr, u)) != sorted(map(repr, (canon(v) for v in df.k.unique()))):
            raise Violation(f"unique(split_out={spo}, shuffle_method='disk') = {u} for keys {list(df.k)}")
        if int(ddf.k.nunique(split_out=spo).compute(scheduler="sync")) != df.k.nunique():
            raise Violation(f"nunique(split_out={spo}) differs from pandas for keys {list(df.k)}")

    return mk(f"dedup_api[{kind},np<={maxnp},rows<={maxn}]", setup, run, e2e=e2e, every=9)


# ---------------------------------------------------------------------------


def obligations(tier):
    q = tier == "quick"
    obs = []
    if q:
        obs += [mk_routing(5, 7, (2, 3, 32), False), mk_routing(5, 7, (2, 3), True)]
        obs += [mk_routing_filtered(4, 2, 3), mk_routing_filtered(5, 3, 4)]
        obs += [mk_partitioning_index(), mk_duck_model(6, 3, 8)]
        obs += [mk_set_partitions_pre(3, 3, "int"), mk_set_partitions_pre(3, 3, "float"), mk_set_partitions_pre(2, 2, "str")]
        obs += [mk_shuffle_api(3, 3, "int"), mk_shuffle_api(2, 2, "float"), mk_shuffle_api(2, 2, "str"), mk_shuffle_api(2, 2, "cat")]
        obs += [mk_sort_api(3, 3, "int"), mk_sort_api(2, 3, "float"), mk_sort_api(2, 2, "str"), mk_sort_api(2, 3, "cat")]
        obs += [mk_set_index_api(3, 3, "int"), mk_set_index_api(2, 3, "str")]
        obs += [mk_dedup_api(3, 3, "int"), mk_dedup_api(2, 3, "float"), mk_dedup_api(2, 2, "str"), mk_dedup_api(2, 2, "cat")]
    else:
        obs += [mk_routing(10, 12, (2, 3, 4, 32), False), mk_routing(10, 12, (2, 3, 4), True)]
        obs += [mk_routing_filtered(4, 2, 3), mk_routing_filtered(5, 3, 4), mk_routing_filtered(8, 2, 5)]
        obs += [mk_partitioning_index(), mk_duck_model(9, 4, 12)]
        obs += [mk_set_partitions_pre(4, 4, k) for k in ("int", "float", "str")]
        obs += [mk_shuffle_api(4, 4, "int"), mk_shuffle_api(4, 3, "float"), mk_shuffle_api(4, 3, "str"), mk_shuffle_api(4, 3, "cat"), mk_shuffle_api(3, 3, "int", full=True)]
        obs += [mk_sort_api(3, 4, "int"), mk_sort_api(3, 3, "float"), mk_sort_api(3, 3, "str"), mk_sort_api(3, 3, "cat"), mk_sort_api(2, 3, "int", full=True)]
        obs += [mk_set_index_api(3, 4, "int"), mk_set_index_api(3, 3, "str"), mk_set_index_api(2, 3, "int", full=True)]
        obs += [mk_dedup_api(3, 4, "int"), mk_dedup_api(3, 3, "float"), mk_dedup_api(3, 3, "str"), mk_dedup_api(3, 3, "cat")]
    return obs
