"""CrossHair contracts for C18 (free-form strings; bug-hunt unless 'Confirmed')."""
from dask.utils import parse_bytes, parse_timedelta, key_split, natural_sort_key


def _pb_ok(s: str) -> bool:
    try:
        r = parse_bytes(s)
    except ValueError:
        return True
    return isinstance(r, int)


def c_parse_bytes_total(s: str) -> bool:
    """
    pre: len(s) <= 4
    post: _
    """
    return _pb_ok(s)


def t_parse_bytes_total(s: str) -> bool:
    """
    pre: len(s) <= 4
    post: not _
    """
    return _pb_ok(s)


def _ks_ok(s: str) -> bool:
    r = key_split.__wrapped__(s)
    return isinstance(r, str)


def c_key_split_total(s: str) -> bool:
    """
    pre: len(s) <= 5
    post: _
    """
    return _ks_ok(s)


def t_key_split_total(s: str) -> bool:
    """
    pre: len(s) <= 5
    post: not _
    """
    return _ks_ok(s)


def _nsk_ok(s: str) -> bool:
    r = natural_sort_key(s)
    if not isinstance(r, list) or not all(isinstance(p, (str, int)) for p in r):
        return False
    return "".join(str(p) if isinstance(p, str) else "" for p in r) == "".join(ch for ch in s if not (ch.isdecimal()))


def c_natural_sort_key_total(s: str) -> bool:
    """
    pre: len(s) <= 4
    post: _
    """
    return _nsk_ok(s)


def t_natural_sort_key_total(s: str) -> bool:
    """
    pre: len(s) <= 4
    post: not _
    """
    return _nsk_ok(s)
