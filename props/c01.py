"""C01 -- local schedulers compute exactly the values the task graph denotes"""
from __future__ import annotations

from symx.core import Violation
from symx.run import Obligation
from props import sched as SC

PROPERTY = "C01"
LEVEL = "other"
BUDGET = {"quick": 200, "thorough": 2400}
CHUNK_PATHS = 150

EXPLANATION = (
    "Bounded symbolic execution of the real dask.local.get_async loop with a symbolic num_workers, enumerated "
    "chunksize in {-1,1,2,3,4}, solver-chosen completion order of pending batches and solver-enumerated graphs "
    "(all DAG shapes of N nodes over the node kinds Task/DataNode/Alias/legacy tuple/List argument/legacy list, all "
    "requested-key subsets incl. the empty one and nestings: flat, list-first, key-first heterogeneous; tasks returning None). Assertion: the returned structure equals an independent recursive "
    "evaluation of the graph (z3 equality over symbolic leaf values), no exception, and the scheduler never blocks "
    "with nothing pending. The decision tree is exhausted; each path is replayed natively and its witness is "
    "re-run on dask.get, dask.threaded.get and a ThreadPoolExecutor-backed get_async (e2e).")
ASSUMPTIONS = SC.SCHED_ASSUMPTIONS
STUBS = SC.SCHED_STUBS
ENUM = ["graph shape bits, node kinds, requested subset/nesting, chunksize, completion picks"]
OUTSIDE = ["multiprocessing scheduler (real processes, pickling)", "graphs with more than N nodes",
           "OS-produced thread interleavings inside a batch (task bodies are pure)"]
BOUNDS = {
    "quick": dict(N="<=2 nodes (all six kinds), 3 nodes (kinds {Task,DataNode,Alias} and {legacy,List arg,legacy list})", num_workers="symbolic, >= 1 (no upper bound)",
                  chunksize=list(SC.CHUNKSIZES)),
    "thorough": dict(N="<=3 nodes (all six kinds), 4 nodes (kinds {Task,DataNode,Alias} and {Task,legacy list,List arg})", num_workers="symbolic, >= 1 (no upper bound)", chunksize=list(SC.CHUNKSIZES)),
}


# request shapes: the small graphs get every nesting and the empty request; the largest quick graphs only scalar/flat and list-first
REQ = {False: dict(), True: dict(allow_empty=False, shapes=(0, 2))}


def functions():
    return SC.sched_functions()


def mk(N, kinds, chunks=SC.CHUNKSIZES, nw_hi=None, tag="", small=False):
    def setup(e):
        spec = SC.gen_graph(e, N, kinds)
        want, shape = SC.gen_request(e, N, **REQ[small])
        nw = e.int("num_workers", 1, nw_hi)
        cs = e.pick("chunksize", chunks)
        return spec, want, shape, nw, cs

    def run(e, spec, want, shape, nw, cs):
        log = []
        dsk = SC.build(spec, log, {})
        keys, pack = SC.request_keys(want, shape)
        res = SC.run_scheduler(e, dsk, keys, nw, cs, log)
        exp = pack([SC.ref_value(spec, j) for j in want])
        e.check(lambda: e.equal(res, exp), "scheduler result differs from direct evaluation of the graph")
        return res

    def e2e(model):
        import dask, dask.threaded
        from concurrent.futures import ThreadPoolExecutor
        from symx.core import NativeEngine
        import dask.local as L
        for which in ("sync", "threaded", "executor"):
            ne = NativeEngine(model)
            spec = SC.gen_graph(ne, N, kinds)
            want, shape = SC.gen_request(ne, N, **REQ[small])
            nw = ne.int("num_workers", 1, nw_hi)
            cs = ne.pick("chunksize", chunks)
            log = []
            dsk = SC.build(spec, log, {})
            keys, pack = SC.request_keys(want, shape)
            exp = pack([SC.ref_value(spec, j) for j in want])
            nwc = min(nw, 4)
            if which == "sync":
                res = dask.get(dsk, keys)
            elif which == "threaded":
                res = dask.threaded.get(dsk, keys, num_workers=nwc, chunksize=cs)
            else:
                with ThreadPoolExecutor(nwc) as ex:
                    res = L.get_async(ex.submit, nwc, dsk, keys, chunksize=cs)
            if res != exp:
                raise Violation(f"{which} scheduler: {res!r} != {exp!r} for graph {dsk!r} keys {keys!r}")

    return Obligation(f"values[N={N},kinds={'+'.join(kinds)}{tag}{',fewshapes' if small else ''}]", setup, run, e2e=e2e, e2e_every=40)


def obligations(tier):
    A, B = ("task", "data", "alias"), ("legacy", "listarg", "legacylist")
    if tier == "quick":
        return [mk(1, SC.ALL_KINDS), mk(2, SC.ALL_KINDS), mk(3, A, small=True), mk(3, B, small=True), mk(3, SC.NONE_KINDS, small=True)]
    return [mk(1, SC.ALL_KINDS), mk(2, SC.ALL_KINDS), mk(3, SC.ALL_KINDS), mk(3, SC.NONE_KINDS), mk(4, A), mk(4, ("task", "legacylist", "listarg"))]


_WITNESS = r'''
import sys, threading
sys.path.insert(0, sys.argv[1])
import dask, dask.threaded
from dask.system import CPU_COUNT
assert dask.__file__.startswith(sys.argv[1]), dask.__file__
n = max(2, CPU_COUNT)
barrier = threading.Barrier(n)
def inner(i):
    try:
        barrier.wait(timeout=15)
    except threading.BrokenBarrierError:
        pass
    return dask.threaded.get({"a": (lambda: i,), "b": (lambda x: x + 1, "a")}, "b")
dsk = {("o", i): (inner, i) for i in range(n)}
dsk["s"] = (sum, [("o", i) for i in range(n)])
v = dask.threaded.get(dsk, "s")
want = sum(i + 1 for i in range(n))
print("RESULT", v, want)
sys.exit(0 if v == want else 3)
'''


def _nested_threaded_witness(timeout=60):
    """one real-thread witness (not a solver claim): tasks of a threaded-scheduler call that themselves call the threaded scheduler must
    not starve each other -- CPU_COUNT outer tasks are all inside their nested call at the same time (barrier) and the whole thing
    must return the right value within the time limit.  Runs in a child process so that a deadlock can be killed."""
    import os
    import subprocess
    import sys
    repo = os.environ.get("VERIF_REPO", "/repo")
    try:
        p = subprocess.run([sys.executable, "-c", _WITNESS, repo], capture_output=True, text=True, timeout=timeout)
    except subprocess.TimeoutExpired:
        return False, f"dask.threaded.get whose tasks each call dask.threaded.get did not return within {timeout} s (pool starvation / deadlock)"
    if p.returncode == 0:
        return True, "ok"
    return False, f"nested threaded get failed: exit {p.returncode}: {(p.stdout + p.stderr)[-300:]}"


def extra(tier, known, seed):
    ok, msg = _nested_threaded_witness()
    ex = dict(violations=[], known=[], errors=[], obligations=1, discharged=0, inconclusive=[], samples=[], evaluations=1, distinct_nontrivial=0,
              solver_s=0.0, coverage=dict(nested_threaded_witness=msg if not ok else "ok", role="real-thread witness, not a solver claim"))
    if ok:
        ex["discharged"] = 1
        ex["samples"].append(dict(witness="nested dask.threaded.get from CPU_COUNT worker threads", result="ok"))
    else:
        ex["violations"].append(dict(obligation="nested_threaded_get", model={}, msg=msg, kind="witness"))
    return ex


def replay(rec):
    ok, msg = _nested_threaded_witness()
    return ok, msg
