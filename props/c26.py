"""C26 -- overlap computations match the unchunked stencil.

Kernels: dask.array.overlap.ensure_minimum_chunksize, _overlap_internal_chunks, coerce_depth, _trim,
trim_internal (chunk arithmetic), dask.layers.ArrayOverlapLayer._construct_graph, _expand_keys_around_center,
fractional_slice.
"""
from __future__ import annotations

import itertools
import operator
import types

import numpy as np

from symx.core import SInt, Violation, HarnessError
from symx.patch import py_indices, slice_len, patched, INT_SHIM
from symx.run import Obligation

import dask
import dask.array as da
import dask.array.overlap as OV
import dask.layers as L
from dask.array.core import concatenate_shaped

PROPERTY = "C26"
LEVEL = "other"
BUDGET = {"quick": 150, "thorough": 1500}
EXPLANATION = (
    "Bounded symbolic execution of the overlap index arithmetic with symbolic chunk sizes and symbolic (asymmetric) depths. "
    "(1) ensure_minimum_chunksize(size, chunks): sum preserved, every returned chunk >= size, ValueError exactly when the whole axis is "
    "shorter than size. (2) The real ArrayOverlapLayer graph (_expand_keys_around_center, fractional_slice) is built for 1-d and 2-d block "
    "grids with symbolic chunk sizes and depths <= the smallest chunk (what overlap() guarantees after rechunking); every overlapped block "
    "is evaluated as intervals: its pieces are contiguous, in order, and cover exactly [block_start - left_depth, block_end + right_depth) "
    "clipped at the array ends; the lazy chunk sizes from _overlap_internal_chunks equal the lengths of those pieces. (3) _trim run on "
    "a recording block for every block position and boundary kind: the slice it takes, read with Python slice semantics, cuts the "
    "overlapped block back to exactly the original block extent, so overlap followed by trim is the identity pointwise; trim_internal's "
    "lazy chunks equal the original chunks. (4) coerce_depth for int / tuple / dict depths. Every path model is replayed natively and "
    "e2e: trim_internal(overlap(x)) == x and map_overlap(stencil of radius <= depth) against pad-apply-trim with NumPy for "
    "boundary in {none, periodic, reflect, nearest, constant}.")
ASSUMPTIONS = [
    "NumPy basic slicing of a block follows PySlice_AdjustIndices (transcribed, validated natively per path model)",
    "concatenate_shaped places its pieces in row-major order of the given grid shape (checked by the e2e witnesses)",
    "depth <= smallest chunk along the axis: overlap() establishes this by rechunking with ensure_minimum_chunksize (obligation 1) before it builds the layer",
]
STUBS = ["str()/format() of a symbolic int returns a placeholder in ensure_minimum_chunksize (only its error message formats numbers)", "dask.array.overlap.int -> ShimInt (coerce_depth_type)", "dask.array.overlap.map_blocks -> recorder (trim_internal's chunks= argument)",
         "recording block object for _trim"]
ENUM = ["number of blocks per axis, depth kind (int / tuple), boundary kind", "every input of the sliding_window_view obligations"]
OUTSIDE = ["boundary value generation (periodic/reflect/nearest/constant: NumPy-level slicing and concatenation; only e2e witnesses)",
           "sliding_window_view beyond the solver-enumerated sizes (its per-block work is NumPy's: no symbolic claim)", "more than 3 blocks per axis, more than 2 dimensions"]
BOUNDS = {
    "quick": dict(min_chunksize="<=3 chunks, sizes >= 0 unbounded, size >= 0 unbounded", layer="1-d: 1..3 blocks; 2-d: 2x2 blocks; chunk sizes >= 1 unbounded; depths >= 0 unbounded (<= min chunk)"),
    "thorough": dict(min_chunksize="<=5 chunks", layer="1-d: 1..4 blocks; 2-d: up to 3x2 blocks"),
}


def functions():
    return [OV.ensure_minimum_chunksize, OV._overlap_internal_chunks, OV.coerce_depth, OV.coerce_depth_type, OV._trim, OV.trim_internal,
            L.ArrayOverlapLayer._construct_graph, L._expand_keys_around_center, L.fractional_slice]


def _patches():
    return patched((OV, "int", INT_SHIM))


# ---------------------------------------------------------------- (1)

def mk_min_chunksize(n):
    def setup(e):
        e.opaque_str = True     # the ValueError message formats `size`; its text is not part of the property
        size = e.int("size", 0)
        chunks = tuple(e.int(f"c{i}", 0) for i in range(n))
        return size, chunks

    def run(e, size, chunks):
        tot = 0
        for c in chunks:
            tot = tot + c
        try:
            out = OV.ensure_minimum_chunksize(size, chunks)
        except ValueError:
            e.check(lambda: tot < size, "ValueError although the axis is at least `size` long")
            return "ValueError"
        s = 0
        for c in out:
            s = s + c
            e.check(lambda: c >= size, "a returned chunk is smaller than the requested minimum")
        e.check(lambda: s == tot, "chunks do not add up to the axis length any more")
        return list(out)

    def e2e(model):
        size = model["size"] % 7
        chunks = tuple(model[f"c{i}"] % 6 + 1 for i in range(n))
        if size > sum(chunks):
            return
        x = np.arange(sum(chunks))
        d = da.from_array(x, chunks=(chunks,))
        g = da.overlap.overlap(d, depth={0: size}, boundary={0: "none"})
        t = da.overlap.trim_internal(g, {0: size})
        if not np.array_equal(t.compute(scheduler="sync"), x):
            raise Violation(f"trim_internal(overlap(x)) != x for chunks={chunks} depth={size}")

    return Obligation(f"ensure_minimum_chunksize[n={n}]", setup, run, e2e=e2e, e2e_every=9)


# ---------------------------------------------------------------- (2)+(3)

class RecBlock:
    def __init__(self, ndim):
        self.ndim = ndim
        self.ind = None

    def __getitem__(self, ind):
        self.ind = ind
        return self


def _starts(chunks):
    out = [0]
    for c in chunks:
        out.append(out[-1] + c)
    return out


def _piece_interval(e, dsk, key, chunks_all, name):
    """per-axis [lo, hi) intervals (global coordinates) of one piece of an overlapped block"""
    v = dsk[key]
    if isinstance(v, tuple) and v and v[0] is operator.getitem:
        _, src, index = v
    else:
        src, index = v, None
    if src[0] != name:
        raise Violation(f"piece reads {src!r}")
    out = []
    for a, b in enumerate(src[1:]):
        ch = chunks_all[a]
        st = _starts(ch)
        if not (isinstance(b, int) and 0 <= b < len(ch)):
            raise Violation(f"piece reads non-existent block {src!r}")
        if index is None:
            out.append((st[b], st[b + 1]))
        else:
            sl = index[a]
            lo, hi, step = py_indices(sl, ch[b])
            if step != 1:
                raise Violation("piece slice with a step")
            n = slice_len(lo, hi, step)
            out.append((st[b] + lo, st[b] + lo + n))
    return out


def mk_layer(nblocks, kinds):
    """nblocks: blocks per axis; kinds: per axis 'int' | 'tuple' | 'zero'"""
    nd = len(nblocks)

    def setup(e):
        chunks = tuple(tuple(e.int(f"c{a}_{i}", 1) for i in range(n)) for a, n in enumerate(nblocks))
        axes = {}
        for a in range(nd):
            if kinds[a] == "zero":
                axes[a] = 0
                continue
            if kinds[a] == "int":
                d = e.int(f"d{a}", 0)
                dd = (d, d)
                axes[a] = d
            else:
                l, r = e.int(f"l{a}", 0), e.int(f"r{a}", 0)
                dd = (l, r)
                axes[a] = dd
            for c in chunks[a]:
                e.assume(lambda: (dd[0] <= c) & (dd[1] <= c))
        return chunks, axes

    def run(e, chunks, axes):
        layer = L.ArrayOverlapLayer(name="x", axes=axes, chunks=chunks, numblocks=tuple(nblocks), token="t")
        dsk = layer._construct_graph()
        lazy = OV._overlap_internal_chunks(chunks, axes)
        summary = []
        for idx in itertools.product(*[range(n) for n in nblocks]):
            t = dsk.get(("overlap-t",) + idx)
            e.check(t is not None, f"no overlapped block for {idx}")
            e.check(t[0] is concatenate_shaped, "overlapped block is not a concatenate_shaped task")
            keys, shape = t[1], t[2]
            e.check(len(keys) == int(np.prod(shape)), "piece grid has the wrong number of pieces")
            grid = {}
            for pos, k in zip(itertools.product(*[range(s) for s in shape]), keys):
                grid[pos] = _piece_interval(e, dsk, k, chunks, "x")
            for a in range(nd):
                st = _starts(chunks[a])
                dep = axes[a] if isinstance(axes[a], tuple) else (axes[a], axes[a])
                want_lo = st[idx[a]] - (dep[0] if idx[a] > 0 else 0)
                want_hi = st[idx[a] + 1] + (dep[1] if idx[a] < nblocks[a] - 1 else 0)
                # pieces along axis a: contiguous, in order; all pieces at the same grid coordinate agree
                cur = want_lo
                for g in range(shape[a]):
                    ivs = [iv[a] for pos, iv in grid.items() if pos[a] == g]
                    lo0, hi0 = ivs[0]
                    for lo, hi in ivs[1:]:
                        e.check(lambda: (lo == lo0) & (hi == hi0), "pieces of one grid row/column disagree on their extent")
                    e.check(lambda: lo0 == cur, "gap, overlap or wrong order between the pieces of an overlapped block")
                    cur = hi0
                e.check(lambda: cur == want_hi, "overlapped block does not reach block_end + depth")
                e.check(lambda: lazy[a][idx[a]] == want_hi - want_lo, "lazy chunk size of the overlapped array differs from the pieces' total length")
                # trim: boundary 'none'
                size = want_hi - want_lo
                for bkind in ("none", "reflect"):
                    if bkind == "none":
                        blk_lo, blk_size = want_lo, size
                    else:
                        if isinstance(axes[a], tuple):
                            continue        # asymmetric depth is only implemented for boundary='none'
                        # with a boundary every block (also first / last) carries depth on both sides
                        blk_lo, blk_size = st[idx[a]] - dep[0], chunks[a][idx[a]] + dep[0] + dep[1]
                    rec = RecBlock(nd)
                    OV._trim(rec, axes=axes, boundary={i: (bkind if i == a else "none") for i in range(nd)},
                             _overlap_trim_info=(idx, tuple(nblocks)))
                    sl = rec.ind[a]
                    lo, hi, step = py_indices(sl, blk_size)
                    e.check(step == 1, "trim slice has a step")
                    n = slice_len(lo, hi, step)
                    e.check(lambda: (blk_lo + lo == st[idx[a]]) & (n == chunks[a][idx[a]]),
                            f"trimming (boundary={bkind}) does not cut the overlapped block back to the original block")
            summary.append([lazy[a][idx[a]] for a in range(nd)])
        # trim_internal's lazy chunk arithmetic
        for bkind in ("none", "periodic"):
            if bkind != "none" and any(isinstance(v, tuple) for v in axes.values()):
                continue
            if bkind == "none":
                och = tuple(tuple(c for c in ax) for ax in lazy)
            else:
                och = tuple(tuple(c + 2 * (axes[a] if not isinstance(axes[a], tuple) else 0) for c in chunks[a]) for a in range(nd))
            cap = {}

            def fake_map_blocks(f, x, chunks=None, dtype=None, meta=None):
                cap["chunks"] = chunks
                return None

            fake = types.SimpleNamespace(chunks=och, ndim=nd, dtype=np.dtype("i8"), _meta=np.empty((0,) * nd))
            with patched((OV, "map_blocks", fake_map_blocks)):
                OV.trim_internal(fake, dict(axes), boundary=bkind)
            got = cap["chunks"]
            for a in range(nd):
                for i in range(nblocks[a]):
                    e.check(lambda: got[a][i] == chunks[a][i], f"trim_internal (boundary={bkind}) declares chunks that differ from the original ones")
        return summary

    def e2e(model):
        chunks = tuple(tuple((model[f"c{a}_{i}"] - 1) % 4 + 1 for i in range(n)) for a, n in enumerate(nblocks))
        depth = {}
        for a in range(nd):
            m = min(chunks[a])
            if kinds[a] == "zero":
                depth[a] = 0
            elif kinds[a] == "int":
                depth[a] = model[f"d{a}"] % (m + 1)
            else:
                depth[a] = (model[f"l{a}"] % (m + 1), model[f"r{a}"] % (m + 1))
        _e2e(chunks, depth)

    return Obligation(f"layer[blocks={list(nblocks)},depth={list(kinds)}]", setup, run, patches=_patches, e2e=e2e, e2e_every=5)


NP_MODE = {"periodic": "wrap", "reflect": "symmetric", "nearest": "edge"}


def _stencil(radius):
    """sum over the (2r+1)^nd window, zero outside the block: local, so block edges only affect the outermost `radius` cells"""
    def f(b):
        out = np.zeros_like(b)
        nd = b.ndim
        for shift in itertools.product(*[range(-r, r + 1) for r in radius]):
            src = []
            dst = []
            ok = True
            for a, s in enumerate(shift):
                n = b.shape[a]
                if abs(s) >= n and n > 0 and s != 0:
                    ok = False
                    break
                if s >= 0:
                    src.append(slice(s, n))
                    dst.append(slice(0, n - s))
                else:
                    src.append(slice(0, n + s))
                    dst.append(slice(-s, n))
            if ok:
                out[tuple(dst)] += b[tuple(src)]
        return out
    return f


def _e2e(chunks, depth):
    shape = tuple(sum(c) for c in chunks)
    nd = len(shape)
    x = (np.arange(int(np.prod(shape))).reshape(shape) * 7 + 3) % 23
    d = da.from_array(x, chunks=chunks)
    g = da.overlap.overlap(d, depth=dict(depth), boundary={a: "none" for a in range(nd)})
    t = da.overlap.trim_internal(g, dict(depth))
    if t.chunks != d.chunks:
        raise Violation(f"trim_internal(overlap(x)).chunks = {t.chunks}, original {d.chunks}")
    if not np.array_equal(t.compute(scheduler="sync"), x):
        raise Violation(f"trim_internal(overlap(x)) != x: chunks={chunks} depth={depth}")
    # each overlapped block has the lazily declared shape
    for idx in itertools.product(*[range(len(c)) for c in g.chunks]):
        blk = g.blocks[idx].compute(scheduler="sync")
        if blk.shape != tuple(g.chunks[a][i] for a, i in enumerate(idx)):
            raise Violation(f"overlapped block {idx} has shape {blk.shape}, chunks say {g.chunks}")
    sym = all(not isinstance(v, tuple) for v in depth.values())
    radius = tuple((min(v) if isinstance(v, tuple) else v) for v in (depth[a] for a in range(nd)))
    f = _stencil(radius)
    got = da.map_overlap(f, d, depth=dict(depth), boundary="none", dtype=x.dtype).compute(scheduler="sync")
    if not np.array_equal(got, f(x)):
        raise Violation(f"map_overlap(boundary='none') differs from the unchunked stencil: chunks={chunks} depth={depth}")
    if sym:
        for kind in ("periodic", "reflect", "nearest", 5):
            if any(depth[a] > shape[a] for a in range(nd)):
                continue
            pad = [(depth[a], depth[a]) for a in range(nd)]
            if kind == 5:
                px = np.pad(x, pad, mode="constant", constant_values=5)
            else:
                px = np.pad(x, pad, mode=NP_MODE[kind])
            ref = f(px)[tuple(slice(depth[a], depth[a] + shape[a]) for a in range(nd))]
            got = da.map_overlap(f, d, depth=dict(depth), boundary=kind, dtype=x.dtype).compute(scheduler="sync")
            if got.shape != x.shape or not np.array_equal(got, ref):
                raise Violation(f"map_overlap(boundary={kind!r}) differs from pad-apply-trim: chunks={chunks} depth={depth}")
            g2 = da.overlap.overlap(d, depth=dict(depth), boundary=kind)
            t2 = da.overlap.trim_internal(g2, dict(depth), boundary=kind)
            if not np.array_equal(t2.compute(scheduler="sync"), x):
                raise Violation(f"trim_internal(overlap(x, boundary={kind!r})) != x: chunks={chunks} depth={depth}")


# ---------------------------------------------------------------- (4)

def mk_coerce():
    def setup(e):
        ndim = e.choice("ndim", 3) + 1
        kind = e.pick("kind", ["int", "tuple", "dict", "dict_partial", "asym"])
        vals = [e.int(f"v{i}", 0) for i in range(ndim)]
        w = e.int("w", 0)
        return ndim, kind, vals, w

    def run(e, ndim, kind, vals, w):
        if kind == "int":
            depth, want = vals[0], {i: vals[0] for i in range(ndim)}
        elif kind == "tuple":
            depth, want = tuple(vals), dict(enumerate(vals))
        elif kind == "dict":
            depth, want = dict(enumerate(vals)), dict(enumerate(vals))
        elif kind == "dict_partial":
            depth, want = {0: vals[0]}, {i: (vals[0] if i == 0 else 0) for i in range(ndim)}
        else:
            depth = {i: ((vals[i], w) if i == 0 else vals[i]) for i in range(ndim)}
            want = dict(depth)
        got = OV.coerce_depth(ndim, depth)
        e.check(sorted(got) == list(range(ndim)), "coerce_depth does not cover every axis")
        for i in range(ndim):
            e.check(lambda: e.equal(got[i], want[i]), "coerce_depth changed a depth")
        return sorted(got)

    return Obligation("coerce_depth", setup, run, patches=_patches)


def mk_sliding(nchunks, maxc, maxw):
    """sliding_window_view against NumPy: its chunk handling (ensure_minimum_chunksize(window, ...), overlap depth window-1, per-block view) is
    driven through the public function; sizes are concretised when the array is built (solver-enumerated)."""
    import operator

    def setup(e):
        chunks = tuple(e.int(f"c{i}", 1, maxc) for i in range(nchunks))
        w = e.int("w", 1, maxw)
        tot = chunks[0]
        for c in chunks[1:]:
            tot = tot + c
        e.assume(lambda: w <= tot)
        auto = e.flag("automatic_rechunk")
        return chunks, w, auto

    def run(e, chunks, w, auto):
        chunks = tuple(operator.index(c) for c in chunks)
        w = operator.index(w)
        n = sum(chunks)
        x = np.arange(n) * 3 + 1
        d = da.from_array(x, chunks=(chunks,))
        want = np.lib.stride_tricks.sliding_window_view(x, w)
        r = da.lib.stride_tricks.sliding_window_view(d, w, automatic_rechunk=auto) if hasattr(da, "lib") else OV.sliding_window_view(d, w, automatic_rechunk=auto)
        e.check(r.shape == want.shape, f"lazy shape {r.shape} != NumPy {want.shape}")
        got = r.compute(scheduler="sync")
        e.check(got.shape == want.shape and bool((got == want).all()), f"sliding_window_view(window={w}) with chunks {chunks} differs from NumPy")
        e.check(tuple(sum(c) for c in r.chunks) == want.shape, "lazy chunks do not add up to the shape")
        # 2-d: window along axis 0 of a (n, 2) array
        x2 = np.arange(2 * n).reshape(n, 2)
        d2 = da.from_array(x2, chunks=(chunks, (1, 1)))
        want2 = np.lib.stride_tricks.sliding_window_view(x2, w, axis=0)
        got2 = OV.sliding_window_view(d2, w, axis=0, automatic_rechunk=auto).compute(scheduler="sync")
        e.check(got2.shape == want2.shape and bool((got2 == want2).all()), f"2-d sliding_window_view(window={w}, axis=0) with chunks {chunks} differs from NumPy")
        return list(got.shape)

    return Obligation(f"sliding_window_view[chunks={nchunks},c<={maxc},w<={maxw}]", setup, run)


def mk_depth_spellings(maxc, maxd):
    """the public overlap / trim_internal / map_overlap on a 2-d array with every SPELLING of the same depths (int, tuple, dict with keys in
    ascending or descending order, dict that leaves an axis out) and chunks that may be smaller than the depth (rechunk-to-fit path):
    lazy shape == computed shape, overlap followed by trim is the identity, map_overlap of a neighbour sum equals the NumPy stencil on
    the padded array. Sizes reach NumPy: solver-enumerated."""

    def setup(e):
        c0 = (e.int("a0", 1, maxc), e.int("a1", 1, maxc))
        c1 = (e.int("b0", 1, maxc), e.int("b1", 1, maxc), e.int("b2", 1, maxc))
        d0 = e.int("d0", 0, maxd)
        d1 = e.int("d1", 0, maxd)
        spelling = e.pick("spelling", ("tuple", "dict_ascending", "dict_descending", "dict_only_axis0", "dict_only_axis1", "int"))
        boundary = e.pick("boundary", ("none", "reflect", "periodic", 0))
        return c0, c1, d0, d1, spelling, boundary

    def run(e, c0, c1, d0, d1, spelling, boundary):
        c0 = tuple(operator.index(c) for c in c0)
        c1 = tuple(operator.index(c) for c in c1)
        d0, d1 = operator.index(d0), operator.index(d1)
        if spelling == "dict_only_axis0":
            d1 = 0
        elif spelling == "dict_only_axis1":
            d0 = 0
        elif spelling == "int":
            d1 = d0
        if d0 > sum(c0) or d1 > sum(c1):
            return "depth larger than the axis (documented ValueError)"
        depth = {"tuple": (d0, d1), "dict_ascending": {0: d0, 1: d1}, "dict_descending": {1: d1, 0: d0}, "dict_only_axis0": {0: d0},
                 "dict_only_axis1": {1: d1}, "int": d0}[spelling]
        x = np.arange(sum(c0) * sum(c1)).reshape(sum(c0), sum(c1)) * 2 + 1
        d = da.from_array(x, chunks=(c0, c1))
        what = f"chunks {c0} x {c1}, depth {depth!r}, boundary {boundary!r}"
        g = OV.overlap(d, depth=depth, boundary=boundary)
        gv = g.compute(scheduler="sync")
        e.check(gv.shape == g.shape, f"overlap: lazy shape {g.shape} but computed shape {gv.shape} ({what})")
        back = OV.trim_internal(g, OV.coerce_depth(2, depth), boundary)
        bv = back.compute(scheduler="sync")
        e.check(bv.shape == x.shape and bool((bv == x).all()), f"overlap followed by trim is not the identity ({what})")

        def stencil(b):
            out = b.copy()
            if d0:
                out[1:] += b[:-1]
            if d1:
                out[:, :-1] += b[:, 1:] * 3
            return out

        mode = {"none": None, "reflect": "symmetric", "periodic": "wrap", 0: "constant"}[boundary]
        if mode is None:
            return gv.shape
        padded = np.pad(x, ((d0, d0), (d1, d1)), mode=mode)
        want = stencil(padded)[d0:padded.shape[0] - d0, d1:padded.shape[1] - d1]
        r = da.map_overlap(stencil, d, depth=depth, boundary=boundary, dtype=x.dtype)
        rv = r.compute(scheduler="sync")
        e.check(rv.shape == want.shape and bool((rv == want).all()), f"map_overlap differs from the stencil on the padded array ({what})")
        e.check(r.shape == want.shape, f"map_overlap: lazy shape {r.shape} != {want.shape} ({what})")
        return gv.shape

    return Obligation(f"depth_spellings[2x3 blocks,c<={maxc},depth<={maxd}]", setup, run)


def obligations(tier):
    obs = []
    if tier == "quick":
        obs += [mk_min_chunksize(n) for n in (1, 2, 3)]
        for n in (1, 2, 3):
            for k in ("int", "tuple"):
                obs.append(mk_layer((n,), (k,)))
        obs.append(mk_layer((2, 2), ("int", "tuple")))
        obs.append(mk_layer((2, 2), ("zero", "int")))
        obs += [mk_sliding(2, 4, 5), mk_sliding(3, 3, 4), mk_depth_spellings(2, 2)]
    else:
        obs += [mk_sliding(2, 6, 7), mk_sliding(3, 4, 6), mk_sliding(4, 3, 5), mk_depth_spellings(2, 4)]
        obs += [mk_min_chunksize(n) for n in (1, 2, 3, 4, 5)]
        for n in (1, 2, 3, 4):
            for k in ("int", "tuple"):
                obs.append(mk_layer((n,), (k,)))
        for nb in ((2, 2), (3, 2), (2, 3)):
            for ks in (("int", "tuple"), ("tuple", "int"), ("zero", "int"), ("int", "int"), ("tuple", "tuple")):
                obs.append(mk_layer(nb, ks))
    obs.append(mk_coerce())
    return obs
