"""C11 -- equal task nodes compute equal values.

Kernels: dask._task_spec.GraphNode.__eq__, Task.__hash__ / _get_token / __dask_tokenize__, NestedContainer.__dask_tokenize__,
List / Tuple / Set / Dict, Alias, DataNode, TaskRef and dask.tokenize.tokenize as far as it is reached.

Two nodes a and b are drawn INDEPENDENTLY from the same choice grammar (so every pair of the grammar is decided), built with
dask's public constructors, compared with ==, tokenize() and hash(), and evaluated with dask's own GraphNode.__call__ on the
same SYMBOLIC dependency values.  Whenever dask identifies them, z3 must prove the two results equal for all dependency values.
"""
from __future__ import annotations

import contextlib
import operator
import os
import pickle

from symx import core
from symx.core import NativeEngine, SInt, Violation
from symx.run import Obligation

import dask
import dask._task_spec as TS
import dask.tokenize as TK
from dask._task_spec import Alias, DataNode, Dict, List, Set, Task, TaskRef, Tuple
from dask.base import tokenize as base_tokenize
from dask.tokenize import tokenize

PROPERTY = "C11"
LEVEL = "other"
BUDGET = {"quick": 200, "thorough": 1500}
EXPLANATION = (
    "Bounded symbolic execution of the identity of dask's task-graph nodes. Per obligation two nodes a, b are drawn independently from one "
    "choice grammar (solver-enumerated shapes): Task with function f / g (tuple builders that return their name, the positional arguments in "
    "order and the sorted keyword items, so argument order and container structure are visible in the value) or comm (a sum: commutative), "
    "0-2 positional arguments, keyword arguments p / q in both insertion orders; List / Tuple / Set containers of 0-2 elements; Dict containers "
    "of 1-2 key/value pairs (string keys, integer-literal keys, repeated keys); containers, tasks, DataNode, Alias and raw list/tuple literals "
    "nested inside tasks and lists; 38 fixed re-nestings of the references x, y; top-level Alias / DataNode. Leaves are TaskRef('x'/'y'[/'z']), "
    "strings, and SYMBOLIC integer literals. Both nodes are built with the public constructors and evaluated with GraphNode.__call__ on the same "
    "symbolic dependency values {x: v_x, y: v_y, z: v_z}. Assertion: if a == b or b == a or tokenize(a) == tokenize(b) (dask.tokenize.tokenize "
    "and dask.base.tokenize; hash(a) == hash(b) and a == b is a sub-case) then a(values) == b(values), asked of z3 on the result terms "
    "(e.equal: valid for ALL dependency values of the path; list vs tuple vs set vs dict are different values). Every path is re-run natively "
    "and must reproduce the same tokens (the token strings are part of the observation), comparisons and values. e2e witness: pickle round trip "
    "of both nodes (a copy identified with the original or with the other node must evaluate to the same value) and dask.local.get_sync on a "
    "graph holding both nodes. Information only, never asserted: structurally identical constructions compare equal (counted in notes).")
ASSUMPTIONS = [
    "md5 / the pickle hash used for TaskRef and function objects are collision free on the explored inputs (trusted; every token is recomputed natively)",
    "the task functions are deterministic and do not look at the insertion order of their keyword arguments (f and g return sorted(kw.items())); "
    "dask.tokenize sorts kwargs by key, so kwargs insertion order is deliberately not part of a Task's identity",
    "equality of values is Python's structural ==, with list, tuple, set and dict being different types",
    "the derived model variable reorder_only (1 iff a and b are not structurally identical but become identical once the arguments of every "
    "List/Tuple/Set/Dict container, Dict taken as its flat key,value,key,value argument list, are sorted recursively) does not constrain "
    "anything: it only names a region of pairs for known-finding predicates",
]
STUBS = [
    "dask.tokenize.normalize_token gets a dispatch entry for symx's SInt that concretises it and returns the plain int (what the int identity "
    "dispatch does natively), so symbolic and native tokens are the same strings; removed after every symbolic path",
]
ENUM = [
    "node shapes (choice grammar, solver-enumerated)",
    "every integer literal leaf: tokenisation str()s / md5s it, so each literal is enumerated over its whole range [0, lmax] (literals inside a "
    "DataNode value are concretised when the DataNode is built, because DataNode records type(value))",
    "dependency values are unbounded symbolic ints, except in pairs where a Set container holds a TaskRef: set() hashes the value, so there all "
    "dependency values are enumerated over [0, vmax]",
]
OUTSIDE = [
    "md5 collisions", "float / numpy / pandas literals inside nodes", "functions that are partials, lambdas, methods or defined in __main__ "
    "(cloudpickle path of tokenize)", "Task.fuse, substitute, SubgraphCallable tasks, namedtuple wrapping, parse_input / convert_legacy_task "
    "(how nodes come into being; the property is about nodes that exist)", "mutation of a node after its token has been cached",
    "kwargs insertion order observed by the task function", "Dict built from a mapping / list of pairs instead of flat arguments (same args tuple)",
    "nesting deeper than 3, more than 2 elements per container in the exhaustive families",
]
BOUNDS = {
    "quick": dict(literals="[0, 1]", dep_keys="x, y", set_values="[0, 1]", containers="<= 2 elements / <= 2 Dict pairs", depth="<= 3",
                  pairs="a, b independent from the same family grammar"),
    "thorough": dict(literals="[0, 2]", dep_keys="x, y, z", set_values="[0, 2]", containers="<= 2 elements (3 in seq3) / <= 2 Dict pairs",
                     depth="<= 3", pairs="a, b independent from the same family grammar; plus cross families nested f-vs-List, f-vs-g, List-vs-Tuple"),
}


def functions():
    return [TS.GraphNode.__eq__, TS.Task.__init__, TS.Task.__hash__, TS.Task._get_token, TS.Task.__dask_tokenize__, TS.Task.__call__,
            TS.NestedContainer.__init__, TS.NestedContainer.__dask_tokenize__, TS.NestedContainer.to_container, TS.Dict.__init__,
            TS.Dict.constructor, TS.Alias.__init__, TS.Alias.__eq__, TS.Alias.__dask_tokenize__, TS.Alias.__call__, TS.DataNode.__init__,
            TS.DataNode.__dask_tokenize__, TS.DataNode.__call__, TS.TaskRef.__eq__, TS.TaskRef.__reduce__, TK.tokenize, TK._tokenize,
            TK._normalize_seq_func, TK.normalize_seq, TK.normalize_dict, TK.normalize_object, TK._normalize_pickle]


# ---- task functions (module level: pickled by reference) ------------------------------


def f(*args, **kw):
    return ("f", args, sorted(kw.items()))


def g(*args, **kw):
    return ("g", args, sorted(kw.items()))


def comm(*args, **kw):
    """commutative-looking: the value does not depend on argument order (only int arguments in the grammar)"""
    tot = 0
    for a in args:
        tot = tot + a
    for k in sorted(kw):
        tot = tot + kw[k]
    return ("comm", tot)


def _ident(x):
    return x


FUNCS = {"f": f, "g": g, "comm": comm}


# ---- grammar combinators: gen(e, prefix) -> description (plain nested tuples) ------------
# descriptions:  ("lit", int|SInt)  ("str", s)  ("ref", key)
#                ("List"|"Tuple"|"Set", (elem...))   ("Dict", (flat args k, v, k, v ...))
#                ("Task", fname, (arg...), ((kwname, desc)...))    ("Alias", key, target)   ("Data", key, desc)
#                ("rawlist"|"rawtuple", (elem...))      raw Python containers of literals (Task arguments / DataNode values)


class Gram:
    def slices(self):
        """sub-grammars that partition this one"""
        return [self]


class Lit(Gram):
    def __init__(self, lmax):
        self.lmax = lmax

    def gen(self, e, p):
        return ("lit", e.int(p + "lit", 0, self.lmax))

    def weight(self):
        return self.lmax + 1


class K(Gram):
    """a fixed description"""

    def __init__(self, desc):
        self.desc = desc

    def gen(self, e, p):
        return self.desc

    def weight(self):
        return 1


def Ref(k):
    return K(("ref", k))


def Str(s):
    return K(("str", s))


class Alt(Gram):
    def __init__(self, *opts):
        self.opts = opts

    def gen(self, e, p):
        i = e.choice(p + "alt", len(self.opts))
        return self.opts[i].gen(e, f"{p}{i}_")

    def weight(self):
        return sum(o.weight() for o in self.opts)

    def slices(self):
        return [s_ for o in self.opts for s_ in o.slices()]


class Seq(Gram):
    """kind(elem, ..., elem) with n in ns elements"""

    def __init__(self, kinds, elem, ns):
        self.kinds, self.elem, self.ns = tuple(kinds), elem, tuple(ns)

    def gen(self, e, p):
        kind = e.pick(p + "kind", self.kinds)
        n = e.pick(p + "n", self.ns)
        return (kind, tuple(self.elem.gen(e, f"{p}e{i}_") for i in range(n)))

    def weight(self):
        return len(self.kinds) * sum(self.elem.weight() ** n for n in self.ns)

    def slices(self):
        return [Seq((k,), self.elem, (n,)) for k in self.kinds for n in self.ns]


class DictG(Gram):
    def __init__(self, key, val, ns):
        self.key, self.val, self.ns = key, val, tuple(ns)

    def gen(self, e, p):
        n = e.pick(p + "np", self.ns)
        flat = []
        for i in range(n):
            flat.append(self.key.gen(e, f"{p}k{i}_"))
            flat.append(self.val.gen(e, f"{p}v{i}_"))
        return ("Dict", tuple(flat))

    def weight(self):
        return sum((self.key.weight() * self.val.weight()) ** n for n in self.ns)

    def slices(self):
        return [DictG(self.key, self.val, (n,)) for n in self.ns]


class TaskG(Gram):
    """Task(key, func, *args, **kwargs): funcs names, positional args (n in ns) from `arg`, keyword sets `kwsets` (tuples of names in
    insertion order) with values from `kwval`"""

    def __init__(self, funcs, arg=None, ns=(0,), kwsets=((),), kwval=None):
        self.funcs, self.arg, self.ns, self.kwsets, self.kwval = tuple(funcs), arg, tuple(ns), tuple(kwsets), kwval

    def gen(self, e, p):
        fn = e.pick(p + "fn", self.funcs)
        n = e.pick(p + "n", self.ns)
        args = tuple(self.arg.gen(e, f"{p}a{i}_") for i in range(n))
        kws = e.pick(p + "kw", self.kwsets)
        kwargs = tuple((k, self.kwval.gen(e, f"{p}kw{k}_")) for k in kws)
        return ("Task", fn, args, kwargs)

    def weight(self):
        wa = sum(self.arg.weight() ** n for n in self.ns) if self.arg is not None else 1
        wk = sum(self.kwval.weight() ** len(s) for s in self.kwsets) if self.kwval is not None else 1
        return len(self.funcs) * wa * wk

    def slices(self):
        return [TaskG((fn,), self.arg, (n,), (kw,), self.kwval) for fn in self.funcs for n in self.ns for kw in self.kwsets]


class DataG(Gram):
    def __init__(self, keys, val):
        self.keys, self.val = tuple(keys), val

    def gen(self, e, p):
        return ("Data", e.pick(p + "key", self.keys), self.val.gen(e, p + "val_"))

    def weight(self):
        return len(self.keys) * self.val.weight()


class Wrap(Gram):
    """one inner node inside Task f / Task g (single positional argument) or inside a List / Tuple"""

    def __init__(self, outer, inner):
        self.outer, self.inner = outer, inner

    def gen(self, e, p):
        i = self.inner.gen(e, p + "in_")
        if self.outer in ("List", "Tuple"):
            return (self.outer, (i,))
        return ("Task", self.outer, (i,), ())

    def weight(self):
        return self.inner.weight()

    def slices(self):
        return [Wrap(self.outer, s_) for s_ in self.inner.slices()]


class Raw(Gram):
    def __init__(self, kind, elem, n):
        self.kind, self.elem, self.n = kind, elem, n

    def gen(self, e, p):
        return (self.kind, tuple(self.elem.gen(e, f"{p}r{i}_") for i in range(self.n)))

    def weight(self):
        return self.elem.weight() ** self.n


# ---- description -> dask node / structural helpers ------------------------------------------


def build(d, key=None):
    t = d[0]
    if t == "lit" or t == "str":
        return d[1]
    if t == "ref":
        return TaskRef(d[1])
    if t in ("List", "Tuple", "Set"):
        return {"List": List, "Tuple": Tuple, "Set": Set}[t](*[build(x) for x in d[1]])
    if t == "Dict":
        return Dict(*[build(x) for x in d[1]])
    if t == "Task":
        return Task(key, FUNCS[d[1]], *[build(x) for x in d[2]], **{k: build(v) for k, v in d[3]})
    if t == "Alias":
        return Alias(d[1], d[2])
    if t == "Data":
        # DataNode records type(value): hand it plain ints (the literal is concretised here instead of at tokenisation)
        return DataNode(d[1], build(conc(d[2])))
    if t == "rawlist":
        return [build(x) for x in d[1]]
    if t == "rawtuple":
        return tuple(build(x) for x in d[1])
    raise AssertionError(d)


def conc(d):
    """description with plain-int literals (operator.index of an SInt already pinned by tokenisation does not fork)"""
    t = d[0]
    if t == "lit":
        return ("lit", operator.index(d[1]))
    if t in ("str", "ref", "Alias"):
        return d
    if t == "Task":
        return ("Task", d[1], tuple(conc(x) for x in d[2]), tuple((k, conc(v)) for k, v in d[3]))
    if t == "Data":
        return ("Data", d[1], conc(d[2]))
    return (t, tuple(conc(x) for x in d[1]))


def unordered(d):
    """concrete description with the arguments of every nested container sorted (recursively)"""
    t = d[0]
    if t in ("lit", "str", "ref", "Alias"):
        return d
    if t == "Task":
        return ("Task", d[1], tuple(unordered(x) for x in d[2]), tuple(sorted((k, unordered(v)) for k, v in d[3])))
    if t == "Data":
        return ("Data", d[1], unordered(d[2]))
    xs = tuple(unordered(x) for x in d[1])
    if t in ("List", "Tuple", "Set", "Dict"):
        xs = tuple(sorted(xs, key=repr))
    return (t, xs)


def identical(ca, cb):
    """structural identity of two concrete descriptions up to what is documented not to matter: the node key of a Task / DataNode and the
    insertion order of kwargs"""
    def norm(d):
        t = d[0]
        if t == "Task":
            return ("Task", d[1], tuple(norm(x) for x in d[2]), tuple(sorted((k, norm(v)) for k, v in d[3])))
        if t == "Data":
            return ("Data", None, norm(d[2]))
        if t in ("lit", "str", "ref", "Alias"):
            return d
        return (t, tuple(norm(x) for x in d[1]))
    return norm(ca) == norm(cb)


def set_holds_ref(d):
    t = d[0]
    if t in ("lit", "str", "ref", "Alias"):
        return False
    if t == "Set":
        return any(x[0] != "lit" and x[0] != "str" for x in d[1])
    if t == "Task":
        return any(set_holds_ref(x) for x in d[2]) or any(set_holds_ref(v) for _, v in d[3])
    if t == "Data":
        return False
    return any(set_holds_ref(x) for x in d[1])


def canon(v):
    """value -> comparable plain data: sets and dicts become tagged sorted tuples (their elements / keys are concrete or pinned)"""
    if isinstance(v, (set, frozenset)):
        items = [(type(x).__name__, x) if isinstance(x, str) else ("int", operator.index(x)) for x in v]
        return ("set", tuple(sorted(items)))
    if isinstance(v, dict):
        items = []
        for k, x in v.items():
            kk = ("str", k) if isinstance(k, str) else ("int", operator.index(k))
            items.append((kk, canon(x)))
        items.sort(key=lambda kv: kv[0])
        return ("dict", tuple(items))
    if isinstance(v, list):
        return [canon(x) for x in v]
    if isinstance(v, tuple):
        return tuple(canon(x) for x in v)
    return v


@contextlib.contextmanager
def sint_tokenises_as_int():
    lk = TK.normalize_token._lookup
    lk[SInt] = operator.index
    try:
        yield
    finally:
        lk.pop(SInt, None)


def _hash_eq(a, b):
    try:
        return hash(a) == hash(b)
    except TypeError:      # Alias / DataNode define __eq__ without __hash__
        return None


# ---- the obligation ------------------------------------------------------------------------------


DEPKEYS = ("x", "y", "z")


def mk(name, gram_a, gram_b, vmax, depkeys, e2e_every=9):
    """a from gram_a, b from gram_b (the same object for the symmetric families)"""

    def setup(e):
        da = gram_a.gen(e, "a_")
        db = gram_b.gen(e, "b_")
        if set_holds_ref(da) or set_holds_ref(db):
            vals = {k: e.int("v_" + k, 0, vmax) for k in depkeys}
        else:
            vals = {k: e.int("v_" + k) for k in depkeys}
        return da, db, vals

    def run(e, da, db, vals):
        a = build(da, "ka")
        b = build(db, "kb")
        eq_ab = bool(a == b)
        eq_ba = bool(b == a)
        ta, tb = tokenize(a), tokenize(b)
        tok_eq = ta == tb
        e.check(base_tokenize(a) == ta and base_tokenize(b) == tb, "dask.base.tokenize and dask.tokenize.tokenize disagree")
        h_eq = _hash_eq(a, b)
        # literals are pinned now: name the region 'same up to the order of container arguments' for known-finding predicates
        ca, cb = conc(da), conc(db)
        same = identical(ca, cb)
        reorder = int((not same) and unordered(ca) == unordered(cb))
        t = e.int("reorder_only", 0, 1)
        e.assume(lambda: t == reorder)
        if same:
            e.notes["identical_pairs"] = e.notes.get("identical_pairs", 0) + 1
            if not (eq_ab and eq_ba and tok_eq):
                e.notes["identical_but_not_equal"] = e.notes.get("identical_but_not_equal", 0) + 1
        ra = canon(a(dict(vals)))
        rb = canon(b(dict(vals)))
        if eq_ab or eq_ba or tok_eq:
            how = "/".join(w for w, c in (("a == b", eq_ab), ("b == a", eq_ba), ("same token", tok_eq), ("same hash", h_eq)) if c)
            e.check(lambda: e.equal(ra, rb),
                    f"nodes identified by dask ({how}) compute different values: a = {a!r} -> {_show(e, ra)}, b = {b!r} -> {_show(e, rb)}")
        return (eq_ab, eq_ba, tok_eq, h_eq, ta, tb, ra, rb)

    def e2e(model):
        ne = NativeEngine(model)
        da, db, vals = setup(ne)
        a, b = build(da, "ka"), build(db, "kb")
        ra, rb = a(dict(vals)), b(dict(vals))
        # pickle round trip: the copy is one more node; whatever dask identifies it with must have the same value
        for nm, n, r in (("a", a, ra), ("b", b, rb)):
            n2 = pickle.loads(pickle.dumps(n))
            r2 = n2(dict(vals))
            for om, o, ro in (("a", a, ra), ("b", b, rb)):
                if (n2 == o or o == n2 or tokenize(n2) == tokenize(o)) and r2 != ro:
                    raise Violation(f"unpickled copy of {nm} = {n!r} is identified with {om} = {o!r} but computes {r2!r} instead of {ro!r}")
        # both nodes in one graph through the synchronous scheduler
        from dask.local import get_sync
        dsk = {k: DataNode(k, v) for k, v in vals.items()}
        dsk["ka"] = Task("ka", _ident, a)
        dsk["kb"] = Task("kb", _ident, b)
        ga, gb = get_sync(dsk, ["ka", "kb"])
        if ga != ra or gb != rb:
            raise Violation(f"get_sync computes {ga!r}, {gb!r}; node.__call__ computes {ra!r}, {rb!r}")
        if (a == b or tokenize(a) == tokenize(b)) and ga != gb:
            raise Violation(f"identified nodes {a!r}, {b!r} compute {ga!r} and {gb!r} in a graph")

    return Obligation(name, setup, run, patches=sint_tokenises_as_int, e2e=e2e, e2e_every=e2e_every)


def _show(e, r):
    if e.mode == "native":
        return repr(r)
    return repr(r)[:200]


# ---- families ------------------------------------------------------------------------------------------


def _nestings():
    x, y = ("ref", "x"), ("ref", "y")
    L = lambda *a: ("List", a)      # noqa: E731
    T = lambda *a: ("Tuple", a)     # noqa: E731
    S = lambda *a: ("Set", a)       # noqa: E731
    Tk = lambda fn, *a: ("Task", fn, a, ())     # noqa: E731
    ds = [L(x, y), L(y, x), L(L(x), y), L(x, L(y)), L(L(x, y)), L(L(x), L(y)), L(L(y), x), L(T(x), y), L(T(x, y)), L(S(x), y),
          T(x, y), T(y, x), T(T(x, y)), T(T(x), y), T(L(x), y), T(x, T(y)),
          L(x, x), L(x), L(L(x)), T(x), T(T(x)), L(), T(), L(L()), L(T()), T(L()),
          Tk("f", x, y), Tk("f", L(x, y)), Tk("f", L(x), y), Tk("f", T(x, y)), Tk("f", L(x), L(y)), Tk("f", L(L(x), y)), Tk("f", L(x, L(y))),
          Tk("f", L(y, x)), Tk("f", Tk("g", x, y)), Tk("f", Tk("g", y, x)), Tk("f", Tk("f", x), y), Tk("f", x, Tk("f", y))]
    return Alt(*[K(d) for d in ds])


def families(tier):
    """[(name, grammar of a, grammar of b)]; symmetric families use the same grammar on both sides"""
    q = tier == "quick"
    lmax = 1 if q else 2
    vmax = 1 if q else 2
    lit = Lit(lmax)
    lit0 = lit if not q else Lit(0)              # quick: a literal that is always 0 where a symbolic one is unaffordable
    refs = [Ref("x"), Ref("y")] + ([] if q else [Ref("z")])
    atom = Alt(lit, *refs)                      # symbolic literal or reference
    atom0 = Alt(lit0, *refs)
    rr = Alt(*refs)
    x, y = ("ref", "x"), ("ref", "y")
    k1, k2 = ("str", "k1"), ("str", "k2")
    out = []

    # List / Tuple / Set of 0..2 atoms
    seq = Seq(("List", "Tuple", "Set"), atom, (0, 1, 2))
    out.append(("seq", seq, seq))
    # Dict, string keys (repeated keys allowed): one pair with atom values, two pairs
    dct = Alt(DictG(Alt(Str("k1"), Str("k2")), atom, (1,)), DictG(Alt(Str("k1"), Str("k2")), atom0, (2,)))
    out.append(("dict", dct, dct))
    # Dict with literal / string keys: key <-> value exchange, pairing of literal keys with values
    dkv = Alt(DictG(Alt(Str("k1"), lit), Alt(Str("k1"), lit, Ref("x")), (1,)), DictG(lit, Alt(lit, Ref("x")), (2,)))
    out.append(("dict-keys", dkv, dkv))
    # Dict with one pair against sequences of two elements (the flat argument lists coincide)
    d1 = DictG(Alt(Str("k1"), lit), atom, (1,))
    s2 = Seq(("List", "Tuple", "Set"), Alt(Str("k1"), lit, *refs), (2,))
    both = Alt(d1, s2)
    out.append(("dict-vs-seq", d1, s2) if q else ("dict-vs-seq", both, both))
    # Task: function x positional argument lists; the commutative function against a tuple builder
    targs = TaskG(("f", "g"), atom, (0, 1, 2))
    out.append(("task-args", targs, targs))
    tcomm = TaskG(("comm", "f"), atom, (2,) if q else (1, 2))
    out.append(("task-comm", tcomm, tcomm))
    # Task: keyword arguments (both insertion orders); positional against keyword
    tkw = TaskG(("f",), None, (0,), kwsets=((), ("p",), ("p", "q"), ("q", "p")), kwval=atom)
    out.append(("task-kwargs", tkw, tkw))
    tpk = Alt(TaskG(("f",), atom, (1, 2)), TaskG(("f",), Ref("x"), (0, 1), kwsets=(("p",), ("q",)), kwval=atom))
    out.append(("task-pos-vs-kw", tpk, tpk))
    # nesting: one inner node inside Task f / inside List
    inner = Alt(
        Seq(("List", "Tuple"), rr, (2,)),
        Seq(("List", "Tuple", "Set"), Ref("x"), (1,)),
        Seq(("List",), lit, (1,)),
        DictG(Str("k1"), rr, (1,)),
        K(("Dict", (k1, x, k2, y))), K(("Dict", (k1, y, k2, x))), K(("Dict", (k2, y, k1, x))),
        TaskG(("g",), rr, (1,)),
        K(("Task", "f", (x,), ())),
        K(("Task", "g", (), (("p", x),))),
        DataG(("d",), lit),
        K(("Alias", "x", "x")), K(("Alias", "x", "y")),
        Raw("rawlist", lit, 1), Raw("rawtuple", lit, 1),
        Ref("x"), lit,
    )
    for o in ("f", "List") if q else ("f", "g", "List", "Tuple"):
        og = Wrap(o, inner)
        out.append((f"nested-{o}", og, og))
    if not q:
        out.append(("nested-f-vs-List", Wrap("f", inner), Wrap("List", inner)))
        out.append(("nested-f-vs-g", Wrap("f", inner), Wrap("g", inner)))
        out.append(("nested-List-vs-Tuple", Wrap("List", inner), Wrap("Tuple", inner)))
    # fixed re-nestings of x, y
    nst = _nestings()
    out.append(("renest", nst, nst))
    # top-level Alias / DataNode (and a task / list to compare against)
    top = Alt(K(("Alias", "x", "x")), K(("Alias", "x", "y")), K(("Alias", "y", "x")), K(("Alias", "y", "y")),
              DataG(("x", "y"), Alt(lit, Raw("rawlist", lit, 1), Raw("rawtuple", lit, 1), Str("x"), Raw("rawlist", lit, 2))),
              K(("Task", "f", (x,), ())), K(("List", (x,))), K(("Task", "f", (("str", "x"),), ())))
    out.append(("alias-data", top, top))
    if not q:
        seq3 = Seq(("List", "Tuple"), Alt(Lit(1), Ref("x"), Ref("y")), (3,))
        out.append(("seq3", seq3, seq3))
        d3 = DictG(Alt(Str("k1"), Str("k2"), Lit(1)), Alt(Lit(1), Ref("x"), Ref("y")), (2,))
        out.append(("dict-mixed-keys", d3, d3))
    return out, vmax


def split(gram, k):
    """partition a grammar into <= k grammars of similar weight (obligations are the unit of parallel work)"""
    parts = sorted(gram.slices(), key=lambda s_: -s_.weight())
    groups = [[] for _ in range(min(k, len(parts)))]
    for s_ in parts:
        min(groups, key=lambda g_: sum(z.weight() for z in g_)).append(s_)
    return [g_[0] if len(g_) == 1 else Alt(*g_) for g_ in groups if g_]


def obligations(tier):
    fams, vmax = families(tier)
    nsplit = int(os.environ.get("VERIF_C11_SPLIT", "3" if tier == "quick" else "6"))
    obs = []
    for name, ga, gb in fams:
        big = ga.weight() * gb.weight() > 600
        parts = split(ga, nsplit) if big else [ga]
        for i, part in enumerate(parts):
            tag = f"{name}" if len(parts) == 1 else f"{name}/{i + 1}of{len(parts)}"
            obs.append(mk(f"{tag}[w={part.weight()}x{gb.weight()}]", part, gb, vmax, DEPKEYS[:2] if tier == "quick" else DEPKEYS))
    return obs
