"""C20 -- array indexing equals NumPy indexing (slice / integer / None kernels).

Kernels symbolically executed: normalize_index, check_index, sanitize_index,
normalize_slice, posify_index, slice_array, slice_with_newaxes,
slice_wrap_lists, slice_slices_and_integers, _slice_1d, new_blockdim.

Oracle (pointwise, complete for basic indexing): for a symbolic probe position
`p` of the input axis, NumPy's meaning of the *original* index (reference =
re-implementation of PySlice_AdjustIndices, validated against range(n)[s] on
every witness) says whether p is selected and with which rank g.  The graph
returned by slice_array must read p's block with a block-slice that selects
p's local offset, at output position (sum of the preceding output chunk sizes
+ local rank) == g.  Together with `sum(new chunks) == number selected` this
fixes the whole output, its order, shape and chunks.
"""
from __future__ import annotations

import numpy as np

from symx.core import SInt, Violation, HarnessError
from symx.patch import py_indices, slice_len, rewritten, patched, math_shim, np_shim, INT_SHIM
from symx.run import Obligation

import dask.array.slicing as S
from dask._task_spec import Task, TaskRef, Alias

PROPERTY = "C20"
LEVEL = "other"
BUDGET = {"quick": 400, "thorough": 4000}

EXPLANATION = (
    "Bounded symbolic execution (symx: SInt proxies over z3 Int, fork on every comparison, DFS over decision "
    "prefixes until the path tree is exhausted) of dask's real basic-indexing kernels. Chunk sizes, slice "
    "start/stop, integer indices and a probe position are solver variables; for every path class z3 shows the "
    "pointwise NumPy oracle holds for all values, and the path tree being exhausted shows the classes are complete "
    "within the bounds. Each path model is replayed natively on the unpatched functions, and pushed through "
    "da.from_array(...)[idx].compute() against NumPy (e2e witness, not a solver claim).")

ASSUMPTIONS = [
    "slice.indices() inside normalize_slice is replaced (AST rewrite of the function re-read from /repo at run "
    "time) by a Python transcription of CPython's PySlice_AdjustIndices so operands stay symbolic; the "
    "transcription is validated natively against range(n)[s] on every path model",
    "module globals `int`, `math.isnan`, `np.isnan` of dask.array.slicing are shimmed to accept SInt (chunk sizes "
    "are never NaN in this harness: unknown chunk sizes are outside the claim)",
    "new_blockdim computes ceil((1.0*stop-start)/step) in floats: its operands are concretised (solver-enumerated) "
    "there and CPython's IEEE arithmetic is used",
    "getitem on a NumPy block with the emitted block-slice has Python slice semantics (checked by the e2e witness)",
]
STUBS = ["AST rewrite: slice.indices -> symx.patch.py_indices in normalize_slice",
         "dask.array.slicing.int -> ShimInt, .math -> math_shim, .np -> np_shim (isnan only)"]
ENUM = ["number of chunks per axis (1..3) and the step (one obligation each)", "every input of the take[...], take_mixed[...], dask_indexer[...] and vindex_blocks[...] obligations (array indexers run through NumPy)",
        "operands of new_blockdim's float ceil (concretised)"]
OUTSIDE = ["integer / boolean array indexers (NumPy or dask), vindex and blocks[] only as solver-enumerated concrete inputs (obligations take[...], take_mixed[...], dask_indexer[...], vindex_blocks[...]): no symbolic claim for them",
           "vindex with more than two point lists or broadcasting 2-d point arrays; blocks[] on grids larger than 2 x 2",
           "unknown (NaN) chunk sizes", "arrays with more than 2 dimensions, more than 3 chunks per axis, chunk sizes > bound"]

BOUNDS = {
    "quick": dict(chunks_per_axis="1..3", chunk_size="[1,4] (1-d), [1,3] (2-d)", start_stop="[-2*dim-2, 2*dim+2] or None",
                  step="{None,1,2,3,-1,-2,-3}", int_index="[-dim-2, dim+1]", ndim="1, 2 (2-d: <=2 chunks per axis)",
                  take_mixed="3-d, one list (len<=2, every value) on any axis whose 3 chunks have size 0..1, ints/slices on the other axes, <=1-2 None at every position, index dtype int64 / int8 (axis scaled x70)"),
    "thorough": dict(chunks_per_axis="1..4 (1-d), 1..3 (2-d)", chunk_size="[1,6] (1-d), [1,4] (2-d)",
                     start_stop="[-2*dim-3, 2*dim+3] or None", step="{None,1..4,-1..-4}", int_index="[-dim-2, dim+1]",
                     ndim="1, 2 (2-d: 2 chunks per axis) with None/newaxis",
                     take_mixed="as quick with len<=2-3, <=2 None"),
}


def functions():
    return [S.normalize_index, S.check_index, S.sanitize_index, S._sanitize_index_element, S.normalize_slice,
            S.posify_index, S.replace_ellipsis, S.slice_array, S.slice_with_newaxes, S.slice_wrap_lists,
            S.slice_slices_and_integers, S._slice_1d, S.new_blockdim, S.take, S.slice_with_int_dask_array,
            S.slice_with_int_dask_array_on_axis, S.slice_with_bool_dask_array, _fn("dask.array._shuffle", "_shuffle"),
            _fn("dask.array.chunk", "slice_with_int_dask_array"), _fn("dask.array.chunk", "slice_with_int_dask_array_aggregate"),
            _fn("dask.array.core", "_vindex"), _fn("dask.array.core", "_vindex_array"), _fn("dask.array.core", "BlockView.__getitem__")]


def _fn(mod, name):
    import importlib
    o = importlib.import_module(mod)
    for part in name.split("."):
        o = getattr(o, part)
    return o


def _patches():
    ns = rewritten(S, "normalize_slice")
    return patched((S, "normalize_slice", ns), (S, "int", INT_SHIM), (S, "math", math_shim()), (S, "np", np_shim()))


# -- reference semantics --------------------------------------------------


def ref_rank(n, s, p):
    """rank of position p in range(n)[s], or -1"""
    a, b, c = py_indices(s, n)
    if c > 0:
        return (p - a) // c if (a <= p and p < b and (p - a) % c == 0) else -1
    return (a - p) // (-c) if (b < p and p <= a and (a - p) % (-c) == 0) else -1


def ref_len(n, s):
    a, b, c = py_indices(s, n)
    return slice_len(a, b, c)


def locate(ls, p):
    """(block, local offset) of position p"""
    off = 0
    for blk in range(len(ls)):
        if p < off + ls[blk]:
            return blk, p - off
        off = off + ls[blk]
    raise HarnessError("probe outside array")


def _task_parts(t, in_name):
    if isinstance(t, Alias):
        return t.target, None
    if not isinstance(t, Task):
        raise Violation(f"unexpected graph value {t!r}")
    ref, idx = t.args
    key = ref.key
    if key[0] != in_name:
        raise Violation(f"task reads {key!r}")
    return key, idx


def axis_oracle(e, n, ls, ind0, outchunks, out_pos_of_block, block_index, p, tag):
    """checks one axis.  ind0: original slice.  out_pos_of_block: {in_block: (out_block, block_slice)}"""
    g = ref_rank(n, ind0, p)
    blk, loc = locate(ls, p)
    if blk in out_pos_of_block:
        j, bs = out_pos_of_block[blk]
        if bs is None or (isinstance(bs, slice) and bs == slice(None, None, None)):
            r = loc
            cnt = ls[blk]
        else:
            r = ref_rank(ls[blk], bs, loc)
            cnt = ref_len(ls[blk], bs)
        e.check(lambda: cnt == outchunks[j], f"{tag}: lazy chunk size != number of elements the block slice selects")
        if r >= 0:
            base = 0
            for q in range(j):
                base = base + outchunks[q]
            e.check(lambda: g == base + r, f"{tag}: element lands at the wrong output position")
        else:
            e.check(lambda: g < 0, f"{tag}: NumPy selects the element, dask's block slice skips it")
    else:
        e.check(lambda: g < 0, f"{tag}: NumPy selects the element, dask drops its whole block")
    tot = 0
    for c in outchunks:
        tot = tot + c
    e.check(lambda: tot == ref_len(n, ind0), f"{tag}: lazy shape != NumPy result length")
    return g


def mk_1d_slice(nb, step, none_start, none_stop, maxc, pad, minc=1):
    def setup(e):
        ls = tuple(e.int(f"l{i}", minc, maxc) for i in range(nb))
        dim = sum(ls[1:], ls[0])
        if minc == 0:
            e.assume(lambda: dim >= 1)      # zero-size chunks anywhere, but a non-empty axis (the probe position p needs one)
        start = None if none_start else e.int("start")
        stop = None if none_stop else e.int("stop")
        for v in (start, stop):
            if v is not None:
                e.assume(lambda: (v >= -2 * dim - pad) & (v <= 2 * dim + pad))
        p = e.int("p", 0)
        e.assume(lambda: p < dim)
        return ls, dim, start, stop, p

    def run(e, ls, dim, start, stop, p):
        ind0 = slice(start, stop, step)
        idx = S.normalize_index(ind0, (dim,))
        try:
            dsk, bd = S.slice_array("y", "x", (ls,), idx)
        except S.SlicingNoop:
            g = ref_rank(dim, ind0, p)
            e.check(lambda: g == p, "SlicingNoop although the index is not the identity")
            return ("noop", g)
        oc = bd[0]
        e.check(sorted(dsk) == [("y", j) for j in range(len(oc))], "output keys are not one per output chunk")
        m = {}
        for k, t in dsk.items():
            key, ix = _task_parts(t, "x")
            e.check(key[1] not in m, "an input block is read by two output blocks")
            m[key[1]] = (k[1], None if ix is None else ix[0])
        g = axis_oracle(e, dim, ls, ind0, oc, m, None, p, "1d")
        return (g, tuple(oc))

    def e2e(model):
        import dask.array as da
        ls = tuple(model[f"l{i}"] for i in range(nb))
        ind0 = slice(model.get("start"), model.get("stop"), step)
        x = np.arange(sum(ls)) * 3 + 1
        d = da.from_array(x, chunks=(ls,))[ind0]
        want = x[ind0]
        if d.shape != want.shape:
            raise Violation(f"lazy shape {d.shape} != numpy {want.shape} for chunks={ls} index={ind0}")
        got = d.compute(scheduler="sync")
        if got.shape != want.shape or not (got == want).all():
            raise Violation(f"x[{ind0}] with chunks {ls}: dask {got.tolist()} numpy {want.tolist()}")
        if sum(d.chunks[0]) != want.shape[0]:
            raise Violation(f"chunks {d.chunks} do not add up to {want.shape}")
        # validate the reference transcription itself
        n = sum(ls)
        if tuple(py_indices(ind0, n)) != ind0.indices(n):
            raise HarnessError("py_indices transcription disagrees with CPython")

    name = f"slice1d[nb={nb},step={step},start={'None' if none_start else 'sym'},stop={'None' if none_stop else 'sym'}{',zero-size chunks' if minc == 0 else ''}]"
    return Obligation(name, setup, run, patches=_patches, e2e=e2e, e2e_every=7)


def mk_1d_int(nb, maxc):
    def setup(e):
        ls = tuple(e.int(f"l{i}", 1, maxc) for i in range(nb))
        dim = sum(ls[1:], ls[0])
        i = e.int("i")
        e.assume(lambda: (i >= -dim - 2) & (i <= dim + 1))
        return ls, dim, i

    def run(e, ls, dim, i):
        inb = (i >= -dim) and (i < dim)
        try:
            idx = S.normalize_index(i, (dim,))
        except IndexError:
            e.check(not inb, "IndexError for an in-range integer index")
            return "IndexError"
        e.check(inb, "no IndexError for an out-of-range integer index")
        dsk, bd = S.slice_array("y", "x", (ls,), idx)
        e.check(bd == (), "integer index must drop the axis")
        e.check(list(dsk) == [("y",)], "integer index must give a single 0-d block")
        key, ix = _task_parts(dsk[("y",)], "x")
        pos = i + dim if i < 0 else i
        blk, loc = locate(ls, pos)
        e.check(key[1] == blk, "integer index reads the wrong block")
        e.check(lambda: ix[0] == loc, "integer index reads the wrong offset")
        return (blk, loc)

    def e2e(model):
        import dask.array as da
        ls = tuple(model[f"l{i}"] for i in range(nb))
        i = model["i"]
        x = np.arange(sum(ls)) * 3 + 1
        d = da.from_array(x, chunks=(ls,))
        try:
            want = x[i]
        except IndexError:
            try:
                d[i]
            except IndexError:
                return
            raise Violation(f"x[{i}] should raise IndexError (chunks {ls})")
        got = d[i].compute(scheduler="sync")
        if got != want or d[i].shape != ():
            raise Violation(f"x[{i}] chunks {ls}: dask {got} numpy {want}")

    return Obligation(f"int1d[nb={nb}]", setup, run, patches=_patches, e2e=e2e, e2e_every=3)


def mk_2d(kinds0, nbs, steps, maxc, with_none):
    """kinds: per axis 's' (slice), 'a' (slice, start only), 'b' (slice, stop only) or 'i' (int)"""
    def setup(e):
        kinds = kinds0
        lss, dims, inds, ps = [], [], [], []
        for ax in range(2):
            ls = tuple(e.int(f"l{ax}_{i}", 1, maxc) for i in range(nbs[ax]))
            dim = sum(ls[1:], ls[0])
            lss.append(ls)
            dims.append(dim)
            if kinds[ax] in "sab":
                start = e.int(f"start{ax}") if kinds[ax] in "sa" else None
                stop = e.int(f"stop{ax}") if kinds[ax] in "sb" else None
                for v in (start, stop):
                    if v is not None:
                        e.assume(lambda: (v >= -dim - 2) & (v <= dim + 2))
                inds.append(slice(start, stop, steps[ax]))
            else:
                i = e.int(f"i{ax}")
                e.assume(lambda: (i >= -dim) & (i < dim))
                inds.append(i)
            p = e.int(f"p{ax}", 0)
            e.assume(lambda: p < dim)
            ps.append(p)
        return lss, dims, inds, ps

    kinds = tuple("s" if k in "sab" else k for k in kinds0)

    def run(e, lss, dims, inds, ps):
        index0 = tuple(inds)
        if with_none == 1:
            index0 = (None,) + index0
        elif with_none == 2:
            index0 = (index0[0], None, index0[1])
        elif with_none == 3:
            index0 = index0 + (None,)
        idx = S.normalize_index(index0, tuple(dims))
        try:
            dsk, bd = S.slice_array("y", "x", tuple(lss), idx)
        except S.SlicingNoop:
            for ax in range(2):
                if kinds[ax] == "s":
                    g = ref_rank(dims[ax], inds[ax], ps[ax])
                    e.check(lambda: g == ps[ax], "SlicingNoop although the index is not the identity")
            e.check(all(k == "s" for k in kinds) and not with_none, "SlicingNoop with int/None index")
            return "noop"
        # positions of kept (slice) axes and of inserted None axes in the output
        out_axes = []   # per output axis: input axis number or None
        ia = 0
        for it in index0:
            if it is None:
                out_axes.append(None)
            else:
                if kinds[ia] == "s":
                    out_axes.append(ia)
                ia += 1
        e.check(len(bd) == len(out_axes), "wrong number of output dimensions")
        for oa, src in enumerate(out_axes):
            if src is None:
                e.check(tuple(bd[oa]) == (1,), "newaxis must have chunks (1,)")
        # per-axis maps
        maps = [dict(), dict()]
        nkeys = 1
        for oa, src in enumerate(out_axes):
            nkeys *= len(bd[oa])
        outkeys = [k for k in dsk if k[0] == "y"]
        e.check(len(outkeys) == nkeys and len(set(outkeys)) == nkeys, "number of output blocks != product of chunk counts")
        for k in outkeys:
            key, ix = _task_parts(dsk[k], "x")
            e.check(len(k) - 1 == len(out_axes), "output key has wrong rank")
            # getitem index: one entry per *input* axis plus None for new axes
            if ix is None:
                ix_in = [None, None]
            else:
                ix_in = [t for t in ix if t is not None]
                e.check(len(ix_in) == 2, "block index has wrong length")
                pos_none = [n for n, t in enumerate(ix) if t is None]
                want_none = [n for n, t in enumerate(index0) if t is None]
                e.check(pos_none == want_none, "newaxis inserted at the wrong place in the block index")
            for ax in range(2):
                b = key[1 + ax]
                if kinds[ax] == "s":
                    oa = out_axes.index(ax)
                    prev = maps[ax].get(b)
                    cur = (k[1 + oa], ix_in[ax])
                    if prev is not None:
                        e.check(prev[0] == cur[0] and (prev[1] == cur[1]), "inconsistent per-axis block mapping")
                    maps[ax][b] = cur
                else:
                    maps[ax][b] = (None, ix_in[ax])
            for oa, src in enumerate(out_axes):
                if src is None:
                    e.check(k[1 + oa] == 0, "newaxis block index must be 0")
        obs = []
        for ax in range(2):
            if kinds[ax] == "s":
                oa = out_axes.index(ax)
                # every (block of ax0) x (block of ax1) combination must exist: checked by nkeys
                g = axis_oracle(e, dims[ax], lss[ax], inds[ax], bd[oa], maps[ax], None, ps[ax], f"axis{ax}")
                obs.append(g)
            else:
                i = inds[ax]
                pos = i + dims[ax] if i < 0 else i
                blk, loc = locate(lss[ax], pos)
                e.check(list(maps[ax]) == [blk], "integer index reads the wrong block")
                e.check(lambda: maps[ax][blk][1] == loc, "integer index reads the wrong offset")
                obs.append((blk, loc))
        return tuple(obs)

    def e2e(model):
        import dask.array as da
        lss = [tuple(model[f"l{ax}_{i}"] for i in range(nbs[ax])) for ax in range(2)]
        inds = []
        for ax in range(2):
            if kinds[ax] in "sab":
                inds.append(slice(model.get(f"start{ax}"), model.get(f"stop{ax}"), steps[ax]))
            else:
                inds.append(model[f"i{ax}"])
        index0 = tuple(inds)
        if with_none == 1:
            index0 = (None,) + index0
        elif with_none == 2:
            index0 = (index0[0], None, index0[1])
        elif with_none == 3:
            index0 = index0 + (None,)
        shape = tuple(sum(ls) for ls in lss)
        x = np.arange(shape[0] * shape[1]).reshape(shape) * 7 + 3
        d = da.from_array(x, chunks=tuple(lss))[index0]
        want = x[index0]
        got = d.compute(scheduler="sync")
        if d.shape != want.shape or got.shape != want.shape or not (got == want).all():
            raise Violation(f"x[{index0}] chunks {lss}: lazy shape {d.shape}, dask {got.tolist()} numpy {want.tolist()}")
        if tuple(sum(c) for c in d.chunks) != want.shape:
            raise Violation(f"chunks {d.chunks} do not add up to {want.shape}")

    name = f"nd[kinds={''.join(kinds0)},nb={nbs[0]}x{nbs[1]},steps={steps[0]},{steps[1]},none={with_none}]"
    return Obligation(name, setup, run, patches=_patches, e2e=e2e, e2e_every=11)


def mk_take(maxlen, maxc, two_d):
    """integer-array indexers (sorted, unsorted, duplicates, negatives) and the boolean masks derived from them, through the public
    getitem: the index values end up in NumPy arrays (np.searchsorted / fancy indexing), so the solver enumerates them"""
    def setup(e):
        ls = (e.int("l0", 1, maxc), e.int("l1", 1, maxc))
        dim = ls[0] + ls[1]
        n = 1 + e.choice("n", maxlen)
        idx = []
        for t in range(n):
            v = e.int(f"v{t}")
            e.assume(lambda: (v >= -dim) & (v < dim))
            idx.append(v)
        as_mask = e.flag("as_mask")
        return ls, idx, as_mask

    def run(e, ls, idx, as_mask):
        import operator
        import dask.array as da
        ls = tuple(operator.index(c) for c in ls)
        idx = [operator.index(v) for v in idx]
        dim = sum(ls)
        if two_d:
            x = np.arange(3 * dim).reshape(3, dim) * 3 + 1
            d = da.from_array(x, chunks=((2, 1), ls))
        else:
            x = np.arange(dim) * 3 + 1
            d = da.from_array(x, chunks=(ls,))
        if as_mask:
            m = np.zeros(dim, dtype=bool)
            m[idx] = True
            sel = m
        else:
            sel = np.array(idx)
        index = (slice(None), sel) if two_d else (sel,)
        want = x[index]
        r = d[index]
        got = r.compute(scheduler="sync")
        e.check(got.shape == want.shape and bool((got == want).all()), f"x[{list(sel)}] with chunks {ls}: dask {got.tolist()} numpy {want.tolist()}")
        if not as_mask:
            e.check(r.shape == want.shape, f"lazy shape {r.shape} != {want.shape}")
            e.check(tuple(sum(c) for c in r.chunks) == want.shape, "lazy chunks do not add up to the shape")
            r2 = d[(slice(None), list(idx)) if two_d else (list(idx),)]
            e.check(bool((r2.compute(scheduler="sync") == want).all()), "list indexer differs from array indexer")
            if two_d and all(0 <= v < len(idx) for v in idx) and len(idx) <= x.shape[1]:
                # a history of indexing steps in ONE graph: fancy-index axis 0, drop the other axis with an integer, fancy-index axis 0
                # again with the same indexer (internal helper keys of the two fancy steps must not collide)
                xt, dt = x.T, d.T
                w3 = xt[sel][:, 0][sel]
                g3 = dt[sel][:, 0][sel]
                e.check(g3.shape == w3.shape, f"x[idx][:, 0][idx]: lazy shape {g3.shape} != {w3.shape}")
                e.check(bool((g3.compute(scheduler="sync") == w3).all()), f"x[idx][:, 0][idx] with idx={idx} differs from NumPy")
                w4 = xt[sel].sum(axis=1)[sel]
                g4 = dt[sel].sum(axis=1)[sel]
                e.check(bool((g4.compute(scheduler="sync") == w4).all()), f"x[idx].sum(axis=1)[idx] with idx={idx} differs from NumPy")
        return got.tolist()

    return Obligation(f"take[{'2d' if two_d else '1d'},len<={maxlen},chunk<={maxc}]", setup, run)


def mk_mixed(maxn, max_none, maxl, dtypes):
    """one integer-array indexer combined, in ONE index tuple, with integers / slices on the other axes and with None entries at every
    position; the indexed axis has up to three chunks of size 0..maxl (zero-size chunks, more chunks than elements); the index array's
    dtype is picked (narrow dtypes cannot represent the axis length). Values end up in NumPy: enumerated by the solver."""
    OTHER = ((":", ":"), ("i", ":"), (":", "i"), ("i", "i"), ("s", ":"), (":", "r"))

    def setup(e):
        ax = e.choice("ax", 3)
        ls = tuple(e.int(f"l{i}", 0, maxl) for i in range(3))
        dim = ls[0] + ls[1] + ls[2]
        e.assume(lambda: dim >= 1)
        n = 1 + e.choice("n", maxn)
        idx = []
        for t in range(n):
            v = e.int(f"v{t}")
            e.assume(lambda: (v >= -dim) & (v < dim))
            idx.append(v)
        other = e.pick("other", OTHER)
        nn = e.choice("n_none", max_none + 1)
        pos = []
        for t in range(nn):
            q = e.choice(f"none{t}", 4 + t)
            pos.append(q)
        dt = e.pick("dtype", dtypes)
        # layout of the index tuple (known on the path): are the "advanced" items (the list and integers) adjacent?
        kinds = list(other)
        kinds.insert(ax, "L")
        for q in pos:
            kinds.insert(q, "N")
        adv = [i for i, k in enumerate(kinds) if k in ("L", "i")]
        sep = int(adv[-1] - adv[0] + 1 != len(adv))
        s = e.int("adv_separated", 0, 1)
        e.assume(lambda: s == sep)
        return ax, ls, idx, other, tuple(pos), dt

    def run(e, ax, ls, idx, other, pos, dt):
        import operator
        import dask.array as da
        scale = 70 if dt == "int8" else 1        # an axis longer than the narrow index dtype can represent
        ls = tuple(operator.index(c) * scale for c in ls)
        idx = [operator.index(v) for v in idx]
        dim = sum(ls)
        shape = [3, 3]
        shape.insert(ax, dim)
        x = np.arange(int(np.prod(shape))).reshape(shape) * 3 + 1
        chunks = [(2, 1), (1, 2)]
        chunks.insert(ax, ls)
        d = da.from_array(x, chunks=tuple(chunks))
        items = []
        for k in other:
            items.append({":": slice(None), "i": 1, "s": slice(1, None), "r": slice(None, None, -1)}[k])
        sel = np.array(idx, dtype=dt)
        items.insert(ax, sel)
        for q in pos:
            items.insert(q, None)
        index = tuple(items)
        want = x[index]
        r = d[index]
        shown = tuple(list(map(int, i)) if isinstance(i, np.ndarray) else i for i in index)
        e.check(r.shape == want.shape, f"x{shown} (axis chunks {ls}, index dtype {dt}): lazy shape {r.shape}, NumPy {want.shape}")
        e.check(tuple(sum(c) for c in r.chunks) == r.shape, "lazy chunks do not add up to the lazy shape")
        got = r.compute(scheduler="sync")
        e.check(got.shape == want.shape and bool((got == want).all()), f"x{shown} (axis chunks {ls}, index dtype {dt}): dask {got.tolist()} numpy {want.tolist()}")
        return got.tolist()

    return Obligation(f"take_mixed[len<={maxn},none<={max_none},chunk<={maxl},{'/'.join(dtypes)}]", setup, run)


def mk_dask_indexer(maxn, maxl):
    """indexers that are themselves dask arrays: a 1-d integer dask array (its own chunking, negatives, duplicates, size-0 chunks of the
    indexed axis), a 0-d integer dask array, a 1-d boolean dask mask on one axis and a full-shape boolean dask mask; combined with an
    integer / slice on the other axis. Values pass through NumPy: enumerated."""
    OTHER = (":", "i", "s")

    def setup(e):
        ls = tuple(e.int(f"l{i}", 0, maxl) for i in range(3))
        dim = ls[0] + ls[1] + ls[2]
        e.assume(lambda: dim >= 1)
        kind = e.pick("kind", ("int1d", "int0d", "bool1d", "boolfull"))
        ax = e.choice("ax", 2)
        other = e.pick("other", OTHER) if kind != "boolfull" else ":"
        if kind == "int0d":
            n = 1
        elif kind in ("bool1d", "boolfull"):
            n = 1 + e.choice("n", min(maxn, 2))
        else:
            n = 1 + e.choice("n", maxn)
        idx = []
        for t in range(n):
            v = e.int(f"v{t}")
            e.assume(lambda: (v >= -dim) & (v < dim))
            idx.append(v)
        ichunk = 1 + e.choice("ichunk", 2)
        return ls, kind, ax, other, idx, ichunk

    def run(e, ls, kind, ax, other, idx, ichunk):
        import operator
        import dask.array as da
        ls = tuple(operator.index(c) for c in ls)
        idx = [operator.index(v) for v in idx]
        dim = sum(ls)
        shape = [3]
        shape.insert(ax, dim)
        x = np.arange(int(np.prod(shape))).reshape(shape) * 3 + 1
        chunks = [(2, 1)]
        chunks.insert(ax, ls)
        d = da.from_array(x, chunks=tuple(chunks))
        o = {":": slice(None), "i": 1, "s": slice(1, None)}[other]
        if kind == "int1d":
            sel_np = np.array(idx)
            sel_da = da.from_array(sel_np, chunks=ichunk)
        elif kind == "int0d":
            sel_np = np.int64(idx[0])
            sel_da = da.from_array(np.array(idx[0]), chunks=())
        elif kind == "bool1d":
            sel_np = np.zeros(dim, dtype=bool)
            sel_np[idx] = True
            sel_da = da.from_array(sel_np, chunks=ichunk)
        else:
            sel_np = np.zeros(x.shape, dtype=bool)
            flat = sel_np.reshape(-1)
            for v in idx:
                flat[(v * 2) % flat.size] = True
            sel_da = da.from_array(sel_np, chunks=tuple(chunks) if ichunk == 1 else x.shape)
        if kind == "boolfull":
            inp, ida = (sel_np,), (sel_da,)
        else:
            inp, ida = [o], [o]
            inp.insert(ax, sel_np)
            ida.insert(ax, sel_da)
            inp, ida = tuple(inp), tuple(ida)
        want = x[inp]
        r = d[ida]
        got = r.compute(scheduler="sync")
        what = f"x[{kind} {idx} on axis {ax}, other={other}] axis chunks {ls}, indexer chunks {ichunk}"
        e.check(got.shape == want.shape and bool((got == want).all()), f"{what}: dask {got.tolist()} numpy {want.tolist()}")
        if kind in ("int1d", "int0d"):
            e.check(r.shape == want.shape, f"{what}: lazy shape {r.shape} != {want.shape}")
            e.check(tuple(sum(c) for c in r.chunks) == want.shape, f"{what}: lazy chunks do not add up to the shape")
        else:
            # unknown chunk sizes along the masked axis are legitimate (nan); known ones must be truthful
            e.check(r.ndim == want.ndim, f"{what}: lazy ndim {r.ndim} != {want.ndim}")
            for a, (ln, w) in enumerate(zip(r.shape, want.shape)):
                e.check(ln != ln or ln == w, f"{what}: lazy length {ln} of axis {a} != {w}")
            r.compute_chunk_sizes()
            e.check(r.shape == want.shape, f"{what}: shape after compute_chunk_sizes {r.shape} != {want.shape}")
        return got.tolist()

    return Obligation(f"dask_indexer[len<={maxn},chunk<={maxl}]", setup, run)


def mk_vindex_blocks(maxn, maxc, minn=1, nonneg=False):
    """vindex point selection (one or two integer lists, broadcast against each other and combined with slices) and blocks[] indexing
    (integers, slices, lists over the block grid) on a 2-d array with symbolic (concretised) chunk sizes: enumerated."""
    def setup(e):
        l0 = (e.int("a0", 1, maxc), e.int("a1", 1, maxc))
        l1 = (e.int("b0", 1, maxc), e.int("b1", 0, maxc))
        mode = e.pick("mode", ("v_both", "v_first", "v_second", "v_scalar", "blocks"))
        n = minn + e.choice("n", maxn - minn + 1)
        d0, d1 = l0[0] + l0[1], l1[0] + l1[1]
        pts = []
        for t in range(n):
            i = e.int(f"i{t}")
            j = e.int(f"j{t}")
            if nonneg:
                e.assume(lambda: (i >= 0) & (j >= 0))
            e.assume(lambda: (i >= -d0) & (i < d0) & (j >= -d1) & (j < d1))
            pts.append((i, j))
        return l0, l1, mode, pts

    def run(e, l0, l1, mode, pts):
        import operator
        import dask.array as da
        l0 = tuple(operator.index(c) for c in l0)
        l1 = tuple(operator.index(c) for c in l1)
        pts = [(operator.index(i), operator.index(j)) for i, j in pts]
        x = np.arange(sum(l0) * sum(l1)).reshape(sum(l0), sum(l1)) * 3 + 1
        d = da.from_array(x, chunks=(l0, l1))
        ii = [p[0] for p in pts]
        jj = [p[1] for p in pts]
        if mode == "v_both":
            want, r = x[ii, jj], d.vindex[ii, jj]
        elif mode == "v_first":
            want, r = x[ii, :], d.vindex[ii, :]
        elif mode == "v_second":
            want, r = x[1:, jj], d.vindex[1:, jj]
            # NumPy: a single advanced index keeps its position; vindex documents that point dimensions come FIRST
            want = np.moveaxis(want, 1, 0)
        elif mode == "v_scalar":
            want, r = x[ii, jj[0]], d.vindex[ii, jj[0]]
        else:
            # blocks[]: the block grid is 2 x 2; indices taken modulo the grid
            bi = [i % 2 for i in ii]
            bj = jj[0] % 2
            starts0 = (0, l0[0], l0[0] + l0[1])
            starts1 = (0, l1[0], l1[0] + l1[1])
            want = np.concatenate([x[starts0[b]:starts0[b + 1], starts1[bj]:starts1[bj + 1]] for b in bi], axis=0)
            r = d.blocks[bi, bj]
            e.check(r.chunks == (tuple(l0[b] for b in bi), (l1[bj],)), f"blocks[{bi}, {bj}] chunks {r.chunks}")
            r2 = d.blocks[bi[0]]
            w2 = x[starts0[bi[0]]:starts0[bi[0] + 1]]
            e.check(r2.chunks == ((l0[bi[0]],), l1) and bool((r2.compute(scheduler="sync") == w2).all()), f"blocks[{bi[0]}] differs from the block row")
            r3 = d.blocks[::-1, bj:]
            w3 = np.concatenate([x[starts0[b]:starts0[b + 1], starts1[bj]:] for b in (1, 0)], axis=0)
            e.check(bool((r3.compute(scheduler="sync") == w3).all()) and r3.shape == w3.shape, f"blocks[::-1, {bj}:] differs")
        got = r.compute(scheduler="sync")
        what = f"{mode} points {pts} chunks {l0} x {l1}"
        e.check(r.shape == want.shape, f"{what}: lazy shape {r.shape} != {want.shape}")
        e.check(tuple(sum(c) for c in r.chunks) == want.shape, f"{what}: lazy chunks do not add up")
        e.check(got.shape == want.shape and bool((got == want).all()), f"{what}: dask {got.tolist()} numpy {want.tolist()}")
        return got.tolist()

    return Obligation(f"vindex_blocks[points {minn}..{maxn},chunk<={maxc}{',non-negative' if nonneg else ''}]", setup, run)


def mk_tuple(ndim, L, maxc):
    """index tuples of up to L items over a `ndim`-d array (2 blocks on axis 0, 1 on the others) from the grammar {None, int, slice(a, None) / slice(None, a), full slice, Ellipsis}:
    lazy output shape/chunks (newaxis positions, dropped integer axes, implicit trailing full slices) against the NumPy rule"""
    ITEMS = ("N", "i", "s", ":", "E")

    def setup(e):
        n = 1 + e.choice("len", L)
        kinds = [e.pick(f"it{t}", ITEMS) for t in range(n)]
        e.assume(kinds.count("E") <= 1)
        consuming = sum(1 for k in kinds if k in "is:")
        e.assume(consuming <= ndim)
        lss, dims = [], []
        for ax in range(ndim):
            nb = 2 if ax == 0 else 1
            ls = tuple(e.int(f"l{ax}_{i}", 1, maxc) for i in range(nb))
            lss.append(ls)
            dims.append(sum(ls[1:], ls[0]))
        # which input axis each consuming item addresses (Ellipsis swallows the gap)
        axes = []
        ax = 0
        for t, k in enumerate(kinds):
            if k == "E":
                after = sum(1 for kk in kinds[t + 1:] if kk in "is:")
                ax = ndim - after
                axes.append(None)
            elif k in "is:":
                axes.append(ax)
                ax += 1
            else:
                axes.append(None)
        index = []
        for t, k in enumerate(kinds):
            if k == "N":
                index.append(None)
            elif k == "E":
                index.append(Ellipsis)
            elif k == ":":
                index.append(slice(None))
            elif k == "i":
                d = dims[axes[t]]
                i = e.int(f"i{t}")
                e.assume(lambda: (i >= -d) & (i < d))
                index.append(i)
            else:
                d = dims[axes[t]]
                a = e.int(f"a{t}")
                e.assume(lambda: (a >= -d - 1) & (a <= d + 1))
                index.append(slice(a, None, None) if t % 2 == 0 else slice(None, a, None))
        return kinds, axes, tuple(index), tuple(lss), tuple(dims)

    def expected(kinds, axes, index, dims):
        """NumPy result shape as a list of ('new',) / ('axis', ax, slice) entries"""
        out = []
        used = set()
        for t, k in enumerate(kinds):
            if k == "N":
                out.append(("new",))
            elif k == "E":
                after = sum(1 for kk in kinds[t + 1:] if kk in "is:")
                before = sum(1 for kk in kinds[:t] if kk in "is:")
                for ax in range(before, len(dims) - after):
                    out.append(("axis", ax, slice(None)))
                    used.add(ax)
            elif k == "i":
                used.add(axes[t])
            else:
                out.append(("axis", axes[t], index[t]))
                used.add(axes[t])
        if "E" not in kinds:
            for ax in range(len(dims)):
                if ax not in used:
                    out.append(("axis", ax, slice(None)))
        return out

    def run(e, kinds, axes, index, lss, dims):
        idx = S.normalize_index(index, dims)
        exp = expected(kinds, axes, index, dims)
        try:
            dsk, bd = S.slice_array("y", "x", lss, idx)
        except S.SlicingNoop:
            e.check(all(x[0] == "axis" for x in exp) and len(exp) == len(dims), "SlicingNoop for an index that adds or drops axes")
            for _, ax, sl in exp:
                e.check(lambda: ref_len(dims[ax], sl) == dims[ax], "SlicingNoop although a slice does not keep the whole axis")
                if sl != slice(None):
                    a0, b0, c0 = py_indices(sl, dims[ax])
                    e.check(lambda: a0 == 0, "SlicingNoop although a slice does not start at 0")
            return "noop"
        e.check(len(bd) == len(exp), f"result has {len(bd)} dimensions, NumPy gives {len(exp)}")
        shape = []
        for oa, x in enumerate(exp):
            tot = 0
            for c in bd[oa]:
                tot = tot + c
            if x[0] == "new":
                e.check(tuple(bd[oa]) == (1,), f"output axis {oa} should be a new axis with chunks (1,), got {bd[oa]}")
            else:
                want = ref_len(dims[x[1]], x[2])
                e.check(lambda: tot == want, f"output axis {oa} (input axis {x[1]}): lazy length differs from NumPy's")
            shape.append(tot)
        nkeys = 1
        for c in bd:
            nkeys *= len(c)
        e.check(len([k for k in dsk if k[0] == "y"]) == nkeys, "number of output blocks != product of chunk counts")
        for k in dsk:
            if k[0] == "y":
                e.check(len(k) - 1 == len(bd), "output key rank != number of output dimensions")
        return shape

    def e2e(model):
        import dask.array as da
        from symx.core import NativeEngine
        kinds, axes, index, lss, dims = setup(NativeEngine(model))
        x = (np.arange(int(np.prod(dims))).reshape(dims) * 5 + 2)
        d = da.from_array(x, chunks=lss)[index]
        want = x[index]
        got = d.compute(scheduler="sync")
        if d.shape != want.shape or got.shape != want.shape or not (got == want).all():
            raise Violation(f"x[{index}] chunks {lss}: lazy shape {d.shape}, computed {got.shape}, numpy {want.shape}")
        if tuple(sum(c) for c in d.chunks) != want.shape:
            raise Violation(f"chunks {d.chunks} do not add up to {want.shape}")

    return Obligation(f"tuple[ndim={ndim},len<={L}]", setup, run, patches=_patches, e2e=e2e, e2e_every=9)


def obligations(tier):
    obs = []
    if tier == "quick":
        maxc, pad, nbs = 4, 2, (1, 2, 3)
        steps = (None, 1, 2, 3, -1, -2, -3)
    else:
        maxc, pad, nbs = 6, 3, (1, 2, 3, 4)
        steps = (None, 1, 2, 3, 4, -1, -2, -3, -4)
    for nb in nbs:
        for step in steps:
            for ns in (False, True):
                for nst in (False, True):
                    if nb < max(nbs) and (ns or nst) and tier == "quick" and nb == 1:
                        continue
                    obs.append(mk_1d_slice(nb, step, ns, nst, maxc, pad))
        obs.append(mk_1d_int(nb, maxc))
    for step in steps:
        for ns, nst in ((False, False), (True, True)):
            obs.append(mk_1d_slice(3, step, ns, nst, 2 if tier == "quick" else 3, pad, minc=0))
    if tier == "quick":
        obs.append(mk_2d(("a", "b"), (2, 2), (2, -1), 3, 0))
        obs.append(mk_2d(("b", "a"), (2, 1), (-2, 3), 3, 3))
        obs.append(mk_2d(("i", "s"), (2, 2), (None, -2), 3, 0))
        obs.append(mk_2d(("s", "i"), (2, 2), (1, None), 3, 2))
        obs.append(mk_tuple(2, 4, 2))
        obs.append(mk_tuple(1, 3, 3))
        obs.append(mk_take(3, 2, False))
        obs.append(mk_take(2, 2, True))
        obs.append(mk_mixed(2, 1, 1, ("int64",)))
        obs.append(mk_dask_indexer(2, 1))
        obs.append(mk_vindex_blocks(1, 2))
        obs.append(mk_vindex_blocks(2, 1, minn=2))
        obs.append(mk_mixed(1, 2, 1, ("int8",)))
    else:
        obs.append(mk_take(5, 3, False))
        obs.append(mk_take(4, 2, True))
        obs.append(mk_mixed(2, 2, 1, ("int64", "int8")))
        obs.append(mk_dask_indexer(3, 2))
        obs.append(mk_vindex_blocks(1, 3))
        obs.append(mk_vindex_blocks(2, 2, minn=2, nonneg=True))
        obs.append(mk_vindex_blocks(3, 1, minn=3))
        obs.append(mk_mixed(3, 0, 1, ("int64",)))
        obs.append(mk_tuple(1, 4, 3))
        obs.append(mk_tuple(2, 4, 2))
        obs.append(mk_tuple(3, 4, 2))
        for k in (("s", "s"), ("i", "s"), ("s", "i")):
            for st in ((1, -1), (2, -2), (-3, 2), (-1, -1)):
                for wn in (0, 1, 2, 3):
                    if wn and st != (2, -2):
                        continue
                    if k == ("s", "s") and wn in (1, 3):
                        continue        # ~135k paths each; None before/after both slices is covered by the is/si variants and mk_tuple
                    obs.append(mk_2d(k, (2, 2), st, 3, wn))
        obs.append(mk_2d(("i", "i"), (3, 3), (None, None), 4, 1))
    return obs
