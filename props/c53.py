"""C53 -- serializable locks keep their identity across pickling"""
from __future__ import annotations

import copy
import gc
import pickle

from symx.core import Violation
from symx.run import Obligation

import dask.utils as U
from dask.utils import SerializableLock

PROPERTY = "C53"
LEVEL = "other"
BUDGET = {"quick": 120, "thorough": 2400}
EXPLANATION = (
    "All bounded histories over the real SerializableLock: create (fresh token / explicit token A or B), pickle round trip of an existing "
    "object, copy.copy / copy.deepcopy of it, non-blocking acquire, release, locked(), and dropping every reference to an identity class "
    "followed by garbage collection. A reference model tracks identity classes (objects created with the same explicit token, and every "
    "copy of an object, share a class; separately created locks are distinct classes) and one held-bit per class. After every operation: "
    "acquire(blocking=False) succeeds iff the class is free, locked() equals the held-bit for EVERY live object (so holding one copy blocks "
    "all others and never blocks a separately created lock), release frees the whole class; after every operation each free lock is "
    "additionally probed (acquire through one copy, every copy must report locked and no other lock may, release). The inputs are operation choices without "
    "arithmetic: the solver enumerates the decision tree and proves it exhausted (bounded exhaustive).")
ASSUMPTIONS = [
    "mutual exclusion is observed with non-blocking acquires from one thread: threading.Lock is not re-entrant, so acquire(blocking=False) returning False is "
    "exactly 'another holder would block'; real thread contention is not exercised",
    "pickle protocol: default and protocol 0 (enumerated)",
]
STUBS = []
ENUM = ["every operation and target of the history"]
OUTSIDE = ["blocking acquires from several OS threads", "other processes (the class documents that it does not exclude across processes)", "histories longer than the bound"]
BOUNDS = {"quick": dict(history="<= 4 operations, <= 3 live objects", ops=11), "thorough": dict(history="<= 5 operations, <= 3 live objects", ops=11)}


def functions():
    return [SerializableLock.__init__, SerializableLock.__getstate__, SerializableLock.__setstate__, SerializableLock.acquire,
            SerializableLock.release, SerializableLock.locked]


OPS = ("new", "newA", "newB", "pickle", "pickle0", "copy", "acquire", "release", "drop", "drop_one", "new_reseeded")


def mk(L, maxobj):
    def setup(e):
        n = 1 + e.choice("len", L)
        hist = []
        nobj = 0
        for t in range(n):
            if nobj == 0:
                op = e.pick(f"op{t}", OPS[:3])
                tgt = 0
            else:
                op = e.pick(f"op{t}", OPS)
                tgt = e.choice(f"tgt{t}", nobj) if op not in ("new", "newA", "newB", "new_reseeded") else 0
            if op in ("new", "newA", "newB", "pickle", "pickle0", "copy", "new_reseeded"):
                e.assume(nobj < maxobj)
                nobj += 1
            elif op == "drop":
                # dropping removes every object of the target's class: the object count is only known to the model at run time;
                # keep the bound simple by ending the history after a drop + one more creation
                pass
            hist.append((op, tgt))
        return (hist,)

    def run(e, hist):
        gc.collect()
        SerializableLock._locks.clear() if hasattr(SerializableLock._locks, "clear") else None
        import random
        random.seed(987654321)      # every run starts from the same global RNG state (symbolic run and native replay must agree)
        objs = []          # live objects: (lock object, class id)
        held = {}          # class id -> bool
        tok_class = {}     # explicit token -> class id
        ncls = 0
        trace = []
        uniq = f"{id(hist)}"
        lk = src = other = None
        for op, tgt in hist:
            lk = src = other = None         # no stray references: dropped objects must really be collectable
            if op in ("new", "newA", "newB", "new_reseeded"):
                if op in ("new", "new_reseeded"):
                    if op == "new_reseeded":
                        # a program that seeds the global RNGs for reproducibility before each step: separately created locks
                        # must still be distinct
                        import random
                        random.seed(12345)
                        try:
                            import numpy as _np
                            _np.random.seed(12345)
                        except Exception:
                            pass
                    lk = SerializableLock()
                    c = ncls
                    ncls += 1
                    held[c] = False
                else:
                    tok = ("verif-A-" if op == "newA" else "verif-B-") + uniq
                    lk = SerializableLock(tok)
                    if tok in tok_class and any(cc == tok_class[tok] for _, cc in objs):
                        c = tok_class[tok]
                    else:
                        c = ncls
                        ncls += 1
                        held[c] = False
                        tok_class[tok] = c
                objs.append((lk, c))
            elif not objs or tgt >= len(objs):
                trace.append("skip")
                continue
            elif op in ("pickle", "pickle0", "copy"):
                src, c = objs[tgt]
                if op == "pickle":
                    lk = pickle.loads(pickle.dumps(src))
                elif op == "pickle0":
                    lk = pickle.loads(pickle.dumps(src, protocol=0))
                else:
                    lk = copy.deepcopy(src)
                e.check(lk.token == src.token, "a copy carries a different token")
                objs.append((lk, c))
            elif op == "acquire":
                lk, c = objs[tgt]
                got = lk.acquire(blocking=False)
                e.check(got == (not held[c]), f"acquire(blocking=False) returned {got} but the lock's identity class is {'held' if held[c] else 'free'}")
                if got:
                    held[c] = True
            elif op == "release":
                lk, c = objs[tgt]
                if not held[c]:
                    trace.append("skip")
                    continue
                lk.release()
                held[c] = False
            elif op == "drop":
                c = objs[tgt][1]        # (no name may keep the lock object alive: `_, c = objs[tgt]` did, which made a later drop_one ineffective)
                if held[c]:
                    trace.append("skip")
                    continue
                objs = [(o, cc) for o, cc in objs if cc != c]
                lk = None
                gc.collect()
            elif op == "drop_one":
                # forget ONE object (e.g. the first-created one) while other copies of the same lock stay alive
                objs.pop(tgt)
                lk = None
                gc.collect()
            # invariant over every live object
            for lk, c in objs:
                e.check(lk.locked() == held[c], f"locked() is {lk.locked()} for an object whose identity class is {'held' if held[c] else 'free'}: "
                                                "copies of one lock disagree, or separately created locks interfere")
            # probe: taking any free lock through one of its copies must lock exactly the copies of that lock
            for i, (lk, c) in enumerate(objs):
                if held[c]:
                    continue
                e.check(lk.acquire(blocking=False) is True, "a free lock could not be acquired")
                for other, c2 in objs:
                    e.check(other.locked() == (c2 == c or held[c2]), "holding one copy does not lock exactly the copies of the same lock")
                lk.release()
            lk = other = None
            trace.append((op, tuple(sorted((c, held[c]) for _, c in objs))))
        # leave no lock held
        for lk, c in objs:
            if held[c]:
                lk.release()
                held[c] = False
        return trace

    return Obligation(f"histories[len<={L},objects<={maxobj}]", setup, run)


def obligations(tier):
    if tier == "quick":
        return [mk(4, 3)]
    return [mk(5, 3)]
