"""C09 -- low-level graph optimisations preserve requested values

Kernels: dask.optimization.{cull, inline, inline_functions, fuse_linear, fuse} on legacy (tuple) graphs and
dask._task_spec.{fuse_linear_task_spec, GraphNode.fuse, resolve_aliases, GraphNode.substitute} on Task/Alias/DataNode graphs.
"""
from __future__ import annotations

from symx.core import NativeEngine, Violation
from symx.patch import patched, INT_SHIM
from symx.run import Obligation

import dask
import dask.core as C
import dask.optimization as O
import dask._task_spec as TS
from dask._task_spec import Alias, DataNode, GraphNode, List, Task, TaskRef

PROPERTY = "C09"
LEVEL = "other"
BUDGET = {"quick": 200, "thorough": 1800}
EXPLANATION = (
    "The real optimisation functions are executed on every graph of a bounded grammar: N nodes in topological order, each a task "
    "(f_j, deps...), a data literal or an alias (value is another key); every subset of edges to earlier nodes; every alias target; one "
    "writing style per graph for its tasks (plain / dependencies inside a list argument / first dependency repeated / first dependency "
    "inside a nested sub-task); requested-key subsets (keys 'k0', ('t', 1), 'k2', ...); both dict insertion orders where the code iterates "
    "over the dict. Task functions build tuples (j, *args), so a key's value is the expression tree below it with the data literals as "
    "leaves. The expected value of every key is computed by a reference evaluator from the node description (no dask code); the optimised "
    "graph is evaluated with dask.core.get and each requested value is compared with e.equal, i.e. z3 is asked whether the two trees are "
    "equal for ALL leaf values. Leaves are symbolic ints: one unbounded variable per leaf in the task-spec obligations (never hashed "
    "there); in the legacy obligations dask hashes every literal (membership test against the key set), which concretises it, so the "
    "leaves are v + 10*j with ONE shared symbolic offset v in [0,1]. For fuse the four tuning parameters ave_width, max_width, max_height, "
    "max_depth_new_edges are symbolic ints in [0,4] passed explicitly: the solver forks exactly on the comparisons fuse makes "
    "((num_nodes + fudge) / height <= ave_width is kept as an exact rational), so every reachable behaviour over that parameter box is "
    "covered; rename_keys in {True, False, custom callable (proposes an existing key, colliding fresh names, or None)}. Asserted per "
    "optimisation: (a) every requested key is in the returned graph, (b) its value equals the reference value, (c) a returned "
    "dependencies dict has the returned graph's keys and per key the dependencies recomputed with get_dependencies (as multisets when "
    "lists are returned, as sets otherwise). inline: every key of the graph is requested afterwards. GraphNode.fuse: a chosen subset of "
    "nodes with one output is fused, the fused task replaces the output node, inner nodes nothing else needs are dropped, all remaining "
    "keys keep their values; >1 outputs must raise ValueError. substitute: every dependency of a chosen node is left / mapped to itself / "
    "replaced by its GraphNode / renamed to a fresh key holding its node (a dependency nobody else uses is then dropped); values kept. "
    "name_clash: a chain a -> b plus an unrelated key whose NAME is the one the default renamers give to the fused chain. tuplearg_*: "
    "legacy tasks holding a dependency inside a non-call tuple argument (f, (dep, 7)), which dask.get evaluates elementwise (the "
    "reference evaluator's reading is checked against dask.core.get on the original graph). Every path is replayed natively; e2e "
    "witnesses evaluate the optimised graph with the synchronous scheduler dask.get.")
ASSUMPTIONS = [
    "graph shapes, requested subsets and option flags are solver-enumerated choice variables (bounded exhaustive); the symbolic content is the "
    "leaf values and fuse's four integer parameters",
    "dask.optimization's global name `int` is shimmed for the symbolic run only (int(ave_width - 1) must keep the proxy); natively replayed unpatched",
    "values of the optimised graph are observed with dask.core.get (as the property states), which executes the whole returned graph; values of "
    "the original graph come from the reference evaluator",
    "`dependencies`, when supplied, is the exact dependency multiset/set of the graph as written (the documented precondition)",
]
STUBS = ["dask.optimization.int -> symx ShimInt (symbolic run only)"]
ENUM = ["node kinds, edge bits, alias targets, task writing style, requested subset, (rename_keys, dependencies given?, dict order) combinations, inline key "
        "subset, fast-function bits, fused subset and argument order, substitution modes, name forms",
        "the shared leaf offset of legacy graphs (hashed by dask => concretised, range [0,1])"]
OUTSIDE = ["graphs with more nodes than the bound", "float ave_width / None (derived) max_width, max_depth_new_edges", "SubgraphCallable, Dict/Set containers and kwargs in tasks",
           "minimality of cull / quality of fusion (never compared structurally; which tasks get fused is not judged)", "GraphNode.key attribute of returned nodes",
           "mixed legacy/GraphNode graphs in fuse/inline_functions", "block_fusion nodes, futures (keys absent from the graph)",
           "fuse/inline with a `dependencies` argument that disagrees with the graph"]
BOUNDS = {
    "quick": dict(nodes="N=3 with kinds task/literal/alias for every optimisation (styles: cull plain, N=2 list+nested; inline plain+list+nested; inline_functions "
                  "plain+nested; fuse_linear plain+repeated; fuse plain, repeated; fuse_linear_task_spec, substitute Task+List+nested; node_fuse Task+nested; "
                  "resolve_aliases Task); N=4 with node 0 a literal and nodes 1-3 tasks (all edge and requested subsets) for fuse and fuse_linear",
                  options="(rename_keys, dependencies, dict order) in {(True, None, fwd), (False, lists, rev), (custom, None, rev)}; inline: only keys with a dependent "
                  "are offered for inlining, (inline_constants, dependencies) in 4 combinations; inline_functions: fast bit enumerated for tasks that are neither "
                  "requested nor sinks (others always listed as fast), (inline_constants, dependencies) in {(False, None), (True, sets)}",
                  leaves="legacy: shared offset in [0,1] (concretised); task-spec: unbounded",
                  fuse_params="ave_width, max_width, max_height, max_depth_new_edges symbolic in [0,4]"),
    "thorough": dict(nodes="quick plus: all styles at N=3 with the full option product for fuse/fuse_linear; N=4 task/literal/alias for every optimisation (requested "
                     "subsets reduced to empty/singletons/all for inline_functions, fuse_linear, fuse); N=5 with node 0 a literal and nodes 1-4 tasks for fuse, "
                     "fuse_linear, fuse_linear_task_spec (requested: empty/singletons/all)",
                     leaves="as quick", fuse_params="symbolic in [0,5]"),
}

KEYS = ["k0", ("t", 1), "k2", "k3", "k4", "k5"]


def _mkf(j):
    def f(*a):
        return (j,) + a
    f.__name__ = f.__qualname__ = f"f{j}"
    return f


FUNCS = [_mkf(j) for j in range(len(KEYS))]
G = _mkf(99)          # function of nested sub-tasks


def functions():
    return [O.cull, O.inline, O.inline_functions, O.functions_of, O.fuse_linear, O.default_fused_linear_keys_renamer, O.fuse,
            O.default_fused_keys_renamer, C.subs, C.get_dependencies, C.keys_in_tasks, TS.fuse_linear_task_spec, TS.GraphNode.fuse, TS._execute_subgraph,
            TS.resolve_aliases, TS.Task.substitute, TS.Alias.substitute, TS.DataNode.substitute, TS.TaskRef.substitute,
            TS.NestedContainer.substitute, TS.convert_legacy_graph, TS.execute_graph, C.get]


# ---------------------------------------------------------------------------------------------------------------
# graph grammar

LEG = ("t", "d", "a")
SPEC = ("T", "D", "A")


def gen(e, N, kinds, leaf_hi, styles=None, fixed=None):
    """nodes: list of (kind, deps, leaf); kinds lower-case = legacy, upper-case = task-spec objects.
    kinds: base kinds out of task / data literal / alias.  styles: how the task nodes of this graph are written: plain (t), with
    their dependencies inside a list argument (l), with the first dependency repeated (u), with the first dependency wrapped in a nested
    sub-task (n), with the first dependency inside a NON-CALL tuple argument (dep, 7) (p); one style per graph, applied to every task
    node it is applicable to."""
    nodes = []
    base = None
    style = e.pick("style", styles) if styles else None
    for j in range(N):
        if fixed and j in fixed:
            opts = fixed[j]
        else:
            opts = kinds
        if j == 0:
            opts = [k for k in opts if k not in "aA"]
        kind = e.pick(f"kind{j}", opts)
        leaf = None
        if kind in "dD":
            deps = []
            if leaf_hi is None:
                leaf = e.int(f"v{j}")           # unbounded: task-spec graphs never hash their literals
            else:
                # legacy graphs: dask hashes every literal (concretisation), so all leaves share ONE small symbolic offset and
                # stay pairwise distinct through the constant 10*j
                if base is None:
                    base = e.int("v", 0, leaf_hi)
                leaf = base + 10 * j
        elif kind in "aA":
            deps = [e.choice(f"a{j}", j)]
        else:
            deps = [i for i in range(j) if e.flag(f"e{i}_{j}")]
        nodes.append((kind, deps, leaf))
    if style is not None and style not in "tT":
        applied = False
        for j, (kind, deps, leaf) in enumerate(nodes):
            if kind in "tT" and (deps or style in "lL"):
                nodes[j] = (style, deps, leaf)
                applied = True
        e.assume(applied)           # otherwise the graph coincides with the plain style
    if styles and "p" in styles:
        # derived model variable: 1 iff some task has a non-call tuple argument that contains a key of the graph
        computed = int(any(nd[0] == "p" for nd in nodes))
        tr = e.int("tuple_ref", 0, 1)
        e.assume(lambda: tr == computed)
    return nodes


def dep_list(node):
    """dependencies of a node as the multiset (list of node indices) the built value mentions"""
    kind, deps, _ = node
    if kind in "uU":
        return [deps[0]] + list(deps)
    return list(deps)


def mk_node(j, node, key=None):
    """the graph value of node j (written under `key`, default KEYS[j])"""
    kind, deps, leaf = node
    k = KEYS[j] if key is None else key
    dk = [KEYS[i] for i in deps]
    if kind == "t":
        return (FUNCS[j],) + tuple(dk)
    if kind == "d":
        return leaf
    if kind == "a":
        return dk[0]
    if kind == "l":
        return (FUNCS[j], list(dk))
    if kind == "u":
        return (FUNCS[j], dk[0]) + tuple(dk)
    if kind == "n":
        return (FUNCS[j], (G, dk[0])) + tuple(dk[1:])
    if kind == "p":
        return (FUNCS[j], (dk[0], 7)) + tuple(dk[1:])
    if kind == "T":
        return Task(k, FUNCS[j], *[TaskRef(d) for d in dk])
    if kind == "D":
        return DataNode(k, leaf)
    if kind == "A":
        return Alias(k, dk[0])
    if kind == "L":
        return Task(k, FUNCS[j], List(*[TaskRef(d) for d in dk]))
    if kind == "U":
        return Task(k, FUNCS[j], TaskRef(dk[0]), *[TaskRef(d) for d in dk])
    if kind == "N":
        return Task(k, FUNCS[j], Task(None, G, TaskRef(dk[0])), *[TaskRef(d) for d in dk[1:]])
    raise AssertionError(kind)


def build(nodes, rev=False):
    """rev: insert the keys into the dict dependents-first instead of dependencies-first"""
    order = range(len(nodes))
    return {KEYS[j]: mk_node(j, nodes[j]) for j in (reversed(order) if rev else order)}


def dependents_of(nodes):
    out = {j: set() for j in range(len(nodes))}
    for j, nd in enumerate(nodes):
        for i in nd[1]:
            out[i].add(j)
    return out


def ref_values(nodes):
    """reference evaluator: value of every node, from the node description only"""
    vals = []
    for j, (kind, deps, leaf) in enumerate(nodes):
        dv = [vals[i] for i in deps]
        if kind in "dD":
            vals.append(leaf)
        elif kind in "aA":
            vals.append(dv[0])
        elif kind in "tT":
            vals.append((j,) + tuple(dv))
        elif kind in "lL":
            vals.append((j, list(dv)))
        elif kind in "uU":
            vals.append((j, dv[0]) + tuple(dv))
        elif kind in "nN":
            vals.append((j, (99, dv[0])) + tuple(dv[1:]))
        elif kind == "p":
            # dask.get evaluates a non-call tuple argument elementwise (keys inside it are looked up)
            vals.append((j, (dv[0], 7)) + tuple(dv[1:]))
    return vals


def given_deps(nodes, mode):
    if mode is None:
        return None
    out = {}
    for j, nd in enumerate(nodes):
        dl = [KEYS[i] for i in dep_list(nd)]
        out[KEYS[j]] = dl if mode == "list" else set(dl)
    return out


def pick_req(e, N, allow_empty):
    req = [j for j in range(N) if e.flag(f"r{j}")]
    if not allow_empty:
        e.assume(bool(req))
    return req


def custom_renamer(keys):
    # declines (None) for groups of three; for a group starting with a str key proposes the name of a key of the graph that is
    # outside the group (the optimisers must notice the clash); otherwise a fresh name that is the same for all groups of equal size
    if len(keys) == 3:
        return None
    if isinstance(keys[0], str):
        for k in KEYS[:3]:
            if k not in keys:
                return k
    return ("fz", len(keys))


RENAME = (True, False, custom_renamer)


# ---------------------------------------------------------------------------------------------------------------
# assertions shared by all obligations


def check_values(e, new, nodes, req, what):
    """(a) requested keys present, (b) their values equal the reference values; returns the observation"""
    want = ref_values(nodes)
    if any(nd[0] == "p" for nd in nodes):
        # the reference evaluator's reading of tuple arguments is dask.core.get's own reading of the ORIGINAL graph
        orig = C.get(build(nodes), [KEYS[j] for j in range(len(nodes))])
        e.check(lambda: e.equal(list(orig), want), f"{what}: reference evaluator disagrees with dask.core.get on the original graph")
    for j in req:
        e.check(KEYS[j] in new, f"{what}: requested key {KEYS[j]!r} is missing from the returned graph (keys {sorted(map(repr, new))})")
    got = ()
    if req:
        got = C.get(new, [KEYS[j] for j in req])
        for j, g in zip(req, got):
            w = want[j]
            msg = f"{what}: value of {KEYS[j]!r} changed"
            if e.mode == "native":
                msg += f": {g!r} instead of {w!r}"
            e.check(lambda: e.equal(g, w), msg)
    return (sorted(map(repr, new)), list(got))


def check_depmap(e, new, deps, what):
    """(c) a returned dependency map matches the returned graph"""
    if deps is None:
        return None
    e.check(isinstance(deps, dict), f"{what}: dependencies is {type(deps).__name__}")
    e.check(set(deps) == set(new), f"{what}: dependency map has keys {sorted(map(repr, deps))}, graph has {sorted(map(repr, new))}")
    for k in new:
        d = deps[k]
        if isinstance(d, list):
            ok = sorted(map(repr, d)) == sorted(map(repr, C.get_dependencies(new, k, as_list=True)))
        else:
            ok = set(d) == C.get_dependencies(new, k)
        e.check(ok, f"{what}: dependencies[{k!r}] = {d!r} but the returned graph says {C.get_dependencies(new, k, as_list=True)!r}")
    return sorted((repr(k), sorted(map(repr, v))) for k, v in deps.items())


def _e2e_values(new, nodes, req, what):
    if not req:
        return
    want = ref_values(nodes)
    got = dask.get(new, [KEYS[j] for j in req])
    for j, g in zip(req, got):
        if g != want[j]:
            raise Violation(f"{what}: dask.get gives {g!r} for {KEYS[j]!r}, expected {want[j]!r}")


def _with_e2e(name, setup, run, apply_native, patches=None, every=17):
    """apply_native(*args) -> (new graph, nodes, requested indices): the optimisation run through the public function on plain ints"""

    def e2e(model):
        args = setup(NativeEngine(model))
        new, nodes, req = apply_native(*args)
        _e2e_values(new, nodes, req, name)

    return Obligation(name, setup, run, patches=patches, e2e=e2e, e2e_every=every)


def _name(fn, styles):
    """obligation family: graphs with a non-call tuple argument holding a key get their own name prefix"""
    return ("tuplearg_" if "p" in styles else "") + fn


def _tag(N, styles, fixed=None, extra=""):
    s = f"N={N},styles={''.join(styles)}"
    if fixed:
        s += ";" + ",".join(f"node{j}={''.join(v)}" for j, v in sorted(fixed.items()))
    return s + extra


def _req_sets(e, N, mode, allow_empty):
    """requested subset.  mode 'all': every subset; 'small': the empty set (if allowed), every singleton and the full set"""
    if mode == "all":
        return pick_req(e, N, allow_empty)
    opts = ([[]] if allow_empty else []) + [[j] for j in range(N)] + ([list(range(N))] if N > 1 else [])
    return e.pick("req", opts)


# ---------------------------------------------------------------------------------------------------------------
# legacy optimisations


def mk_cull(N, styles, fixed=None, req="all"):
    def setup(e):
        nodes = gen(e, N, LEG, 1, styles, fixed)
        return nodes, _req_sets(e, N, req, False)

    def call(nodes, req):
        dsk = build(nodes)
        keys = KEYS[req[0]] if len(req) == 1 else [KEYS[j] for j in req]
        return O.cull(dsk, keys)

    def run(e, nodes, req):
        new, deps = call(nodes, req)
        obs = check_values(e, new, nodes, req, "cull")
        return obs, check_depmap(e, new, deps, "cull")

    return _with_e2e(f"{_name('cull', styles)}[{_tag(N, styles, fixed)}]", setup, run, lambda nodes, req: (call(nodes, req)[0], nodes, req))


def mk_inline(N, styles, fixed=None, opts=((True, None), (False, None), (True, "list"), (False, "set")), sinks=False):
    """opts: (inline_constants, dependencies mode) combinations.  sinks=False: only keys that have a dependent are offered for inlining
    (inlining a key nobody refers to is the identity on every other key)"""

    def setup(e):
        nodes = gen(e, N, LEG, 1, styles, fixed)
        has_dependent = {i for nd in nodes for i in nd[1]}
        inl = [j for j in range(N) if (sinks or j in has_dependent) and e.flag(f"i{j}")]
        ic, dm = e.pick("opts", opts)
        return nodes, inl, ic, dm

    def call(nodes, inl, ic, dm):
        dsk = build(nodes)
        return O.inline(dsk, keys=[KEYS[j] for j in inl], inline_constants=ic, dependencies=given_deps(nodes, dm))

    def run(e, nodes, inl, ic, dm):
        new = call(nodes, inl, ic, dm)
        # inline takes no output keys and deletes nothing: every key may be requested afterwards
        return check_values(e, new, nodes, list(range(N)), "inline")

    return _with_e2e(f"{_name('inline', styles)}[{_tag(N, styles, fixed, ',sinks' if sinks else '')}]", setup, run, lambda *a: (call(*a), a[0], list(range(N))))


def mk_inline_functions(N, styles, fixed=None, opts=((False, None), (True, "set")), req="all"):
    def setup(e):
        nodes = gen(e, N, LEG, 1, styles, fixed)
        rq = _req_sets(e, N, req, False)
        # the fast-function bit of a node can only matter for tasks that are not protected outputs and have a dependent
        has_dependent = {i for nd in nodes for i in nd[1]}
        fast = []
        for j, nd in enumerate(nodes):
            if nd[0] in "da":
                continue
            if j in rq or j not in has_dependent:
                fast.append(j)              # bound: such functions are always listed as fast
            elif e.flag(f"fast{j}"):
                fast.append(j)
        gfast = e.flag("fastG") if any(nd[0] == "n" for nd in nodes) else True
        ic, dm = e.pick("opts", opts)
        return nodes, rq, fast, gfast, ic, dm

    def call(nodes, rq, fast, gfast, ic, dm):
        dsk = build(nodes)
        ff = [FUNCS[j] for j in fast] + ([G] if gfast else [])
        return O.inline_functions(dsk, [KEYS[j] for j in rq], fast_functions=ff, inline_constants=ic, dependencies=given_deps(nodes, dm))

    def run(e, nodes, rq, fast, gfast, ic, dm):
        new = call(nodes, rq, fast, gfast, ic, dm)
        return check_values(e, new, nodes, rq, "inline_functions")

    return _with_e2e(f"{_name('inline_functions', styles)}[{_tag(N, styles, fixed)}]", setup, run, lambda *a: (call(*a), a[0], a[1]))


# (index into RENAME, dependencies mode, dict insertion order reversed)
FUSE_OPTS_Q = ((0, None, False), (1, "list", True), (2, None, True))
FUSE_OPTS_T = tuple((r, d, o) for r in range(3) for d in (None, "list") for o in (False, True))


def mk_fuse_linear(N, styles, fixed=None, opts=FUSE_OPTS_Q, req="all"):
    def setup(e):
        nodes = gen(e, N, LEG, 1, styles, fixed)
        rq = _req_sets(e, N, req, True)
        rn, dm, rev = e.pick("opts", opts)
        return nodes, rq, rn, dm, rev

    def call(nodes, rq, rn, dm, rev):
        dsk = build(nodes, rev)
        keys = [KEYS[j] for j in rq] if rq else None
        return O.fuse_linear(dsk, keys=keys, dependencies=given_deps(nodes, dm), rename_keys=RENAME[rn])

    def run(e, nodes, rq, rn, dm, rev):
        new, deps = call(nodes, rq, rn, dm, rev)
        obs = check_values(e, new, nodes, rq, "fuse_linear")
        return obs, check_depmap(e, new, deps, "fuse_linear")

    return _with_e2e(f"{_name('fuse_linear', styles)}[{_tag(N, styles, fixed, ',req=' + req)}]", setup, run, lambda *a: (call(*a)[0], a[0], a[1]))


def _fuse_patches():
    return patched((O, "int", INT_SHIM))


def mk_fuse(N, styles, pmax, fixed=None, opts=FUSE_OPTS_Q, req="all"):
    def setup(e):
        nodes = gen(e, N, LEG, 1, styles, fixed)
        rq = _req_sets(e, N, req, True)
        rn, dm, rev = e.pick("opts", opts)
        aw = e.int("ave_width", 0, pmax)
        mw = e.int("max_width", 0, pmax)
        mh = e.int("max_height", 0, pmax)
        md = e.int("max_depth_new_edges", 0, pmax)
        return nodes, rq, rn, dm, rev, aw, mw, mh, md

    def call(nodes, rq, rn, dm, rev, aw, mw, mh, md):
        dsk = build(nodes, rev)
        keys = [KEYS[j] for j in rq] if rq else None
        return O.fuse(dsk, keys=keys, dependencies=given_deps(nodes, dm), ave_width=aw, max_width=mw, max_height=mh,
                      max_depth_new_edges=md, rename_keys=RENAME[rn])

    def run(e, nodes, rq, rn, dm, rev, aw, mw, mh, md):
        new, deps = call(nodes, rq, rn, dm, rev, aw, mw, mh, md)
        obs = check_values(e, new, nodes, rq, "fuse")
        return obs, check_depmap(e, new, deps, "fuse")

    return _with_e2e(f"{_name('fuse', styles)}[{_tag(N, styles, fixed, ',req=' + req)},params<={pmax}]", setup, run, lambda *a: (call(*a)[0], a[0], a[1]),
                     patches=_fuse_patches)


# ---------------------------------------------------------------------------------------------------------------
# task-spec optimisations


def mk_fuse_linear_task_spec(N, styles, fixed=None, req="all"):
    def setup(e):
        nodes = gen(e, N, SPEC, None, styles, fixed)
        return nodes, _req_sets(e, N, req, True), e.flag("dict_reversed")

    def call(nodes, rq, rev):
        return TS.fuse_linear_task_spec(build(nodes, rev), [KEYS[j] for j in rq])

    def run(e, nodes, rq, rev):
        new = call(nodes, rq, rev)
        return check_values(e, new, nodes, rq, "fuse_linear_task_spec")

    return _with_e2e(f"fuse_linear_task_spec[{_tag(N, styles, fixed)}]", setup, run, lambda *a: (call(*a), a[0], a[1]))


def mk_resolve_aliases(N, styles, fixed=None, req="all"):
    def setup(e):
        nodes = gen(e, N, SPEC, None, styles, fixed)
        return nodes, _req_sets(e, N, req, False)

    def call(nodes, rq):
        dependents = {KEYS[j]: {KEYS[i] for i in v} for j, v in dependents_of(nodes).items()}
        return TS.resolve_aliases(build(nodes), {KEYS[j] for j in rq}, dependents)

    def run(e, nodes, rq):
        new = call(nodes, rq)
        obs = check_values(e, new, nodes, rq, "resolve_aliases")
        # the result must be a well-formed task-spec graph: every node is stored under its own key ...
        for k, v in new.items():
            if isinstance(v, GraphNode):
                e.check(v.key == k, f"resolve_aliases: the node stored under {k!r} says its key is {v.key!r}")
        # ... so that a following optimisation still preserves the requested values
        keys = [KEYS[j] for j in rq]
        try:
            fused = TS.fuse_linear_task_spec(dict(new), keys)
        except Exception as ex:
            raise Violation(f"fuse_linear_task_spec fails on the output of resolve_aliases: {type(ex).__name__}: {ex}")
        check_values(e, fused, nodes, rq, "resolve_aliases + fuse_linear_task_spec")
        return obs

    return _with_e2e(f"resolve_aliases[{_tag(N, styles, fixed)}]", setup, run, lambda *a: (call(*a), a[0], a[1]))


def mk_node_fuse(N, styles, fixed=None):
    def setup(e):
        nodes = gen(e, N, SPEC, None, styles, fixed)
        sel = [j for j in range(N) if e.flag(f"s{j}")]
        e.assume(bool(sel))
        key = e.pick("newkey", (None, "fz"))
        rev = e.flag("reversed") if len(sel) > 1 else False
        return nodes, sel, key, rev

    def call(nodes, sel, key, rev):
        """-> (new graph or None if rejected, outputs of the selection, indices of the keys still in the new graph)"""
        dsk = build(nodes)
        tasks = [dsk[KEYS[j]] for j in (reversed(sel) if rev else sel)]
        # outputs of the selection: selected nodes no selected node depends on
        used = {i for j in sel for i in nodes[j][1]}
        outs = [j for j in sel if j not in used]
        if len(outs) > 1:
            try:
                fused = GraphNode.fuse(*tasks, key=key)
            except ValueError:
                return None, outs, []
            return fused, outs, []
        fused = GraphNode.fuse(*tasks, key=key)
        new = dict(dsk)
        out = outs[0]
        if key is None:
            new[KEYS[out]] = fused
        else:
            new[key] = fused
            new[KEYS[out]] = Alias(KEYS[out], key)
        # "the internal tasks are no longer accessible from the outside": inner nodes nobody outside the selection refers to are dropped
        # (kept: the output, every unselected node, and whatever those still need through their own, unfused, definitions)
        keep = {j for j in range(len(nodes)) if j not in sel}
        work = list(keep)
        while work:
            for i in nodes[work.pop()][1]:
                if i not in keep:
                    keep.add(i)
                    work.append(i)
        for j in sel:
            if j != out and j not in keep:
                del new[KEYS[j]]
        return new, outs, [j for j in range(len(nodes)) if KEYS[j] in new]

    def run(e, nodes, sel, key, rev):
        new, outs, keep = call(nodes, sel, key, rev)
        if len(outs) > 1:
            e.check(new is None, f"GraphNode.fuse accepted a selection with {len(outs)} outputs")
            return "rejected"
        return check_values(e, new, nodes, keep, "GraphNode.fuse")

    def native(nodes, sel, key, rev):
        new, outs, keep = call(nodes, sel, key, rev)
        if len(outs) > 1:
            return {}, nodes, []
        return new, nodes, keep

    return _with_e2e(f"node_fuse[{_tag(N, styles, fixed)}]", setup, run, native)


SUBS_MODES = ("absent", "identity", "inline", "rename")


def mk_substitute(N, styles, fixed=None):
    def setup(e):
        nodes = gen(e, N, SPEC, None, styles, fixed)
        j = e.choice("node", N)
        e.assume(bool(nodes[j][1]))
        modes = {d: e.pick(f"mode{d}", SUBS_MODES) for d in sorted(set(nodes[j][1]))}
        key = e.pick("newkey", (None, "nk"))
        return nodes, j, modes, key

    def call(nodes, j, modes, key):
        """node j is rewritten with substitute: each dependency d is left alone, mapped to itself, replaced by d's GraphNode, or
        renamed to the fresh key z<d> (which holds d's node in the new graph).  A replaced / renamed d that nobody else refers to
        is dropped from the new graph, so a substitution that is not carried out leaves a dangling reference."""
        dsk = build(nodes)
        new = dict(dsk)
        dependents = dependents_of(nodes)
        subs = {"unrelated": "other"}
        for d, m in modes.items():
            if m == "identity":
                subs[KEYS[d]] = KEYS[d]
            elif m == "inline":
                subs[KEYS[d]] = dsk[KEYS[d]]
            elif m == "rename":
                z = f"z{d}"
                subs[KEYS[d]] = z
                new[z] = mk_node(d, nodes[d], key=z)
            if m in ("inline", "rename") and dependents[d] == {j}:
                del new[KEYS[d]]
        res = dsk[KEYS[j]].substitute(subs, key=key)
        if key is None:
            new[KEYS[j]] = res
        else:
            new[key] = res
            new[KEYS[j]] = Alias(KEYS[j], key)
        return new, res, [i for i in range(len(nodes)) if KEYS[i] in new]

    def run(e, nodes, j, modes, key):
        new, res, keep = call(nodes, j, modes, key)
        e.check(isinstance(res, GraphNode), f"substitute returned {type(res).__name__}")
        return check_values(e, new, nodes, keep, "substitute")

    def native(*a):
        new, res, keep = call(*a)
        return new, a[0], keep

    return _with_e2e(f"substitute[{_tag(N, styles, fixed)}]", setup, run, native)


# ---------------------------------------------------------------------------------------------------------------
# key names that coincide with the name a fusion would give to the fused task


CLASH_FORMS = (("k0", "k2", "k0-k2", "other"),
               (("inc-123", 0), ("add-456", 0), ("inc-add-456", 0), ("other-789", 0)))
_PERMS = ((0, 1, 2), (2, 1, 0), (1, 0, 2))


def mk_name_clash(fn, pmax=4):
    """graph: a (task or literal), b = (f1, a), and an unrelated c (task or literal).  With clash=1 the key of c is exactly the name
    the default renamers give to the fused chain a -> b ('k0-k2', resp. ('inc-add-456', 0)); with clash=0 it is some other name.
    fn: 'fuse_linear' / 'fuse' (legacy tuples, rename_keys=True) or 'fuse_linear_task_spec' (Task objects)."""
    spec = fn == "fuse_linear_task_spec"

    def setup(e):
        form = e.choice("form", len(CLASH_FORMS))
        clash = e.flag("clash")
        a_data = e.flag("a_is_literal")
        c_data = e.flag("c_is_literal")
        va = e.int("va", *((None, None) if spec else (0, 1)))
        vc = va + 10
        rq = [j for j in range(3) if e.flag(f"r{j}")]
        perm = e.pick("dict_order", _PERMS)
        params = tuple(e.int(n, 0, pmax) for n in ("ave_width", "max_width", "max_height", "max_depth_new_edges")) if fn == "fuse" else ()
        return form, clash, a_data, c_data, va, vc, rq, perm, params

    def names(form, clash):
        ka, kb, kclash, kother = CLASH_FORMS[form]
        return [ka, kb, kclash if clash else kother]

    def call(form, clash, a_data, c_data, va, vc, rq, perm, params):
        K = names(form, clash)
        if spec:
            vals = [DataNode(K[0], va) if a_data else Task(K[0], FUNCS[0]),
                    Task(K[1], FUNCS[1], TaskRef(K[0])),
                    DataNode(K[2], vc) if c_data else Task(K[2], FUNCS[2])]
        else:
            vals = [va if a_data else (FUNCS[0],), (FUNCS[1], K[0]), vc if c_data else (FUNCS[2],)]
        dsk = {K[j]: vals[j] for j in perm}
        keys = [K[j] for j in rq]
        if fn == "fuse_linear_task_spec":
            return TS.fuse_linear_task_spec(dsk, keys), None
        if fn == "fuse_linear":
            return O.fuse_linear(dsk, keys=keys or None, rename_keys=True)
        aw, mw, mh, md = params
        return O.fuse(dsk, keys=keys or None, ave_width=aw, max_width=mw, max_height=mh, max_depth_new_edges=md, rename_keys=True)

    def want(a_data, c_data, va, vc):
        wa = va if a_data else (0,)
        return [wa, (1, wa), vc if c_data else (2,)]

    def run(e, form, clash, a_data, c_data, va, vc, rq, perm, params):
        K = names(form, clash)
        new, deps = call(form, clash, a_data, c_data, va, vc, rq, perm, params)
        w = want(a_data, c_data, va, vc)
        for j in rq:
            e.check(K[j] in new, f"{fn}: requested key {K[j]!r} is missing from the returned graph (keys {sorted(map(repr, new))})")
        got = C.get(new, [K[j] for j in rq]) if rq else ()
        for j, g in zip(rq, got):
            msg = f"{fn}: value of {K[j]!r} changed in a graph that also has the key {K[2]!r}"
            if e.mode == "native":
                msg += f": {g!r} instead of {w[j]!r}"
            e.check(lambda: e.equal(g, w[j]), msg)
        return sorted(map(repr, new)), list(got), check_depmap(e, new, deps, fn)

    def e2e(model):
        args = setup(NativeEngine(model))
        K = names(args[0], args[1])
        new, _ = call(*args)
        rq = args[6]
        w = want(*args[2:6])
        if rq:
            for j, g in zip(rq, dask.get(new, [K[j] for j in rq])):
                if g != w[j]:
                    raise Violation(f"{fn}: dask.get gives {g!r} for {K[j]!r}, expected {w[j]!r}")

    return Obligation(f"name_clash[{fn}]", setup, run, patches=_fuse_patches if fn == "fuse" else None, e2e=e2e, e2e_every=17)


# ---------------------------------------------------------------------------------------------------------------


def tuplearg_family(pmax):
    """legacy graphs (N=3) in which every task with a dependency holds its first dependency inside a non-call tuple argument.
    `dependencies` is never supplied here (the documented way to obtain it is cull / get_dependencies, whose reading of such tuples is
    the very thing in question), so the functions compute it themselves."""
    return [mk_cull(3, "p"),
            mk_inline(3, "p", opts=((True, None), (False, None))),
            mk_inline_functions(3, "p", opts=((False, None),)),
            mk_fuse_linear(3, "p", opts=((0, None, False), (1, None, True))),
            mk_fuse(3, "p", pmax, opts=((0, None, True),))]


def mk_two_chains(fn):
    """two linear chains whose fused names coincide under the default renamer ('a' -> 'b' -> 'c' and 'a-1' -> 'b-c' are both called
    'a-b-c') feeding one sink; symbolic leaves; the dict order (which chain is visited first, where the sink sits, chains listed
    forwards or backwards) is solver-enumerated"""
    spec = fn == "fuse_linear_task_spec"
    C1, C2 = ["a", "b", "c"], ["a-1", "b-c"]

    def setup(e):
        first = e.flag("second_chain_first")
        rev = e.flag("chains_listed_backwards")
        sink_pos = e.choice("sink_position", 3)
        va = e.int("va", *((None, None) if spec else (0, 1)))
        vb = va + 10
        req_mid = e.flag("request_chain_tops")
        return first, rev, sink_pos, va, vb, req_mid

    def build(first, rev, sink_pos, va, vb):
        inc = FUNCS[1]
        add = FUNCS[2]
        if spec:
            n = {"a": DataNode("a", va), "b": Task("b", inc, TaskRef("a")), "c": Task("c", inc, TaskRef("b")),
                 "a-1": DataNode("a-1", vb), "b-c": Task("b-c", inc, TaskRef("a-1")), "t": Task("t", add, TaskRef("c"), TaskRef("b-c"))}
        else:
            n = {"a": va, "b": (inc, "a"), "c": (inc, "b"), "a-1": vb, "b-c": (inc, "a-1"), "t": (add, "c", "b-c")}
        c1, c2 = (C1[::-1], C2[::-1]) if rev else (C1, C2)
        order = (c2 + c1) if first else (c1 + c2)
        order.insert([0, len(order) // 2, len(order)][sink_pos], "t")
        return {k: n[k] for k in order}

    def run(e, first, rev, sink_pos, va, vb, req_mid):
        dsk = build(first, rev, sink_pos, va, vb)
        keys = ["t"] + (["c", "b-c"] if req_mid else [])
        if fn == "fuse_linear_task_spec":
            new, deps = TS.fuse_linear_task_spec(dsk, keys), None
        elif fn == "fuse_linear":
            new, deps = O.fuse_linear(dsk, keys=keys, rename_keys=True)
        else:
            new, deps = O.fuse(dsk, keys=keys, ave_width=1, rename_keys=True)
        want = C.get(dsk, keys)
        for k in keys:
            e.check(k in new, f"{fn}: requested key {k!r} is missing from the returned graph")
        got = C.get(new, keys)
        e.check(lambda: e.equal(list(got), list(want)), f"{fn}: two chains whose fused names coincide changed the requested values")
        return sorted(map(repr, new)), list(got), check_depmap(e, new, deps, fn)

    return Obligation(f"two_chains_same_name[{fn}]", setup, run, patches=_fuse_patches if fn == "fuse" else None)


def obligations(tier):
    obs = []
    if tier in ("quick", "thorough"):
        obs.append(mk_cull(3, "t"))
        obs.append(mk_cull(2, "ln"))
        obs.append(mk_inline(3, "tln"))
        obs.append(mk_inline_functions(3, "tn"))
        D3 = {0: "d", 1: "t", 2: "t", 3: "t"}
        obs.append(mk_fuse_linear(3, "tu"))
        obs.append(mk_fuse_linear(4, "t", fixed=D3, opts=((0, None, False),)))
        obs.append(mk_fuse(3, "t", 4))
        obs.append(mk_fuse(3, "u", 4, opts=((0, None, False),)))
        obs.append(mk_fuse(4, "t", 4, fixed=D3, opts=((0, None, False),)))
        obs.append(mk_fuse_linear_task_spec(3, "TLN"))
        obs.append(mk_resolve_aliases(3, "T"))
        obs.append(mk_node_fuse(3, "TN"))
        obs.append(mk_substitute(3, "TLN"))
        obs += [mk_name_clash(fn) for fn in ("fuse_linear", "fuse", "fuse_linear_task_spec")]
        obs += [mk_two_chains(fn) for fn in ("fuse_linear", "fuse", "fuse_linear_task_spec")]
        obs += tuplearg_family(4)
    if tier == "thorough":
        D4 = {0: "d", 1: "t", 2: "t", 3: "t", 4: "t"}
        obs.append(mk_cull(4, "t"))
        obs.append(mk_inline(3, "tln", sinks=True))
        obs.append(mk_inline(4, "tl"))
        obs.append(mk_inline_functions(3, "tln", opts=((False, None), (True, None), (False, "set"), (True, "set"))))
        obs.append(mk_inline_functions(4, "tn", req="small"))
        obs.append(mk_fuse_linear(3, "tlun", opts=FUSE_OPTS_T))
        obs.append(mk_fuse_linear(4, "tu", req="small"))
        obs.append(mk_fuse_linear(5, "t", fixed=D4, opts=((0, None, False), (2, "list", True)), req="small"))
        obs.append(mk_fuse(3, "tlun", 5, opts=FUSE_OPTS_T))
        obs.append(mk_fuse(4, "t", 5, opts=FUSE_OPTS_Q, req="small"))
        obs.append(mk_fuse(5, "t", 5, fixed=D4, opts=((0, None, False),), req="small"))
        obs.append(mk_fuse_linear_task_spec(4, "TL"))
        obs.append(mk_fuse_linear_task_spec(5, "T", fixed={0: "D", 1: "T", 2: "T", 3: "T", 4: "T"}, req="small"))
        obs.append(mk_resolve_aliases(4, "TL"))
        obs.append(mk_node_fuse(3, "TLN"))
        obs.append(mk_node_fuse(4, "T"))
        obs.append(mk_substitute(4, "TN"))
    return obs
